#!/usr/bin/env python3
"""Translator T5 ("transpose"): `Matrix::transpose` of src/lib.rs -> a Lean 4 function on the header
and the element array (`Gen/TransposeGen.lean`), regenerated on every run.  The Lean term is derived
from the Rust statements; nothing is emitted from a template.  Anything outside the language below
is reported (`Untranslatable`), never guessed; the function then becomes a stub that faults, so the
file still compiles and the bridge theorem (`Lemmas/BridgeTranspose.lean`) fails.

State of the translated function: the header `self_ : Hdr` (order + axis shape; `self.shape` is the
only field the function may touch), the buffer `data : Array α` (reached through the base pointer
only), every `Vec<bool>` created with `vec![..]`, and the `let mut` integers.

Types (a small checker assigns one to every expression; an operation applied to the wrong type is
untranslatable):  usize | bool | AxisShape | AxisIndex | *mut T (an offset from the buffer start)
| Vec<bool> | &mut bool (a vector + the offset of the element).

Statements
    if COND { ...; return self; }            early exit (top level of the function only, no `else`)
    let [mut] x = EXPR;                      (no patterns; annotation only usize / bool / AxisShape / AxisIndex;
                                              no shadowing of an outer local inside a nested block)
    x = EXPR;                                `let mut` integer locals
    *r = EXPR;                               write through a `get_unchecked_mut` reference (`refWrite`)
    self.shape.transpose();                  functional update of the header (T2's Gen.AxisShape.transpose)
    unsafe { ... }                           transparent (a scope)
    for i in 0..EXPR { ... }                 a fold over 0, 1, …, EXPR-1 carrying (data, vectors); top level only;
                                             the body may not assign outer integer locals, break, continue or return
    loop { ... }                             `loopFuel` (Model/LoopPrims.lean): a recursive function with fuel
                                             `data.len() + 1` (taken at function entry) that faults with `.fuel`
                                             when it runs out; carries (the outer `let mut` integers the body
                                             assigns, data, vectors); those integers are dead after the loop
                                             (a later use is untranslatable); not nested
    if COND { .. } [else { .. }]             inside a `loop`, where at least one branch ends in `break;`
    break;                                   last statement of the loop body's branch it stands in
    ptr::swap(p, q);                         `ptrSwap` (UB outside the buffer)
    self / return self;                      result: (header, buffer)

Expressions
    integers, true / false, locals, self.shape
    + - * / %                                checked `uadd usub umul udiv urem` (as in T2)
    == != < > <= >=                          on two integers
    ! && ||                                  on bool (right operand effect-free)
    size_of::<T>() == 0  /  != 0             the parameter `zst` / its negation
    self.size() / self.data.len()            data.size   (`fn size` must be `self.data.len()` in the source)
    self.data.as_mut_ptr()                   the buffer pointer (offset 0)
    p.add(n)                                 on the buffer pointer: offset n
    vec![false; n] / vec![true; n]           Array.replicate n b
    v.get_unchecked_mut(i)                   `vecRefUncheckedMut` (UB outside the vector): a reference
    *r                                       `refRead`
    unsafe { EXPR }                          transparent
    AxisIndex::from_flattened(k, s)          T2's Gen.AxisIndex.from_flattened
    i.to_flattened(s)                        T2's Gen.AxisIndex.to_flattened
    i.swap()                                 on a temporary: T2's Gen.AxisIndex.swap
"""
import re, sys, os, json
sys.path.insert(0, os.path.dirname(os.path.abspath(__file__)))
from t2 import lex, find_fn, P, Untranslatable, strip_rust_comments

LEAN_NAME = "Matrix.transpose"
USIZE, BOOL, SHAPE, AINDEX, PTR, VEC = "usize", "bool", "AxisShape", "AxisIndex", "ptr", "vec"
LEAN_OF = {USIZE: "Nat", BOOL: "Bool", SHAPE: "AxisShape", AINDEX: "AxisIndex"}
ANNOT = {"usize": USIZE, "bool": BOOL, "AxisShape": SHAPE, "AxisIndex": AINDEX}

# identifiers of the emitted code that a Rust local must not capture (such a local gets a prime)
RESERVED = set("""data self_ zst fuel_ r_ s_ at from end fun have show then open in do let if else match with by
 where def theorem namespace section variable universe import instance structure class deriving macro syntax
 notation set_option mutual private protected partial unsafe noncomputable for return calc using exact Type Prop
 Sort pure bind decide uadd usub umul udiv urem ptrSwap loopFuel LoopStep vecRefUncheckedMut refRead refWrite Array
 List Nat Bool M Hdr AxisShape AxisIndex Matreex Gen Except Fault true false not and or fun λ""".split())


def lean_local(name):
    return name + "'" if name in RESERVED or re.fullmatch(r"t\d+", name) else name


# ------------------------------------------------------------------ parser
class T(P):
    """statement-level parser; expressions are T2's, except that a dereference is kept, a borrow is
    refused, and `unsafe { e }` / `vec![b; n]` are expressions"""

    def unary(self, nostruct):
        if self.at("*"):
            self.next(); return ("deref", self.unary(nostruct))
        if self.at("&"): raise Untranslatable("borrow expression")
        if self.at("-"): raise Untranslatable("unary minus")
        return super().unary(nostruct)

    def atom(self, nostruct):
        k, v = self.peek()
        if v == "unsafe" and self.peek(1)[1] == "{":
            self.next(); self.eat("{"); e = self.expr()
            if not self.at("}"): raise Untranslatable("`unsafe { … }` as a value with statements inside")
            self.eat("}"); return e
        if v == "vec" and self.peek(1)[1] == "!":
            self.next(); self.next(); self.eat("["); init = self.expr(); self.eat(";"); n = self.expr(); self.eat("]")
            return ("vecrep", init, n)
        if v in ("if", "match", "{", "loop", "while", "for"): raise Untranslatable(f"`{v}` as a value")
        if k == "num" and self.peek(1)[0] == "id" and re.fullmatch(r"[iuxob]\w*", self.peek(1)[1]):
            raise Untranslatable("integer literal with a suffix / radix")
        return super().atom(nostruct)

    def header(self):
        """`fn transpose(&mut self) -> &mut Self`"""
        want = ["fn", "transpose", "(", "&", "mut", "self", ")", "->", "&", "mut", "Self"]
        got = []
        while not self.at("{") and self.peek()[0] != "eof":
            got.append(self.next()[1])
        if got != want: raise Untranslatable("signature is not `fn transpose(&mut self) -> &mut Self`")

    def block(self):
        self.eat("{"); sts = []
        while not self.at("}"):
            sts.append(self.stmt())
        self.eat("}")
        return sts

    def stmt(self):
        k, v = self.peek()
        if k == "eof": raise Untranslatable("unexpected end of the function")
        if v == "unsafe" and self.peek(1)[1] == "{":
            self.next(); return ("unsafe", self.block())
        if v == "for":
            self.next(); var = self.next()
            if var[0] != "id": raise Untranslatable("for: pattern")
            self.eat("in")
            lo = self.expr(5, True)
            if lo != ("num", 0): raise Untranslatable("for: range does not start at 0")
            self.eat("..")
            hi = self.expr(0, True)
            return ("for", var[1], hi, self.block())
        if v == "loop":
            self.next(); return ("loop", self.block())
        if v == "if":
            self.next(); c = self.expr(0, True); t = self.block(); f = None
            if self.at("else"):
                self.next()
                if self.at("if"): raise Untranslatable("else if")
                f = self.block()
            return ("if", c, t, f)
        if v == "let":
            self.next(); mut = False
            if self.at("mut"): self.next(); mut = True
            name = self.next()
            if name[0] != "id": raise Untranslatable("let: pattern")
            ann = None
            if self.at(":"):
                self.next(); ty = self.ty()
                if ty[0] != "ty" or ty[2] or ty[1] not in ANNOT: raise Untranslatable(f"let {name[1]}: type annotation")
                ann = ANNOT[ty[1]]
            self.eat("="); e = self.expr(); self.eat(";")
            return ("let", name[1], mut, e, ann)
        if v == "break":
            self.next(); self.eat(";"); return ("break",)
        if v == "return":
            self.next(); e = self.expr(); self.eat(";"); return ("return", e)
        if v in ("continue", "while", "match", "const", "static", "fn", "use", "#"):
            raise Untranslatable(f"statement `{v}`")
        e = self.expr()
        if self.at("="):
            self.next(); rhs = self.expr(); self.eat(";"); return ("assign", e, rhs)
        if self.at(";"):
            self.next(); return ("do", e)
        if self.at("}"):
            return ("tail", e)
        raise Untranslatable(f"unexpected {self.peek()[1]!r} after an expression")


# ------------------------------------------------------------------ environment
class Env:
    def __init__(self, vars=None, scopes=None):
        self.vars = dict(vars or {})          # rust name -> {"ty", "lean", "mut", ...}; insertion order = declaration order
        self.scopes = [set(s) for s in (scopes or [])]   # names declared in the open nested blocks
    def copy(self):
        return Env(self.vars, self.scopes)
    def vecs(self):
        return [n for n, d in self.vars.items() if d["ty"] == VEC]


SELF = ("path", ["self"])


def is_self(e): return e == SELF


def assigned(sts):
    """names assigned with `x = …` anywhere in the statements"""
    out = []
    for st in sts:
        k = st[0]
        if k == "assign" and st[1][0] == "path" and len(st[1][1]) == 1: out.append(st[1][1][0])
        elif k in ("unsafe", "loop"): out += assigned(st[1])
        elif k == "for": out += assigned(st[3])
        elif k == "if": out += assigned(st[2]) + assigned(st[3] or [])
    return out


def declared(sts):
    out = []
    for st in sts:
        k = st[0]
        if k == "let": out.append(st[1])
        elif k in ("unsafe", "loop"): out += declared(st[1])
        elif k == "for": out += [st[1]] + declared(st[3])
        elif k == "if": out += declared(st[2]) + declared(st[3] or [])
    return out


def has_kind(sts, kinds, into_loops=True):
    for st in sts:
        k = st[0]
        if k in kinds: return True
        if k == "unsafe" and has_kind(st[1], kinds, into_loops): return True
        if k == "loop" and into_loops and has_kind(st[1], kinds, into_loops): return True
        if k == "for" and into_loops and has_kind(st[3], kinds, into_loops): return True
        if k == "if" and (has_kind(st[2], kinds, into_loops) or has_kind(st[3] or [], kinds, into_loops)): return True
    return False


def tup(xs):
    return xs[0] if len(xs) == 1 else "(" + ", ".join(xs) + ")"


def proj(v, i, n):
    """i-th component of the right-nested n-tuple `v`"""
    if n == 1: return v
    return v + ".2" * i + (".1" if i < n - 1 else "")


# ------------------------------------------------------------------ emitter
class Ctx:
    def __init__(self, kind, carried=()):
        self.kind = kind                   # "top" | "for" | "loop"
        self.carried = list(carried)       # loop: the outer `let mut` integers the body assigns


class Emit:
    def __init__(self, size_is_len):
        self.n = 0
        self.size_is_len = size_is_len
        self.in_for = False

    def fresh(self):
        self.n += 1; return f"t{self.n}"

    # ---- expressions: returns (lean text, type); effects are appended to `lines`
    def ex(self, e, env, lines):
        k = e[0]
        if k == "num": return str(e[1]), USIZE
        if k == "path":
            p = e[1]
            if p == ["true"] or p == ["false"]: return p[0], BOOL
            if len(p) == 1 and isinstance(p[0], str):
                if p[0] == "self": raise Untranslatable("`self` as a value")
                d = env.vars.get(p[0])
                if d is None: raise Untranslatable(f"unknown local {p[0]}")
                if d["ty"] == "dead": raise Untranslatable(f"{p[0]} is assigned inside a loop and used after it")
                if d["ty"] == VEC: raise Untranslatable(f"vector {p[0]} as a value")
                return d["lean"], d["ty"]
            raise Untranslatable(f"path {'::'.join(map(str, p))}")
        if k == "field":
            if is_self(e[1]) and e[2] == "shape": return "self_.shape", SHAPE
            raise Untranslatable(f"field .{e[2]}")
        if k == "deref":
            r, t = self.ex(e[1], env, lines)
            if not (isinstance(t, tuple) and t[0] == "ref"): raise Untranslatable("dereference of something that is not a get_unchecked_mut reference")
            v = self.fresh(); lines.append(f"let {v} ← refRead {env.vars[t[1]]['lean']} {r}")
            return v, BOOL
        if k == "not":
            a, t = self.ex(e[1], env, lines)
            if t != BOOL: raise Untranslatable("`!` on a non-bool")
            return f"(!{a})", BOOL
        if k == "bin":
            op = e[1]
            if op in ("==", "!="):
                for x, y in ((e[2], e[3]), (e[3], e[2])):
                    if x[0] == "call" and x[1][0] == "size_of":
                        if not (len(x[1]) == 2 and x[1][1] == ("targs", [("ty", "T", [])]) and not x[2]):
                            raise Untranslatable("size_of of something else than T")
                        if y != ("num", 0): raise Untranslatable("size_of::<T>() compared with something else than 0")
                        return ("zst" if op == "==" else "(!zst)"), BOOL
            if op in ("&&", "||"):
                a, ta = self.ex(e[2], env, lines); rl = []; b, tb = self.ex(e[3], env, rl)
                if rl: raise Untranslatable("effectful right operand of && / ||")
                if ta != BOOL or tb != BOOL: raise Untranslatable(f"`{op}` on non-bool")
                return f"({a} {op} {b})", BOOL
            a, ta = self.ex(e[2], env, lines); b, tb = self.ex(e[3], env, lines)
            if ta != USIZE or tb != USIZE: raise Untranslatable(f"`{op}` on {ta}, {tb}")
            if op in ("+", "-", "*", "/", "%"):
                f = {"+": "uadd", "-": "usub", "*": "umul", "/": "udiv", "%": "urem"}[op]
                t = self.fresh(); lines.append(f"let {t} ← {f} {a} {b}"); return t, USIZE
            if op in ("==", "!="):
                return f"(decide ({a} {'=' if op == '==' else '≠'} {b}))", BOOL
            if op in ("<", ">", "<=", ">="):
                return f"(decide ({a} {op.replace('<=', '≤').replace('>=', '≥')} {b}))", BOOL
            raise Untranslatable(f"operator {op}")
        if k == "vecrep":
            raise Untranslatable("vec![..] outside `let v = vec![..];`")
        if k == "call":
            p = e[1]
            if p == ["AxisIndex", "from_flattened"] and len(e[2]) == 2:
                a, ta = self.ex(e[2][0], env, lines); b, tb = self.ex(e[2][1], env, lines)
                if (ta, tb) != (USIZE, SHAPE): raise Untranslatable("AxisIndex::from_flattened: argument types")
                t = self.fresh(); lines.append(f"let {t} ← Matreex.Gen.AxisIndex.from_flattened {a} {b}"); return t, AINDEX
            raise Untranslatable(f"call {'::'.join(map(str, p))}")
        if k == "mcall":
            recv, name, args = e[1], e[2], e[3]
            if is_self(recv) and name == "size" and not args:
                if not self.size_is_len: raise Untranslatable("`fn size` of the matrix is not `self.data.len()`")
                return "data.size", USIZE
            if recv == ("field", SELF, "data"):
                if name == "len" and not args: return "data.size", USIZE
                if name == "as_mut_ptr" and not args: return "0", PTR
                raise Untranslatable(f"self.data.{name}")
            if recv[0] == "path" and len(recv[1]) == 1 and env.vars.get(recv[1][0], {}).get("ty") == VEC:
                if name == "get_unchecked_mut" and len(args) == 1:
                    i, ti = self.ex(args[0], env, lines)
                    if ti != USIZE: raise Untranslatable("get_unchecked_mut: index type")
                    t = self.fresh(); lines.append(f"let {t} ← vecRefUncheckedMut {env.vars[recv[1][0]]['lean']} {i}")
                    return t, ("ref", recv[1][0])
                raise Untranslatable(f"vector method {name}")
            r, tr = self.ex(recv, env, lines)
            if name == "add" and len(args) == 1 and tr == PTR:
                if r != "0": raise Untranslatable("pointer arithmetic on a derived pointer")
                n, tn = self.ex(args[0], env, lines)
                if tn != USIZE: raise Untranslatable("add: offset type")
                return n, PTR
            if name == "to_flattened" and len(args) == 1 and tr == AINDEX:
                s, ts = self.ex(args[0], env, lines)
                if ts != SHAPE: raise Untranslatable("to_flattened: argument type")
                t = self.fresh(); lines.append(f"let {t} ← Matreex.Gen.AxisIndex.to_flattened {r} {s}"); return t, USIZE
            if name == "swap" and not args and tr == AINDEX:
                if recv[0] not in ("call", "mcall"): raise Untranslatable("`.swap()` on a place (in-place mutation of a local)")
                return f"(Matreex.Gen.AxisIndex.swap {r})", AINDEX
            raise Untranslatable(f"method {name}/{len(args)} on {tr}")
        raise Untranslatable(f"expression kind {k}")

    # ---- state tuples
    def heap(self, env):
        """(lean names, lean types) of the heap state: the buffer, then the vectors in declaration order"""
        vs = env.vecs()
        return ["data"] + [env.vars[v]["lean"] for v in vs], ["Array α"] + ["Array Bool"] * len(vs)

    def unpack(self, pad, src, names):
        return [f"{pad}let {nm} := {proj(src, i, len(names))}" for i, nm in enumerate(names)]

    # ---- statements
    def seq(self, sts, env, ind, ctx):
        """the lines of a `do` block for the statements, followed by the fall-through of `ctx`"""
        pad = "  " * ind
        out = []
        env = env.copy()
        for n, st in enumerate(sts):
            k = st[0]
            rest = sts[n + 1:]
            if k == "endscope":
                for nm in env.scopes.pop(): env.vars.pop(nm, None)
                continue
            if k == "unsafe":
                env.scopes.append(set())
                return out + self.seq(st[1] + [("endscope",)] + rest, env, ind, ctx)
            if k == "let":
                _, name, mut, e, ann = st
                if env.scopes and name in env.vars and name not in env.scopes[-1]:
                    raise Untranslatable(f"let {name}: shadows an outer local inside a nested block")
                if e[0] == "vecrep":
                    if env.scopes or ctx.kind != "top": raise Untranslatable("vec![..] inside a block or loop")
                    if name in env.vars: raise Untranslatable(f"let {name}: shadows a local with a vector")
                    if e[1] not in (("path", ["false"]), ("path", ["true"])): raise Untranslatable("vec![x; n]: x is not a bool literal")
                    lines = []; cnt, tc = self.ex(e[2], env, lines)
                    if tc != USIZE: raise Untranslatable("vec![b; n]: n is not an integer")
                    out += [pad + l for l in lines]
                    ln = lean_local(name)
                    out.append(pad + f"let {ln} := Array.replicate {cnt} {e[1][1][0]}")
                    env.vars[name] = {"ty": VEC, "lean": ln, "mut": mut}
                    continue
                if name in env.vars and env.vars[name]["ty"] == VEC: raise Untranslatable(f"let {name}: shadows a vector")
                lines = []; v, t = self.ex(e, env, lines)
                out += [pad + l for l in lines]
                if ann is not None and ann != t: raise Untranslatable(f"let {name}: annotation does not fit")
                ln = lean_local(name)
                if t == PTR:
                    if mut: raise Untranslatable("let mut of a pointer")
                    if v == "0": env.vars.pop(name, None); env.vars[name] = {"ty": PTR, "lean": "0", "mut": False}
                    else:
                        out.append(pad + f"let {ln} := {v}")
                        env.vars.pop(name, None); env.vars[name] = {"ty": PTR, "lean": ln, "mut": False}
                elif isinstance(t, tuple):        # a reference: the temporary holding the offset is the local
                    if mut: raise Untranslatable("let mut of a reference")
                    out.append(pad + f"let {ln} := {v}")
                    env.vars.pop(name, None); env.vars[name] = {"ty": t, "lean": ln, "mut": False}
                else:
                    out.append(pad + f"let {ln} := {v}")
                    env.vars.pop(name, None); env.vars[name] = {"ty": t, "lean": ln, "mut": mut}
                if env.scopes: env.scopes[-1].add(name)
                continue
            if k == "assign":
                lhs, rhs = st[1], st[2]
                if lhs[0] == "deref":
                    lines = []; r, t = self.ex(lhs[1], env, lines)
                    if not (isinstance(t, tuple) and t[0] == "ref"): raise Untranslatable("write through something that is not a get_unchecked_mut reference")
                    v, tv = self.ex(rhs, env, lines)
                    if tv != BOOL: raise Untranslatable("write of a non-bool through a reference")
                    out += [pad + l for l in lines]
                    vl = env.vars[t[1]]["lean"]
                    out.append(pad + f"let {vl} ← refWrite {vl} {r} {v}")
                    continue
                if lhs[0] == "path" and len(lhs[1]) == 1 and lhs[1][0] in env.vars:
                    d = env.vars[lhs[1][0]]
                    if not d["mut"] or d["ty"] != USIZE: raise Untranslatable(f"assignment to {lhs[1][0]} (not a `let mut` integer)")
                    lines = []; v, tv = self.ex(rhs, env, lines)
                    if tv != USIZE: raise Untranslatable(f"assignment to {lhs[1][0]}: type")
                    out += [pad + l for l in lines]
                    out.append(pad + f"let {d['lean']} := {v}")
                    continue
                raise Untranslatable("assignment target")
            if k == "do":
                e = st[1]
                if e == ("mcall", ("field", SELF, "shape"), "transpose", []):
                    out.append(pad + "let self_ := { self_ with shape := Matreex.Gen.AxisShape.transpose self_.shape }")
                    continue
                if e[0] == "call" and e[1] == ["ptr", "swap"] and len(e[2]) == 2:
                    lines = []
                    (x, tx), (y, ty) = (self.ex(a, env, lines) for a in e[2])
                    if tx != PTR or ty != PTR: raise Untranslatable("ptr::swap: argument is not a pointer into the buffer")
                    out += [pad + l for l in lines]
                    out.append(pad + f"let data ← ptrSwap data {x} {y}")
                    continue
                raise Untranslatable(f"statement {e[0]} {e[2] if e[0] == 'mcall' else e[1] if len(e) > 1 else ''}")
            if k == "if":
                _, c, t, f = st
                t_ret = bool(t) and t[-1][0] == "return"
                t_brk = bool(t) and t[-1][0] == "break"
                f_brk = bool(f) and f[-1][0] == "break"
                lines = []; cv, tc = self.ex(c, env, lines)
                if tc != BOOL: raise Untranslatable("if: condition is not a bool")
                out += [pad + l for l in lines]
                if t_ret:
                    if ctx.kind != "top" or env.scopes or f is not None:
                        raise Untranslatable("early return: only `if c { …; return self; }` at the top level of the function")
                    then_env = env.copy(); then_env.scopes.append(set())
                    else_lines = self.seq(rest, env, ind + 1, ctx)
                    then_lines = self.seq(t, then_env, ind + 2, ctx)
                elif ctx.kind == "loop" and (t_brk or f_brk):
                    if t_brk and f_brk and rest and any(s[0] != "endscope" for s in rest):
                        raise Untranslatable("statements after an if whose branches both break")
                    e1 = env.copy(); e1.scopes.append(set()); e2 = env.copy(); e2.scopes.append(set())
                    then_lines = self.seq(t if t_brk else t + [("endscope",)] + rest, e1, ind + 2, ctx)
                    ff = f or []
                    else_lines = self.seq(ff if f_brk else ff + [("endscope",)] + rest, e2, ind + 1, ctx)
                else:
                    raise Untranslatable("if statement without `return self;` (top level) or `break;` (loop) at the end of a branch")
                return out + [pad + f"if {cv} then do"] + then_lines + [pad + "else do"] + else_lines
            if k == "break":
                if ctx.kind != "loop": raise Untranslatable("break outside a loop")
                if any(s[0] != "endscope" for s in rest): raise Untranslatable("statements after break")
                hn, _ = self.heap(env)
                return out + [pad + f"pure (LoopStep.done {tup(hn)})"]
            if k in ("return", "tail"):
                if ctx.kind != "top" or not is_self(st[1]): raise Untranslatable("result is not `self` at the top level of the function")
                if k == "tail" and (rest or env.scopes): raise Untranslatable("tail expression inside a block")
                if any(s[0] != "endscope" for s in rest): raise Untranslatable("statements after return")
                return out + [pad + "pure (self_, data)"]
            if k == "for":
                _, var, hi, body = st
                if ctx.kind != "top" or env.scopes: raise Untranslatable("for loop not at the top level of the function")
                if has_kind(body, ("break",), False) or has_kind(body, ("return", "tail", "for")): raise Untranslatable("break / return / nested for inside a for body")
                outer = [x for x in assigned(body) if x in env.vars and x not in declared(body)]
                both = [x for x in assigned(body) if x in env.vars and x in declared(body)]
                if outer: raise Untranslatable(f"for body assigns the outer local {outer[0]}")
                if both: raise Untranslatable(f"for body assigns {both[0]}, which names both an outer and an inner local")
                lines = []; h, th = self.ex(hi, env, lines)
                if th != USIZE: raise Untranslatable("for: bound is not an integer")
                out += [pad + l for l in lines]
                hn, ht = self.heap(env)
                benv = env.copy(); benv.scopes.append(set())
                benv.vars.pop(var, None); benv.vars[var] = {"ty": USIZE, "lean": lean_local(var), "mut": False}
                benv.scopes[-1].add(var)
                out.append(pad + f"let r_ ← (List.range {h}).foldlM (fun (r_ : {' × '.join(ht)}) ({lean_local(var)} : Nat) => do")
                out += self.unpack(pad + "    ", "r_", hn)
                body_lines = self.seq(body, benv, ind + 2, Ctx("for"))
                body_lines[-1] += f") {tup(hn)}"
                out += body_lines
                out += self.unpack(pad, "r_", hn)
                continue
            if k == "loop":
                body = st[1]
                if ctx.kind == "loop": raise Untranslatable("nested loop")
                if has_kind(body, ("return", "tail", "for", "loop")): raise Untranslatable("return / for / loop inside a loop body")
                if not has_kind(body, ("break",), False): raise Untranslatable("loop without break")
                inner = declared(body)
                carried = []
                for x in assigned(body):
                    if x in env.vars and x in inner: raise Untranslatable(f"loop body assigns {x}, which names both an outer and an inner local")
                    if x in env.vars and x not in carried: carried.append(x)
                carried = [x for x in env.vars if x in carried]       # declaration order
                for x in carried:
                    d = env.vars[x]
                    if not d["mut"] or d["ty"] != USIZE: raise Untranslatable(f"assignment to {x} (not a `let mut` integer)")
                hn, ht = self.heap(env)
                sn = [env.vars[x]["lean"] for x in carried] + hn
                sty = ["Nat"] * len(carried) + ht
                benv = env.copy(); benv.scopes.append(set())
                out.append(pad + f"let r_ ← loopFuel (ρ := {' × '.join(ht)}) (fun (s_ : {' × '.join(sty)}) => do")
                out += self.unpack(pad + "    ", "s_", sn)
                body_lines = self.seq(body, benv, ind + 2, Ctx("loop", carried))
                body_lines[-1] += f") fuel_ {tup(sn)}"
                out += body_lines
                out += self.unpack(pad, "r_", hn)
                for x in carried:
                    env.vars[x] = {"ty": "dead", "lean": env.vars[x]["lean"], "mut": False}
                continue
            raise Untranslatable(f"statement kind {k}")
        # fall-through
        if ctx.kind == "top": raise Untranslatable("the function does not end in `self`")
        hn, _ = self.heap(env)
        if ctx.kind == "for":
            return out + [pad + f"pure {tup(hn)}"]
        sn = [env.vars[x]["lean"] for x in ctx.carried] + hn
        return out + [pad + f"pure (LoopStep.next {tup(sn)})"]


def size_is_len(src):
    try:
        text = find_fn(src, r"impl<T> Matrix<T>\s*\{", "size")
    except Untranslatable:
        return False
    return re.sub(r"\s+", " ", text).strip() == "fn size(&self) -> usize { self.data.len() }"


SIG = f"def {LEAN_NAME} {{α : Type}} (zst : Bool) (self_ : Hdr) (data : Array α) :\n    M (Hdr × Array α) :="


def translate_transpose(src):
    text = find_fn(src, r"impl<T> Matrix<T>\s*\{", "transpose")
    p = T(lex(text)); p.header()
    body = p.block()
    if p.peek()[0] != "eof": raise Untranslatable("text after the function body")
    em = Emit(size_is_len(src))
    lines = em.seq(body, Env(), 1, Ctx("top"))
    return SIG + " do\n  let fuel_ := data.size + 1\n" + "\n".join(lines) + "\n"


HEADER = """/-
GENERATED by translate/t5.py from /repo/src/lib.rs (`Matrix::transpose`) on every run — do not edit.
The function on the header and the element array: `self_` is (order, axis shape), `data` the buffer,
pointers are offsets from its start, `ptr::swap` is the partial primitive of Model/Mem.lean, the
`visited` vector is read and written through the partial primitives of Model/LoopPrims.lean
(undefined behaviour is a fault), `zst` is `size_of::<T>() == 0`.  `loop { … }` is `loopFuel` with
fuel `data.size + 1`; `for i in 0..n` is a fold over `List.range n`.  The result is
(header after the call, buffer after the call).
-/
import Matreex.Gen.Core
import Matreex.Gen.Simple
import Matreex.Model.Mem
import Matreex.Model.LoopPrims

set_option linter.unusedVariables false

namespace Matreex.Gen
open Matreex

"""

STUB = SIG + " .error (.panic \"untranslatable\")\n"


def run_transpose(root):
    done, failed = [], []
    try:
        src = strip_rust_comments(open(f"{root}/lib.rs").read())
        body = translate_transpose(src)
        done.append(LEAN_NAME)
    except Untranslatable as ex:
        failed.append((LEAN_NAME, str(ex))); body = STUB
    except Exception as ex:      # a malformed function must not stop the pipeline: report it, emit the stub
        failed.append((LEAN_NAME, f"not parsed ({type(ex).__name__}: {ex})")); body = STUB
    return HEADER + body + "\nend Matreex.Gen\n", done, failed


if __name__ == "__main__":
    root = sys.argv[1] if len(sys.argv) > 1 else "/repo/src"
    text, done, failed = run_transpose(root)
    if len(sys.argv) > 2:
        open(sys.argv[2], "w").write(text)
    else:
        print(text)
    print(json.dumps({"translated": done, "untranslated": failed}, indent=1), file=sys.stderr)
