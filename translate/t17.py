#!/usr/bin/env python3
"""Translator T17 ("small public functions"): the remaining small public functions of src/lib.rs, src/iter.rs,
src/construct.rs, src/arithmetic.rs and the named elementwise methods / delegating operator impls of
src/arithmetic/{add,sub,mul,div,rem}.rs -> Lean 4 functions (`Gen/T17Gen.lean`), regenerated on every run.

What is generated (namespace Matreex.Gen; a matrix is its header `self_ : Hdr` and its buffer `self_data : Array α`)
    lib.rs         Matrix.switch_order | switch_order_without_rearrangement | set_order | set_order_without_rearrangement
                       (zst : Bool) (self_) (self_data) [(order : Order)] : M (Hdr × Array α)      the state after the call
                   Matrix.contains (eqα : α → α → Bool) (self_) (self_data) (value : α) : M Bool
                   Matrix.shape (self_) : M Shape                                 (helper of `is_square`)
                   (`capacity` is NOT translated: the capacity of the vector is not part of the model's state)
    iter.rs        Matrix.iter_rows_mut | iter_cols_mut (cfg : IterMut.Cfg) (self_) : M IterMut.Vecs
    construct.rs   Matrix.with_capacity (es capacity : Nat) : M (Matrix α);   Matrix.default : M (Matrix α)
    arithmetic.rs  Matrix.is_square (self_) : M Bool;   Matrix.ensure_square (self_) : M (Except Error Hdr)
    arithmetic/M.rs   Matrix.elementwise_M | elementwise_M_consume_self (ops : PrimOps L R U) (cloneL) (cloneR) (es_L es_R es_U)
                       (self_) (self_data) (rhs) (rhs_data) : M (Except Error (Matrix U))
                   Matrix.elementwise_M_assign (aops : PrimAssignOps L R) … : M (Except Error Unit × Matrix L)
    add.rs, sub.rs Matrix.M_own_own | M_own_ref | M_ref_own | M_ref_ref : M (Matrix U)   (`impl M<[&]Matrix<R>> for [&]Matrix<L>`)
                   Matrix.M_assign_own | M_assign_ref : M (Matrix L)                      (`impl MAssign<[&]Matrix<R>> for Matrix<L>`)
                   (the `Mul` impls of mul.rs delegate to `multiply`, which consumes and re-orders its operands: not translated)
`ops.add … ops.rem : L → R → U` are the element types' primitive operators (`L: Add<R, Output = U>` …), `aops.x_assign :
L → R → L` the new value of the left operand of a compound assignment, `cloneL` / `cloneR` the `Clone::clone` of the two
element types (effect-free functions, as everywhere in the model).

Accepted statement language (anything else raises `Untranslatable`, is reported in the JSON summary, and the function
becomes a faulting stub of the expected type so that the file compiles and the bridge fails):
    fn       ::= fn NAME [<G, ..>] ( [& [mut]] self [, p: TYPE]* | [p: TYPE]* ) [-> TYPE] [where ..] block
    block    ::= { stmt* [tail] }
    stmt     ::= let x = EXPR;   |   EXPR;   |   *self OP= EXPR [;]   |   return [EXPR];
               | if COND block [else block | else if ..]           (statement; a branch may end in `return E;`:
                                                                    `if c { ..; return E; } rest` = `if c { ..; E } else { rest }`)
               | if let Err(x) = EXPR block                        (EXPR a `Result` of the vocabulary)
    tail     ::= EXPR | if COND block else block
               | match ORDER { Order::RowMajor => E, Order::ColMajor => E }      (both variants, each once, any sequence)
               | match RESULT { Err(x) => E, Ok(y) => E }                        (both variants, each once, any sequence)
    EXPR     ::= integers, locals, parameters, true, false, usize::MAX, Order::RowMajor / ColMajor, self.order, self.shape,
                 + - * / % (checked), == != (same type; usize, bool, Order, Shape, AxisShape), < > <= >=, ! && ||,
                 Ok(self), Err(Error::X), Self { order: E, shape: E, data: VEC }, the vocabulary below,
                 closures `|a, b| E` / `|a, b| *a OP= E` only as the last argument of a generic elementwise operation.
A checker assigns a type to every expression (usize | bool | Order | Shape | AxisShape | &Self | Result<..> | Self | the
iterator | the matrices of element types L, R, U); an operation on the wrong type is untranslatable, never coerced.
Locals and parameters keep their Rust names (Lean keywords are quoted; a name the generated code binds itself is
untranslatable).

Mapped by name (crate / std vocabulary -> GENERATED functions of the other translators or primitives of the hand-written
model; the arguments always come from the text):
    self.transpose();                              T5's `Gen.Matrix.transpose zst self_ self_data` (Gen/TransposeGen.lean); the state is replaced
    self.order.switch();                           T2's `Gen.Order.switch` (Gen/Simple.lean) on the order field
    self.switch_order(); / self.switch_order_without_rearrangement(); / self.set_order(o); / self.set_order_without_rearrangement(o);
                                                   T17's own generated functions
    self.order()                                   T2's `Gen.Matrix.order`
    self.shape() / self.is_square()                T17's own `Gen.Matrix.shape` / `Gen.Matrix.is_square`
    self.nrows() / self.ncols()                    T2's `Gen.Matrix.nrows` / `ncols` (Gen/Core.lean)
    S.nrows() / S.ncols()          S : Shape       T2's `Gen.Shape.nrows` / `ncols` (Gen/Simple.lean)
    A.major() / A.minor()          A : AxisShape   the fields (delegation recorded in Gen/Simple.lean)
    A.nrows(o) / A.ncols(o) / A.to_shape(o)        T2's `Gen.AxisShape.nrows` / `ncols` / `to_shape`
    self.data.contains(v)          v : &T          `vecContains eqα self_data v` (Model/Small.lean: `<[T]>::contains`, element on the left of `==`)
    self.data.iter().any(|e| a == b)               `self_data.toList.any (fun e => eqα a b)`   (a, b among e, v; `*` / `&` transparent)
    IterVectorsMut::over_major_axis(self) / over_minor_axis(self)
                                                   T4's `Gen.IterMut.Vecs.overMajor cfg self_.shape` / `overMinor` (Gen/IterMutGen.lean)
    Self::new() / Matrix::new()                    T13's `Gen.Matrix.new` (Gen/T13Gen.lean)
    Order::default()                               the `#[default]` variant of `enum Order`, read from src/order.rs (as T8)
    AxisShape::default()                           the zero shape, while `AxisShape` derives `Default` over usize fields (as T14)
    Vec::new()                                     `#[]`
    Vec::with_capacity(n)                          `Vec.reserveExact es n` (Model/Construct.lean: the capacity-overflow panic), then `#[]`
    self.elementwise_operation(rhs, C) / _consume_self / _assign
                                                   T9's generated generic operations (Gen/T9Gen.lean) with the closure C
    x.clone()                     x : L | R        `cloneL x` / `cloneR x`
    a OP b   a : L, b : R  (closure body)          `ops.add a b` … `ops.rem a b`;     `*a OP= b`:  `aops.add_assign a b` …
    self.elementwise_M(rhs) / _consume_self / _assign       T17's own generated named methods
    self OP &rhs   /   *self OP= &rhs              T17's generated impl of the same operator for (self's form, borrowed rhs):
                                                   trait resolution on the receiver's form (`self` in `impl .. for Matrix<L>` is owned,
                                                   in `impl .. for &Matrix<L>` borrowed) and the operand's (`&rhs`)
    panic!("{e}") / panic!("{}", e)   e : Error    the fault `panic (Error.name e)` (as T11)
"""
import re, sys, os
sys.path.insert(0, os.path.dirname(os.path.abspath(__file__)))
from t2 import lex, P, Untranslatable, strip_rust_comments
from t6 import lean_id as quote_kw

USIZE, BOOL, ORDER, SHAPE, ASHAPE = "usize", "bool", "Order", "Shape", "AxisShape"
SELFREF, SELFVAL, VECS, NEVER, UNIT = "&Self", "Self", "IterVectorsMut", "!", "()"
SCALARS = (USIZE, BOOL, ORDER, SHAPE, ASHAPE)
RESERVED = set("""self_ self_data st_ r_ zst cfg es eqα ops aops cloneL cloneR es_L es_R es_U α L R U pure bind decide
 uadd usub umul udiv urem min max fun do let if then else match with M Nat List Array Hdr AxisShape Shape Order Error
 Except Matrix Vec Vecs Cfg vecContains usizeMax isizeMax true false Unit Fault PrimOps PrimAssignOps""".split())
OPNAME = {"+": "add", "-": "sub", "*": "mul", "/": "div", "%": "rem"}


def ident(name, what="name"):
    if name in RESERVED or re.fullmatch(r"t\d+", name) or name.endswith("_data"):
        raise Untranslatable(f"{what} `{name}` collides with a name of the generated code")
    return quote_kw(name)


def demacro(text):
    text = re.sub(r'panic!\(\s*"\{(\w+)\}"\s*\)', r"__panic_display(\1)", text)
    return re.sub(r'panic!\(\s*"\{\}"\s*,', r"__panic_display(", text)


def drop_attrs_lifetimes(toks):
    out, i = [], 0
    while i < len(toks):
        if toks[i] == ("op", "'") and i + 1 < len(toks) and toks[i + 1][0] == "id":
            i += 2; continue
        out.append(toks[i]); i += 1
    return out


# ------------------------------------------------------------------ items
def cut_tests(src):
    i = src.find("#[cfg(test)]")
    return src if i < 0 else src[:i]


def block_at(src, i):
    """end of the `{ … }` block opening at src[i]"""
    depth, j = 1, i + 1
    while depth:
        if j >= len(src): raise Untranslatable("unbalanced braces")
        depth += (src[j] == "{") - (src[j] == "}")
        j += 1
    return j


def impl_blocks(src, rx):
    """the bodies of all `impl` blocks whose header (from `impl` to `{`) matches rx completely, whitespace removed"""
    out = []
    for m in re.finditer(r"\bimpl\b", src):
        try:
            i = src.index("{", m.start())
        except ValueError:
            continue
        head = re.sub(r"\s+", "", re.sub(r"\bwhere\b.*", "", src[m.start():i], flags=re.S))
        if re.fullmatch(rx, head):
            out.append(src[i:block_at(src, i)])
    return out


def fn_in(blocks, name, what):
    """text of the single `fn name` directly inside one of the blocks"""
    found = []
    rx = re.compile(r"\bfn\s+" + re.escape(name) + r"\s*(<[^>]*>)?\s*\(")
    for b in blocks:
        depth, i = 0, 0
        while i < len(b):
            ch = b[i]
            if ch == "{": depth += 1
            elif ch == "}": depth -= 1
            elif depth == 1 and ch == "f" and (i == 0 or not (b[i - 1].isalnum() or b[i - 1] == "_")):
                m = rx.match(b, i)
                if m:
                    j = b.index("{", m.end())
                    k = block_at(b, j)
                    found.append(b[m.start():k]); i = k; continue
            i += 1
    if not found: raise Untranslatable(f"fn {name} not found in {what}")
    if len(found) > 1: raise Untranslatable(f"{len(found)} functions named {name} in {what}")
    return found[0]


# ------------------------------------------------------------------ parser
class S17(P):
    """T2's expressions (with `&` / `*` kept as nodes, closures in argument lists, `match` with binder patterns) and a
    statement-level block parser"""

    # ---- types
    def pty(self):
        if self.at("&"):
            self.next()
            if self.at("mut"):
                self.next(); return ("mutref", self.pty())
            return ("ref", self.pty())
        if self.at("impl"):
            depth = 0
            while True:
                k, v = self.peek()
                if k == "eof" or v in (";", ")"): raise Untranslatable("`impl Trait` type")
                if v == "<": depth += 1
                elif v == ">": depth -= 1
                elif v in ("{", "where") and depth == 0: break
                self.next()
            return ("impl",)
        k, name = self.next()
        if k != "id": raise Untranslatable(f"type: unexpected {name!r}")
        while self.at("::"):
            self.next(); name += "::" + self.next()[1]
        args = []
        if self.at("<"):
            self.next()
            while not self.at(">"):
                args.append(self.pty())
                if self.at(","): self.next()
            self.eat(">")
        return ("ty", name, args)

    def header(self):
        self.eat("fn"); name = self.next()[1]
        generics = []
        if self.at("<"):
            self.next()
            while not self.at(">"):
                k, v = self.next()
                if v == ",": continue
                if k != "id" or self.at(":"): raise Untranslatable("generic parameter list")
                generics.append(v)
            self.eat(">")
        self.eat("(")
        recv = None
        if self.at("&"):
            self.next(); recv = "ref"
            if self.at("mut"):
                self.next(); recv = "mut"
            self.eat("self")
        elif self.at("self"):
            self.next(); recv = "own"
        elif self.at("mut") and self.peek(1)[1] == "self":
            self.next(); self.next(); recv = "own"
        params = []
        first = recv is None
        while not self.at(")"):
            if not first: self.eat(",")
            if self.at(")"): break
            first = False
            if self.at("mut"): self.next()
            k, pn = self.next()
            if k != "id": raise Untranslatable(f"parameter name {pn!r}")
            self.eat(":"); params.append((pn, self.pty()))
        self.eat(")")
        ret = None
        if self.at("->"):
            self.next(); ret = self.pty()
        if self.at("where"):
            while not self.at("{"):
                if self.peek()[0] == "eof": raise Untranslatable("where clause")
                self.next()
        body = self.sblock()
        if self.peek()[0] != "eof": raise Untranslatable("text after the function body")
        return {"name": name, "generics": generics, "recv": recv, "params": params, "ret": ret, "body": body}

    # ---- statements
    def block(self):
        return ("block", self.sblock())

    def sblock(self):
        self.eat("{"); out = []
        while not self.at("}"):
            if self.peek()[0] == "eof": raise Untranslatable("unterminated block")
            if out and out[-1][0] == "tail": raise Untranslatable("expression followed by more code")
            out.append(self.stmt())
        self.eat("}")
        return out

    def compound_ahead(self):
        """`[*] IDENT OP =` at the cursor"""
        j = self.i
        if self.t[j][1] == "*": j += 1
        return (j + 2 < len(self.t) and self.t[j][0] == "id" and self.t[j + 1] in [("op", o) for o in OPNAME]
                and self.t[j + 2] == ("op", "="))

    def compound(self):
        deref = False
        if self.at("*"):
            self.next(); deref = True
        target = self.next()[1]; op = self.next()[1]; self.eat("=")
        return ("cassign", target, deref, op, self.expr())

    def stmt(self):
        v = self.peek()[1]
        if v in ("while", "loop", "for", "break", "continue", "const", "static", "fn", "#", "unsafe", "use", "struct", "impl"):
            raise Untranslatable(f"`{v}` statement")
        if v == "return":
            self.next()
            e = None if self.at(";") or self.at("}") else self.expr()
            if self.at(";"): self.next()
            if not self.at("}"): raise Untranslatable("code after return")
            return ("return", e)
        if v == "let":
            self.next()
            if self.at("mut"): raise Untranslatable("let mut")
            k, name = self.next()
            if k != "id" or self.at("(") or self.at("{") or self.at("::"): raise Untranslatable("let with a pattern")
            if self.at(":"): raise Untranslatable("let with a type annotation")
            self.eat("="); e = self.expr(); self.eat(";")
            return ("let", name, e)
        if v == "if":
            e = self.if_()
            if self.at(";"):
                self.next(); return e
            if self.at("}") and e[0] == "if" and e[3] is not None:
                return ("tail", ("ifx", e[1], e[2], e[3]))
            return e
        if self.compound_ahead():
            e = self.compound()
            if self.at(";"): self.next()
            elif not self.at("}"): raise Untranslatable("compound assignment followed by more code without `;`")
            return e
        e = self.expr()
        if self.at(";"):
            self.next(); return ("do", e)
        if self.at("="): raise Untranslatable("assignment statement")
        if not self.at("}"): raise Untranslatable(f"unexpected {self.peek()[1]!r} after an expression")
        return ("tail", e)

    def if_(self):
        """("if", cond, then statements, else statements | None)  |  ("iflet", ctor, binder, expr, then, else | None)"""
        self.eat("if")
        if self.at("let"):
            self.next(); ctor = self.next()[1]
            if ctor not in ("Err", "Ok"): raise Untranslatable("`if let` with a pattern other than Err(x) / Ok(x)")
            self.eat("("); k, b = self.next(); self.eat(")")
            if k != "id": raise Untranslatable("`if let` binder")
            self.eat("="); e = self.expr(0, True); t = self.sblock(); f = None
            if self.at("else"): raise Untranslatable("`if let … else`")
            return ("iflet", ctor, b, e, t, f)
        c = self.expr(0, True); t = self.sblock(); f = None
        if self.at("else"):
            self.next()
            f = [self.stmt_from_if()] if self.at("if") else self.sblock()
        return ("if", c, t, f)

    def stmt_from_if(self):
        e = self.if_()
        if e[0] == "if" and e[3] is not None: return ("tail", ("ifx", e[1], e[2], e[3]))
        return e

    # ---- expressions
    def unary(self, nostruct):
        if self.at("&"):
            self.next()
            if self.at("mut"): self.next()
            return ("ref", self.unary(nostruct))
        if self.at("*"):
            self.next(); return ("deref", self.unary(nostruct))
        return super().unary(nostruct)

    def args(self):
        self.eat("("); xs = []
        while not self.at(")"):
            if self.at("|"): xs.append(self.closure())
            elif self.at("move") or self.at("||"): raise Untranslatable("closure form")
            else: xs.append(self.expr())
            if self.at(","): self.next()
            elif not self.at(")"): raise Untranslatable(f"argument list: unexpected {self.peek()[1]!r}")
        self.eat(")"); return xs

    def closure(self):
        self.eat("|"); ps = []
        while not self.at("|"):
            k, v = self.next()
            if k != "id" or v == "mut": raise Untranslatable("closure parameter pattern")
            ps.append(v)
            if self.at(":"): raise Untranslatable("typed closure parameter")
            if self.at(","): self.next()
        self.eat("|")
        if self.at("{"):
            self.next()
            body = self.compound() if self.compound_ahead() else self.expr()
            if self.at(";"): self.next()
            self.eat("}")
        else:
            body = self.compound() if self.compound_ahead() else self.expr()
        return ("closure", ps, body)

    def atom(self, nostruct):
        v = self.peek()[1]
        if v in ("|", "||", "move"): raise Untranslatable("closure outside an argument list")
        if v in ("unsafe", "loop", "while", "for", ".."): raise Untranslatable(f"`{v}` expression")
        if v == "if":
            e = self.if_()
            if e[0] != "if" or e[3] is None: raise Untranslatable("`if` expression without `else`")
            return ("ifx", e[1], e[2], e[3])
        if v == "match":
            self.next(); scrut = self.expr(0, True); self.eat("{"); arms = []
            while not self.at("}"):
                path = [self.next()[1]]
                while self.at("::"):
                    self.next(); path.append(self.next()[1])
                binder = None
                if self.at("("):
                    self.next(); k, binder = self.next(); self.eat(")")
                    if k != "id": raise Untranslatable("match arm: binder pattern")
                if self.at("if") or self.at("|"): raise Untranslatable("match arm: guard / alternative")
                self.eat("=>")
                body = self.sblock() if self.at("{") else [("tail", self.expr())]
                arms.append((path, binder, body))
                if self.at(","): self.next()
            self.eat("}")
            return ("match", scrut, arms)
        if v == "{":
            return ("blockx", self.sblock())
        return super().atom(nostruct)

# ------------------------------------------------------------------ normalisation of early returns
def ends_in_return(sts):
    return bool(sts) and sts[-1][0] == "return"


def normalize(sts):
    """`if c { ..; return E; } rest`  ->  tail `if c { ..; E } else { rest }` (and the mirror image); a final
    `return E;` is the block's value"""
    out = []
    for i, st in enumerate(sts):
        if st[0] == "if" and (ends_in_return(st[2]) or (st[3] is not None and ends_in_return(st[3]))):
            rest = sts[i + 1:]
            t, f = st[2], (st[3] or [])
            for branch in (t, f):
                if not ends_in_return(branch) and rest and any(s[0] == "let" for s in branch):
                    raise Untranslatable("`let` in a branch that falls through to the code after an early return")
            t2 = t if ends_in_return(t) else t + rest
            f2 = f if ends_in_return(f) else f + rest
            return out + [("tail", ("ifx", st[1], normalize(t2), normalize(f2)))]
        if st[0] == "return":
            if i != len(sts) - 1: raise Untranslatable("code after return")
            return out + ([("tail", st[1])] if st[1] is not None else [])
        if st[0] == "if":
            st = ("if", st[1], normalize(st[2]), None if st[3] is None else normalize(st[3]))
        elif st[0] == "iflet":
            st = ("iflet", st[1], st[2], st[3], normalize(st[4]), st[5])
        out.append(st)
    return out


ERRORS = ("SizeOverflow", "SizeMismatch", "CapacityOverflow", "LengthInconsistent", "IndexOutOfBounds",
          "SquareMatrixRequired", "ShapeNotConformable")
MODULES = {"add": "+", "sub": "-", "mul": "*", "div": "/", "rem": "%"}
GENERIC = {"elementwise_operation": ("any", False), "elementwise_operation_consume_self": ("own", False),
           "elementwise_operation_assign": ("mut", True)}
STATE_CALLS = {"switch_order": 0, "switch_order_without_rearrangement": 0, "set_order": 1, "set_order_without_rearrangement": 1}


def is_self(e):
    return e == ("path", ["self"])


def strip_ref(e):
    while e[0] in ("ref", "deref"): e = e[1]
    return e


# ------------------------------------------------------------------ emitter
class Em:
    """one function.  cfg keys: elem (Lean name of self's element type, or None: header only), stateful, data (the
    buffer is in scope), ret (the expected result type), iter (cfg in scope), ctor_es (es in scope), self_form
    (own | ref | mut: what `self` is, for the elementwise family), fam (elementwise family: L R U in scope),
    me (Lean name of this function), default_order, axis_default_ok"""

    def __init__(self, ast, cfg):
        self.ast, self.c = ast, cfg
        self.n = 0
        self.scope = [{}]
        self.params = []
        for pn, pt in ast["params"]:
            self.params.append((pn, self.param_type(pn, pt)))
            self.scope[0][pn] = self.params[-1][1]

    # ---- types of parameters
    def param_type(self, pn, pt):
        ident(pn, "parameter")
        if pt == ("ty", "usize", []): return USIZE
        if pt == ("ty", "bool", []): return BOOL
        if pt == ("ty", "Order", []): return ORDER
        if pt == ("ty", "Shape", []): return SHAPE
        if pt == ("ref", ("ty", "T", [])) and self.c.get("eq"): return "elem"
        if self.c.get("fam"):
            if pt == ("ref", ("ty", "Matrix", [("ty", "R", [])])): return ("mat", "R", "ref")
            if pt == ("ty", "Matrix", [("ty", "R", [])]): return ("mat", "R", "own")
        raise Untranslatable(f"parameter {pn}: type")

    def binders(self):
        out = []
        for pn, t in self.params:
            n = quote_kw(pn)
            if t == USIZE: out.append(f"({n} : Nat)")
            elif t == BOOL: out.append(f"({n} : Bool)")
            elif t in (ORDER, SHAPE): out.append(f"({n} : {t})")
            elif t == "elem": out.append(f"({n} : α)")
            elif isinstance(t, tuple) and t[0] == "mat": out.append(f"({n} : Hdr) ({pn}_data : Array {t[1]})")
        return out

    # ---- helpers
    def fresh(self):
        self.n += 1; return f"t{self.n}"

    def lookup(self, name):
        for s in reversed(self.scope):
            if name in s: return s[name]
        return None

    def bind(self, name, ty):
        ident(name, "local"); self.scope[-1][name] = ty

    def eff(self, lines, call, ty):
        t = self.fresh(); lines.append(f"let {t} ← {call}"); return t, ty

    def need_self(self):
        if self.ast["recv"] is None: raise Untranslatable("`self` in an associated function")

    def state(self):
        return "(self_, self_data)"

    def callee(self, name):
        """a function T17 itself generates: it must precede the caller (no recursion, no forward reference)"""
        if name == self.c["me"]: raise Untranslatable(f"{name} calls itself")
        if name not in self.c["defined"]: raise Untranslatable(f"call of {name}, which T17 generates after {self.c['me']} (mutual recursion?)")
        return "Matreex.Gen." + name

    def fam_prefix(self, assign):
        return ("aops cloneL cloneR es_L es_R" if assign else "ops cloneL cloneR es_L es_R es_U")

    def mat_arg(self, e, lines):
        """an argument that must be a matrix of element type R: (hdr, data, form)"""
        borrowed = e[0] == "ref"
        v, t = self.ex(strip_ref(e), lines)
        if not (isinstance(t, tuple) and t[0] == "mat" and t[1] == "R"): raise Untranslatable("argument: not the right-hand matrix")
        return v[0], v[1], ("ref" if borrowed else t[2])

    # ---- expressions
    def ex(self, e, lines):
        k = e[0]
        if k in ("ref", "deref"): return self.ex(e[1], lines)
        if k == "num": return str(e[1]), USIZE
        if k == "path": return self.path(e[1])
        if k == "field": return self.field(e, lines)
        if k == "not":
            a, t = self.ex(e[1], lines)
            if t != BOOL: raise Untranslatable("`!` on a non-bool")
            return f"(!{a})", BOOL
        if k == "bin": return self.bin(e, lines)
        if k == "mcall": return self.mcall(e, lines)
        if k == "call": return self.call(e, lines)
        if k == "struct": return self.struct(e, lines)
        if k == "try": raise Untranslatable("`?`")
        if k in ("ifx", "match", "blockx"): raise Untranslatable(f"`{'if' if k == 'ifx' else k}` expression outside the result position")
        raise Untranslatable(f"expression kind {k}")

    def path(self, p):
        if len(p) == 1:
            if p[0] in ("true", "false"): return p[0], BOOL
            if p[0] == "self":
                self.need_self()
                if self.c.get("fam"): return ("self_", "self_data"), ("mat", "L", self.c["self_form"])
                return "self_", "self"
            t = self.lookup(p[0])
            if t is None: raise Untranslatable(f"`{p[0]}` is not a local value in scope")
            if isinstance(t, tuple) and t[0] == "mat": return (quote_kw(p[0]), f"{p[0]}_data"), t
            return quote_kw(p[0]), t
        if p == ["Order", "RowMajor"]: return "Order.rowMajor", ORDER
        if p == ["Order", "ColMajor"]: return "Order.colMajor", ORDER
        if p == ["usize", "MAX"]: return "usizeMax", USIZE
        if len(p) == 2 and p[0] == "Error":
            if p[1] not in ERRORS: raise Untranslatable(f"Error::{p[1]}: unknown variant")
            return "Error." + p[1][0].lower() + p[1][1:], "Error"
        raise Untranslatable("path " + "::".join(map(str, p)))

    def field(self, e, lines):
        if is_self(e[1]) and not self.c.get("fam"):
            self.need_self()
            if e[2] == "order": return "self_.order", ORDER
            if e[2] == "shape": return "self_.shape", ASHAPE
            if e[2] == "data" and self.c.get("data"): return "self_data", "vec"
            raise Untranslatable(f"field self.{e[2]}")
        r, t = self.ex(e[1], lines)
        if t == ASHAPE and e[2] in ("major", "minor"): return f"{r}.{e[2]}", USIZE
        raise Untranslatable(f"field access .{e[2]}")

    def bin(self, e, lines):
        op = e[1]
        if self.c.get("fam") and op in OPNAME and is_self(strip_ref(e[2])):
            return self.forward(op, e[3], lines)
        if op in ("&&", "||"):
            a, ta = self.ex(e[2], lines); rl = []; b, tb = self.ex(e[3], rl)
            if rl: raise Untranslatable("effectful right operand of && / ||")
            if (ta, tb) != (BOOL, BOOL): raise Untranslatable(f"`{op}` on non-bools")
            return f"({a} {op} {b})", BOOL
        (a, ta), (b, tb) = self.ex(e[2], lines), self.ex(e[3], lines)
        if op in OPNAME:
            if (ta, tb) != (USIZE, USIZE): raise Untranslatable(f"`{op}` on non-integers")
            return self.eff(lines, f"u{OPNAME[op]} {a} {b}", USIZE)
        if op in ("==", "!="):
            if ta != tb or ta not in SCALARS: raise Untranslatable(f"`{op}` on {ta} and {tb}")
            return f"(decide ({a} {'=' if op == '==' else '≠'} {b}))", BOOL
        if op in ("<", ">", "<=", ">="):
            if (ta, tb) != (USIZE, USIZE): raise Untranslatable(f"`{op}` on non-integers")
            return f"(decide ({a} {op.replace('<=', '≤').replace('>=', '≥')} {b}))", BOOL
        raise Untranslatable(f"operator {op}")

    def forward(self, op, rhs, lines):
        """`self OP [&]rhs` in an operator impl: the impl of trait OP for (self's form, rhs's form)"""
        if op not in ("+", "-"): raise Untranslatable(f"operator `{op}` on matrices: its impls are not in the vocabulary")
        h, d, form = self.mat_arg(rhs, lines)
        sf = "own" if self.c["self_form"] == "own" else "ref"
        name = self.callee(f"Matrix.{OPNAME[op]}_{sf}_{form}")
        return self.eff(lines, f"{name} {self.fam_prefix(False)} self_ self_data {h} {d}", ("matv", "U"))

    def mcall(self, e, lines):
        recv, name, args = e[1], e[2], e[3]
        if is_self(strip_ref(recv)):
            self.need_self()
            if self.c.get("fam"): return self.fam_call(name, args, lines)
            if not args:
                if name == "order": return "(Matreex.Gen.Matrix.order self_)", ORDER
                if name in ("major", "minor"): return f"(Matreex.Gen.Matrix.{name} self_)", USIZE
                if name == "shape": return self.eff(lines, self.callee("Matrix.shape") + " self_", SHAPE)
                if name in ("nrows", "ncols"): return self.eff(lines, f"Matreex.Gen.Matrix.{name} self_", USIZE)
                if name == "is_square": return self.eff(lines, self.callee("Matrix.is_square") + " self_", BOOL)
            raise Untranslatable(f"method self.{name}/{len(args)} in an expression")
        if recv[0] == "mcall" and recv[2] == "iter" and not recv[3] and name == "any" and len(args) == 1:
            r, t = self.ex(recv[1], lines)
            if t == "vec": return self.any_(r, args[0])
        r, t = self.ex(recv, lines)
        if t == "vec":
            if name == "contains" and len(args) == 1:
                v, tv = self.ex(args[0], lines)
                if tv != "elem": raise Untranslatable("contains: the argument is not an element reference")
                return f"(vecContains eqα {r} {v})", BOOL
            raise Untranslatable(f"vector method .{name}/{len(args)}")
        av = [self.ex(a, lines) for a in args]
        at = [x[1] for x in av]; av = [x[0] for x in av]
        if t == SHAPE and name in ("nrows", "ncols") and not args: return f"(Matreex.Gen.Shape.{name} {r})", USIZE
        if t == ASHAPE:
            if name in ("major", "minor") and not args: return f"{r}.{name}", USIZE
            if name in ("nrows", "ncols") and at == [ORDER]: return self.eff(lines, f"Matreex.Gen.AxisShape.{name} {r} {av[0]}", USIZE)
            if name == "to_shape" and at == [ORDER]: return self.eff(lines, f"Matreex.Gen.AxisShape.to_shape {r} {av[0]}", SHAPE)
        if t == USIZE and name in ("min", "max") and at == [USIZE]: return f"({name} {r} {av[0]})", USIZE
        raise Untranslatable(f"method .{name}/{len(args)} on {t if isinstance(t, str) else 'a matrix'}")

    def any_(self, vec, clo):
        """`VEC.iter().any(|e| a == b)`"""
        if clo[0] != "closure" or len(clo[1]) != 1: raise Untranslatable("any: not a one-parameter closure")
        p = clo[1][0]; ident(p, "closure parameter")
        body = clo[2]
        if body[0] != "bin" or body[1] != "==": raise Untranslatable("any: the closure body is not `a == b`")
        self.scope.append({p: "elem"})
        try:
            sides = []
            for s in (body[2], body[3]):
                l = []; v, t = self.ex(s, l)
                if l or t != "elem": raise Untranslatable("any: an operand of `==` is not an element reference")
                sides.append(v)
        finally:
            self.scope.pop()
        return f"({vec}.toList.any (fun {quote_kw(p)} => eqα {sides[0]} {sides[1]}))", BOOL

    def call(self, e, lines):
        p, args = e[1], e[2]
        p = [x for x in p if not (isinstance(x, tuple) and x[0] == "targs")]
        if p == ["Ok"] and len(args) == 1 and is_self(args[0]) and self.c["ret"] == ("result", SELFREF):
            self.need_self(); return "(Except.ok self_)", ("result", SELFREF)
        if p == ["Err"] and len(args) == 1:
            v, t = self.ex(args[0], lines)
            if t != "Error": raise Untranslatable("Err(..) of something that is not an Error variant")
            return f"(Except.error {v})", ("result", None)
        if p == ["__panic_display"] and len(args) == 1:
            v, t = self.ex(args[0], lines)
            if t != "Error": raise Untranslatable("panic! displaying a non-Error")
            return f"Except.error (Fault.panic (Error.name {v}))", NEVER
        if p in (["IterVectorsMut", "over_major_axis"], ["IterVectorsMut", "over_minor_axis"]) and self.c.get("iter"):
            if len(args) != 1 or not is_self(args[0]): raise Untranslatable(f"{p[1]}: the argument is not `self`")
            self.need_self()
            return self.eff(lines, f"Matreex.Gen.IterMut.Vecs.{'overMajor' if p[1] == 'over_major_axis' else 'overMinor'} cfg self_.shape", VECS)
        if p in (["Self", "new"], ["Matrix", "new"]) and not args and self.c.get("ctor"):
            return self.eff(lines, "(Matreex.Gen.Matrix.new : M (Matrix α))", SELFVAL)
        if p == ["Order", "default"] and not args:
            d = self.c.get("default_order")
            if not isinstance(d, str): raise (d if isinstance(d, Exception) else Untranslatable("Order::default()"))
            return d, ORDER
        if p == ["AxisShape", "default"] and not args:
            if not self.c.get("axis_default_ok"):
                raise Untranslatable("AxisShape::default(): `AxisShape` is not `#[derive(Default)]` over usize fields major, minor")
            return "({ major := 0, minor := 0 } : AxisShape)", ASHAPE
        if p == ["Vec", "new"] and not args and self.c.get("ctor"): return "(#[] : Array α)", "vecnew"
        if p == ["Vec", "with_capacity"] and len(args) == 1 and self.c.get("ctor") and self.c.get("es"):
            n, t = self.ex(args[0], lines)
            if t != USIZE: raise Untranslatable("Vec::with_capacity: the argument is not an integer")
            lines.append(f"Vec.reserveExact es {n}")
            return "(#[] : Array α)", "vecnew"
        raise Untranslatable("call " + "::".join(map(str, p)))

    def struct(self, e, lines):
        if e[1] not in (["Self"], ["Matrix"]) or not self.c.get("ctor"): raise Untranslatable("struct literal")
        names = [f for f, _ in e[2]]
        if sorted(names) != ["data", "order", "shape"]: raise Untranslatable("Self { .. }: the fields are not order, shape, data")
        want = {"order": ORDER, "shape": ASHAPE, "data": "vecnew"}
        vals = {}
        for f, fe in e[2]:                                   # evaluation order of the text
            v, t = self.ex(fe, lines)
            if t != want[f]: raise Untranslatable(f"Self {{ .. }}: field {f} has the wrong type")
            vals[f] = v
        return f"({{ order := {vals['order']}, shape := {vals['shape']}, data := {vals['data']} }} : Matrix α)", SELFVAL

    # ---- the elementwise family
    def fam_call(self, name, args, lines):
        form = self.c["self_form"]
        if name in GENERIC:
            need, assign = GENERIC[name]
            if len(args) != 2 or args[1][0] != "closure": raise Untranslatable(f"{name}: arguments")
            if need != "any" and form != need: raise Untranslatable(f"{name} on a receiver that is not {'owned' if need == 'own' else '&mut'}")
            h, d, _ = self.mat_arg(args[0], lines)
            clo = self.closure(args[1], assign)
            if assign:
                return self.eff(lines, f"Matreex.Gen.Matrix.{name} es_L es_R self_ self_data {h} {d} {clo}", "resultmutself")
            return self.eff(lines, f"Matreex.Gen.Matrix.{name} es_L es_R es_U self_ self_data {h} {d} {clo}", ("result", "matU"))
        m = re.fullmatch(r"elementwise_(add|sub|mul|div|rem)(_consume_self|_assign)?", name)
        if m and len(args) == 1:
            suffix = m.group(2) or ""
            if suffix == "_consume_self" and form != "own": raise Untranslatable(f"{name} on a borrowed receiver")
            if suffix == "_assign" and form != "mut": raise Untranslatable(f"{name} on a receiver that is not &mut")
            fn = self.callee(f"Matrix.{name}")
            h, d, _ = self.mat_arg(args[0], lines)
            assign = suffix == "_assign"
            return self.eff(lines, f"{fn} {self.fam_prefix(assign)} self_ self_data {h} {d}",
                            "resultmutself" if assign else ("result", "matU"))
        raise Untranslatable(f"method self.{name}/{len(args)}")

    def closure(self, clo, assign):
        ps, body = clo[1], clo[2]
        if len(ps) != 2 or ps[0] == ps[1]: raise Untranslatable("the closure does not take two parameters")
        for p in ps: ident(p, "closure parameter")
        ty = {ps[0]: "L", ps[1]: "R"}

        def operand(x):
            x0 = x
            while x[0] in ("ref", "deref"): x = x[1]
            if x[0] == "path" and len(x[1]) == 1 and x[1][0] in ty: return quote_kw(x[1][0]), ty[x[1][0]]
            if x[0] == "mcall" and x[2] == "clone" and not x[3]:
                v, t = operand(x[1]); return f"(clone{t} {v})", t
            raise Untranslatable("closure body: an operand is neither a parameter nor its clone")

        if assign:
            if body[0] != "cassign" or body[1] != ps[0] or not body[2]:
                raise Untranslatable("closure body: not `*LEFT OP= EXPR`")
            v, t = operand(body[4])
            if t != "R": raise Untranslatable("closure body: the right operand of the compound assignment is not of type R")
            return f"(fun {quote_kw(ps[0])} {quote_kw(ps[1])} => aops.{OPNAME[body[3]]}_assign {quote_kw(ps[0])} {v})"
        if body[0] != "bin" or body[1] not in OPNAME: raise Untranslatable("closure body: not `A OP B`")
        (a, ta), (b, tb) = operand(body[2]), operand(body[3])
        if (ta, tb) != ("L", "R"):
            raise Untranslatable(f"closure body: `{body[1]}` with a left operand of type {ta} and a right operand of type {tb} "
                                 "(the impl's bound is L: Op<R, Output = U>)")
        return f"(fun {quote_kw(ps[0])} {quote_kw(ps[1])} => ops.{OPNAME[body[1]]} {a} {b})"

    # ---- results
    def value(self, e, ind):
        """lines ending in the function's result, for a plain expression"""
        pad = "  " * ind
        ret = self.c["ret"]
        if e == ("__state",): return [pad + f"pure {self.state()}"]      # end of a branch of an `if` statement
        if ret == "state":
            if not is_self(e): raise Untranslatable("the result is not `self`")
            return [pad + f"pure {self.state()}"]
        lines = []; v, t = self.ex(e, lines)
        out = [pad + l for l in lines]
        if t == NEVER: return out + [pad + v]
        ok = (t == ret) or (isinstance(t, tuple) and t[0] == "result" and isinstance(ret, tuple) and ret[0] == "result"
                            and t[1] in (None, ret[1]))
        if ret == "matU" and t == ("matv", "U"): ok = True
        if not ok: raise Untranslatable("the result has the wrong type")
        return out + [pad + f"pure {v}"]

    def ret(self, e, ind):
        pad = "  " * ind
        if e[0] == "blockx": return self.seq(e[1], ind)
        if e[0] == "ifx":
            lines = []; c, t = self.ex(e[1], lines)
            if t != BOOL: raise Untranslatable("condition is not a bool")
            return ([pad + l for l in lines] + [pad + f"if {c} then do"] + self.branch(e[2], ind + 1)
                    + [pad + "else do"] + self.branch(e[3], ind + 1))
        if e[0] == "match":
            lines = []; s, t = self.ex(e[1], lines)
            out = [pad + l for l in lines]
            arms = e[2]
            if t == ORDER:
                pats = {("Order", "RowMajor"): ".rowMajor", ("Order", "ColMajor"): ".colMajor"}
                if sorted(tuple(a[0]) for a in arms) != sorted(pats) or any(a[1] for a in arms):
                    raise Untranslatable("match on an Order: the arms are not Order::RowMajor and Order::ColMajor, each once")
                out.append(pad + f"match {s} with")
                for path, _, body in arms:
                    out += [pad + f"| {pats[tuple(path)]} => do"] + self.branch(body, ind + 1)
                return out
            if t in (("result", "matU"), "resultmutself"):
                if sorted(tuple(a[0]) for a in arms) != [("Err",), ("Ok",)] or not all(a[1] for a in arms):
                    raise Untranslatable("match on a Result: the arms are not Err(x) and Ok(y), each once")
                if t == "resultmutself": raise Untranslatable("match on the result of an in-place operation")
                out.append(pad + f"match {s} with")
                for path, b, body in arms:
                    ident(b, "binder")
                    self.scope.append({b: "Error" if path == ["Err"] else ("matv", "U")})
                    out += [pad + f"| {'.error' if path == ['Err'] else '.ok'} {quote_kw(b)} => do"] + self.branch(body, ind + 1)
                    self.scope.pop()
                return out
            raise Untranslatable("match on something that is neither an Order nor a Result of the vocabulary")
        return self.value(e, ind)

    def branch(self, sts, ind):
        self.scope.append({})
        try:
            return self.seq(sts, ind)
        finally:
            self.scope.pop()

    # ---- statements
    def set_state(self, pad, term):
        return [pad + f"let st_ ← {term}", pad + "let self_ : Hdr := st_.1", pad + f"let self_data : Array {self.c['elem']} := st_.2"]

    def seq(self, sts, ind):
        pad = "  " * ind
        out = []
        for i, st in enumerate(sts):
            k = st[0]; rest = sts[i + 1:]
            if k == "tail":
                if rest: raise Untranslatable("code after the result")
                return out + self.ret(st[1], ind)
            if k == "let":
                lines = []; v, t = self.ex(st[2], lines)
                if t not in SCALARS: raise Untranslatable(f"let {st[1]}: a value of a type that cannot be bound")
                ident(st[1], "local")
                out += [pad + l for l in lines] + [pad + f"let {quote_kw(st[1])} := {v}"]
                self.bind(st[1], t)
                continue
            if k == "do":
                e = st[1]
                if e[0] == "call" and e[1] == ["__panic_display"]:
                    if rest: raise Untranslatable("code after panic!")
                    lines = []; v, t = self.ex(e, lines)
                    return out + [pad + l for l in lines] + [pad + v]
                out += self.effect(e, ind)
                continue
            if k == "cassign":
                out += self.compound_self(st, ind)
                continue
            if k == "if":
                if not self.c.get("stateful"): raise Untranslatable("`if` statement in a function without state")
                lines = []; c, t = self.ex(st[1], lines)
                if t != BOOL: raise Untranslatable("condition is not a bool")
                out += [pad + l for l in lines]
                out.append(pad + "let st_ ← (if " + c + " then do")
                out += self.fallthrough(st[2], ind + 2)
                out.append(pad + "  else do")
                out += self.fallthrough(st[3] or [], ind + 2)
                out[-1] += ")"
                out += [pad + "let self_ : Hdr := st_.1", pad + f"let self_data : Array {self.c['elem']} := st_.2"]
                continue
            if k == "iflet":
                return out + self.iflet(st, rest, ind)
            raise Untranslatable(f"statement kind {k}")
        if self.c["ret"] == "unitstate":
            return out + [pad + f"pure ({{ order := self_.order, shape := self_.shape, data := self_data }} : Matrix {self.c['elem']})"]
        raise Untranslatable("the function body does not end in a result")

    def fallthrough(self, sts, ind):
        """a branch of an `if` statement: runs to its end and yields the state"""
        if any(s[0] in ("tail", "iflet") for s in sts): raise Untranslatable("a value / `if let` inside a branch of an `if` statement")
        self.scope.append({})
        saved = self.c["ret"]; self.c["ret"] = "fall"
        try:
            return self.seq(sts + [("tail", ("__state",))], ind)
        finally:
            self.c["ret"] = saved; self.scope.pop()

    def effect(self, e, ind):
        """an expression statement: a state-changing call on `self`"""
        pad = "  " * ind
        if not self.c.get("stateful") or self.c.get("fam"): raise Untranslatable("expression statement in a function without state")
        if e[0] == "mcall" and e[1] == ("field", ("path", ["self"]), "order") and e[2] == "switch" and not e[3]:
            return [pad + "let self_ : Hdr := { self_ with order := Matreex.Gen.Order.switch self_.order }"]
        if e[0] == "mcall" and is_self(e[1]):
            name, args = e[2], e[3]
            if name == "transpose" and not args:
                return self.set_state(pad, "Matreex.Gen.Matrix.transpose zst self_ self_data")
            if name in STATE_CALLS and len(args) == STATE_CALLS[name]:
                fn = self.callee("Matrix." + name)
                lines = []; av = []
                for a in args:
                    v, t = self.ex(a, lines)
                    if t != ORDER: raise Untranslatable(f"{name}: the argument is not an Order")
                    av.append(v)
                return [pad + l for l in lines] + self.set_state(pad, f"{fn} zst self_ self_data {' '.join(av)}".rstrip())
        raise Untranslatable("expression statement that is not a state-changing call of the vocabulary on `self`")

    def compound_self(self, st, ind):
        """`*self OP= &rhs` in a compound-assignment operator impl"""
        pad = "  " * ind
        _, target, deref, op, rhs = st
        if not (self.c.get("fam") and self.c.get("stateful") and target == "self" and deref):
            raise Untranslatable("compound assignment")
        if op not in ("+", "-"): raise Untranslatable(f"operator `{op}=` on matrices: its impls are not in the vocabulary")
        lines = []; h, d, form = self.mat_arg(rhs, lines)
        name = self.callee(f"Matrix.{OPNAME[op]}_assign_{form}")
        return ([pad + l for l in lines]
                + [pad + f"let st_ ← {name} {self.fam_prefix(True)} self_ self_data {h} {d}",
                   pad + "let self_ : Hdr := st_.hdr", pad + f"let self_data : Array {self.c['elem']} := st_.data"])

    def iflet(self, st, rest, ind):
        """`if let Err(x) = IN-PLACE CALL { panic!("{x}"); } rest`"""
        pad = "  " * ind
        _, ctor, b, e, then, _ = st
        if ctor != "Err": raise Untranslatable("`if let Ok(..)`")
        if not (self.c.get("fam") and self.c.get("stateful")): raise Untranslatable("`if let` outside a compound-assignment impl")
        lines = []; v, t = self.ex(e, lines)
        if t != "resultmutself": raise Untranslatable("`if let Err(..)` on something that is not the result of an in-place operation")
        ident(b, "binder")
        if len(then) != 1 or then[0][0] not in ("do", "tail") or then[0][1][0] != "call" or then[0][1][1] != ["__panic_display"]:
            raise Untranslatable("`if let Err(x) = .. { .. }`: the block is not a single panic!")
        self.scope.append({b: "Error"})
        pl = []; pv, _ = self.ex(then[0][1], pl)
        self.scope.pop()
        out = [pad + l for l in lines]
        out += [pad + f"let self_ : Hdr := {v}.2.hdr", pad + f"let self_data : Array {self.c['elem']} := {v}.2.data",
                pad + f"match {v}.1 with", pad + f"| .error {quote_kw(b)} => do"] + ["  " * (ind + 1) + l for l in pl] + ["  " * (ind + 1) + pv]
        out += [pad + "| .ok _ => do"] + self.branch(rest, ind + 1)
        return out

# ------------------------------------------------------------------ jobs
RES_SELFREF = ("ty", "Result", [("ref", ("ty", "Self", []))])
RES_MUTSELF = ("ty", "Result", [("mutref", ("ty", "Self", []))])
RES_MATU = ("ty", "Result", [("ty", "Matrix", [("ty", "U", [])])])
MUTSELF = ("mutref", ("ty", "Self", []))
REF_R, OWN_R = ("mat", "R", "ref"), ("mat", "R", "own")

FAM_HEAD = "{L R U : Type} (ops : PrimOps L R U) (cloneL : L → L) (cloneR : R → R) (es_L es_R es_U : Nat) (self_ : Hdr) (self_data : Array L)"
FAM_HEAD_A = "{L R : Type} (aops : PrimAssignOps L R) (cloneL : L → L) (cloneR : R → R) (es_L es_R : Nat) (self_ : Hdr) (self_data : Array L)"
STATE_HEAD = "{α : Type} (zst : Bool) (self_ : Hdr) (self_data : Array α)"


def J(file, impl, fn, lean, head, lean_ret, recv, ret_ty, params, **cfg):
    return dict(file=file, impl=impl, fn=fn, lean=lean, head=head, lean_ret=lean_ret, recv=recv, ret_ty=ret_ty, params=params, cfg=cfg)


def jobs():
    T, L = r"impl<T>Matrix<T>", r"impl<L>Matrix<L>"
    js = [
        J("lib.rs", T, "shape", "Matrix.shape", "(self_ : Hdr)", "M Shape", "ref", ("ty", "Shape", []), [], ret=SHAPE),
        J("arithmetic.rs", L, "is_square", "Matrix.is_square", "(self_ : Hdr)", "M Bool", "ref", ("ty", "bool", []), [], ret=BOOL),
        J("arithmetic.rs", L, "ensure_square", "Matrix.ensure_square", "(self_ : Hdr)", "M (Except Error Hdr)", "ref", RES_SELFREF, [],
          ret=("result", SELFREF)),
    ]
    for fn, ps in (("switch_order_without_rearrangement", []), ("switch_order", []),
                   ("set_order_without_rearrangement", [ORDER]), ("set_order", [ORDER])):
        js.append(J("lib.rs", T, fn, "Matrix." + fn, STATE_HEAD, "M (Hdr × Array α)", "mut", MUTSELF, ps,
                    ret="state", stateful=True, elem="α"))
    js += [
        J("lib.rs", T, "contains", "Matrix.contains", "{α : Type} (eqα : α → α → Bool) (self_ : Hdr) (self_data : Array α)", "M Bool",
          "ref", ("ty", "bool", []), ["elem"], ret=BOOL, data=True, eq=True, elem="α"),
        J("iter.rs", T, "iter_rows_mut", "Matrix.iter_rows_mut", "(cfg : Cfg) (self_ : Hdr)", "M Vecs", "mut", ("impl",), [], ret=VECS, iter=True),
        J("iter.rs", T, "iter_cols_mut", "Matrix.iter_cols_mut", "(cfg : Cfg) (self_ : Hdr)", "M Vecs", "mut", ("impl",), [], ret=VECS, iter=True),
        J("construct.rs", T, "with_capacity", "Matrix.with_capacity", "{α : Type} (es : Nat)", "M (Matrix α)", None, ("ty", "Self", []), [USIZE],
          ret=SELFVAL, ctor=True, es=True),
        J("construct.rs", r"impl<T>DefaultforMatrix<T>", "default", "Matrix.default", "{α : Type}", "M (Matrix α)", None, ("ty", "Self", []), [],
          ret=SELFVAL, ctor=True),
    ]
    for mod in MODULES:
        f = f"arithmetic/{mod}.rs"
        js.append(J(f, L, f"elementwise_{mod}", f"Matrix.elementwise_{mod}", FAM_HEAD, "M (Except Error (Matrix U))", "ref", RES_MATU, [REF_R],
                    ret=("result", "matU"), fam=True, self_form="ref", elem="L", generics=["R", "U"]))
        js.append(J(f, L, f"elementwise_{mod}_consume_self", f"Matrix.elementwise_{mod}_consume_self", FAM_HEAD, "M (Except Error (Matrix U))",
                    "own", RES_MATU, [REF_R], ret=("result", "matU"), fam=True, self_form="own", elem="L", generics=["R", "U"]))
        js.append(J(f, L, f"elementwise_{mod}_assign", f"Matrix.elementwise_{mod}_assign", FAM_HEAD_A, "M (Except Error Unit × Matrix L)",
                    "mut", RES_MUTSELF, [REF_R], ret="resultmutself", fam=True, self_form="mut", elem="L", generics=["R"]))
    out = ("ty", "Self::Output", [])
    for mod, tr in (("add", "Add"), ("sub", "Sub")):
        f = f"arithmetic/{mod}.rs"
        for sf, rf in (("own", "ref"), ("ref", "ref"), ("own", "own"), ("ref", "own")):
            impl = (r"impl<L,R,U>" + tr + "<" + ("&" if rf == "ref" else "") + r"Matrix<R>>for" + ("&" if sf == "ref" else "") + r"Matrix<L>")
            js.append(J(f, impl, mod, f"Matrix.{mod}_{sf}_{rf}", FAM_HEAD, "M (Matrix U)", "own", out, [REF_R if rf == "ref" else OWN_R],
                        ret="matU", fam=True, self_form=sf, elem="L"))
        for rf in ("ref", "own"):
            impl = r"impl<L,R>" + tr + "Assign<" + ("&" if rf == "ref" else "") + r"Matrix<R>>forMatrix<L>"
            js.append(J(f, impl, f"{mod}_assign", f"Matrix.{mod}_assign_{rf}", FAM_HEAD_A, "M (Matrix L)", "mut", None,
                        [REF_R if rf == "ref" else OWN_R], ret="unitstate", fam=True, stateful=True, self_form="mut", elem="L"))
    return js


DEFAULT_PARAM = {USIZE: ("capacity", "Nat"), ORDER: ("order", "Order"), "elem": ("value", "α")}


def stub(job):
    bs = []
    for t in job["params"]:
        if isinstance(t, tuple): bs.append("(rhs : Hdr) (rhs_data : Array R)")
        else: bs.append("({} : {})".format(*DEFAULT_PARAM[t]))
    sig = f"def {job['lean']} {job['head']}" + ("".join(" " + b for b in bs))
    return f"{sig} :\n    {job['lean_ret']} :=\n  .error (.panic \"untranslatable\")\n"


HEADER = """/-
GENERATED by translate/t17.py from /repo/src/lib.rs (`switch_order`, `switch_order_without_rearrangement`, `set_order`,
`set_order_without_rearrangement`, `contains`, `shape`), /repo/src/iter.rs (`iter_rows_mut`, `iter_cols_mut`),
/repo/src/construct.rs (`with_capacity`, `Default::default`), /repo/src/arithmetic.rs (`is_square`, `ensure_square`) and
/repo/src/arithmetic/{add,sub,mul,div,rem}.rs (the named elementwise methods; the `Add` / `Sub` / `AddAssign` / `SubAssign`
impls between matrices) on every run — do not edit.
A matrix is its header `self_` and its buffer `self_data`; a `&mut self` method returns the state after the call; `zst` is
`size_of::<T>() == 0`, `es` / `es_X` is `size_of::<X>()`, `eqα` the element type's `PartialEq::eq`, `cfg` the buffer
configuration of Model/IterMut.lean.  Calls go to the functions generated by the other translators (T2: Gen/Core.lean,
Gen/Simple.lean; T4: Gen/IterMutGen.lean; T5: Gen/TransposeGen.lean; T9: Gen/T9Gen.lean; T13: Gen/T13Gen.lean).
-/
import Matreex.Gen.Core
import Matreex.Gen.Simple
import Matreex.Gen.TransposeGen
import Matreex.Gen.IterMutGen
import Matreex.Gen.T9Gen
import Matreex.Gen.T13Gen
import Matreex.Model.Small

set_option linter.unusedVariables false

namespace Matreex.Gen
open Matreex Matreex.IterMut

/-- the primitive operators of the element types: `L: Add<R, Output = U>`, `Sub`, `Mul`, `Div`, `Rem` -/
structure PrimOps (L R U : Type) where
  add : L → R → U
  sub : L → R → U
  mul : L → R → U
  div : L → R → U
  rem : L → R → U

/-- the compound assignments `L: AddAssign<R>` …: the new value of the left operand -/
structure PrimAssignOps (L R : Type) where
  add_assign : L → R → L
  sub_assign : L → R → L
  mul_assign : L → R → L
  div_assign : L → R → L
  rem_assign : L → R → L

"""


def translate_job(job, srcs, env, defined):
    src = srcs(job["file"])
    blocks = impl_blocks(src, job["impl"])
    if not blocks: raise Untranslatable(f"`{job['impl']}` not found in {job['file']}")
    text = demacro(fn_in(blocks, job["fn"], f"`{job['impl']}` of {job['file']}"))
    ast = S17(drop_attrs_lifetimes(lex(text))).header()
    if ast["recv"] != job["recv"]: raise Untranslatable("the receiver changed")
    if ast["ret"] != job["ret_ty"]: raise Untranslatable("the result type changed")
    if "generics" in job["cfg"] and ast["generics"] != job["cfg"]["generics"]: raise Untranslatable("the generic parameters changed")
    if "generics" not in job["cfg"] and ast["generics"]: raise Untranslatable("generic parameters on the function")
    cfg = dict(job["cfg"]); cfg.update(env); cfg["me"] = job["lean"]; cfg["defined"] = defined
    em = Em(ast, cfg)
    if [t for _, t in em.params] != job["params"]: raise Untranslatable("the parameters changed")
    body = em.seq(normalize(ast["body"]), 1)
    sig = f"def {job['lean']} {job['head']}" + "".join(" " + b for b in em.binders())
    return f"{sig} :\n    {job['lean_ret']} := do\n" + "\n".join(body) + "\n"


def run_t17(root):
    from t8 import default_order
    from t14 import axis_default_ok
    out, done, failed = [], [], []
    cache = {}
    def srcs(f):
        if f not in cache:
            try: cache[f] = cut_tests(strip_rust_comments(open(f"{root}/{f}").read()))
            except OSError: cache[f] = ""
        return cache[f]
    env = {"default_order": default_order(root), "axis_default_ok": axis_default_ok(root)}
    defined = set()
    for job in jobs():
        try:
            out.append(translate_job(job, srcs, env, defined)); done.append(job["lean"])
        except Untranslatable as ex:
            failed.append((job["lean"], str(ex))); out.append(stub(job))
        except Exception as ex:
            failed.append((job["lean"], f"not parsed ({type(ex).__name__}: {ex})")); out.append(stub(job))
        defined.add(job["lean"])
    return HEADER + "\n".join(out) + "\nend Matreex.Gen\n", done, failed


if __name__ == "__main__":
    root = sys.argv[1] if len(sys.argv) > 1 else "/repo/src"
    text, done, failed = run_t17(root)
    print(text)
    print(done, failed, file=sys.stderr)
