"""Per-property configuration of check.py: the Lean module holding the property's theorems, the
harness generator, the trusted-base items specific to the property."""

TRUSTED_COMMON = [
    "Lean 4.33 kernel; axioms allowed: propext, Classical.choice, Quot.sound (audited with #print axioms on every property theorem on every run)",
    "translate/t2.py (Rust integer-function subset -> lean/Matreex/Gen/Core.lean) and, run from it, t3.py (swap kernels), t4.py (mutable iterators), t5.py (transpose), t6.py (overwrite), t7.py (PartialEq), t8.py (constructors, reshape), t9.py (elementwise operations), t10.py (products), t11.py (checked indexing, element swap, swap dispatch), t12.py (row / column views, element iterators), t13.py (conversions), t14.py (resize, clear, map, apply, scalar operations), t15.py (Display / Debug), t16.py (parallel wrappers), t17.py (order operations, mutable-view entry points, small constructors, named elementwise methods and matrix operators) -> lean/Matreex/Gen/*.lean, all regenerated from /repo/src on every run; anything outside a translator's statement language is reported as a broken obligation, never guessed",
    "harness/ (Rust) and lean/Main.lean + lean/Driver/ (protocol printers on both sides); the Lean compiler/runtime for the driver only",
    "64-bit usize/isize; rustc and std semantics of the primitives named in DESIGN.md section 5 (modelled, validated by correspondence)",
]

PROPS = {
    "C04": {
        "module": "Matreex.Props.C04", "harness": "C04", "extra_modules": ["Matreex.Lemmas.BridgeT11"],
        "trusted": ["slice::get_unchecked modelled as UB outside the vector (Model/Mem.lean)",
                    "AsIndex accessors modelled as arbitrary state machines read once per component (Model/Index.lean); the call structure of get/get_mut is hand-modelled and tied by correspondence (call counts, returned addresses)"],
        "assumptions": ["Coh (shape product = element count) for the matrix indexed; established for every reachable matrix by C01"],
    },
    "C10": {
        "module": "Matreex.Props.C10", "harness": "C10", "extra_modules": ["Matreex.Props.SpecLaws", "Matreex.Lemmas.BridgeT11"],
        "technique": "Lean 4 theorems (window lemma for the contiguous swap, loop invariant for the strided swap, lift to the logical view for both orders) + correspondence on all shapes/index pairs/element sizes",
        "trusted": ["ptr::swap_nonoverlapping modelled with its precondition (ranges in the buffer, disjoint unless zero bytes); ptr::swap as UB outside the buffer (Model/Swap.lean, Model/Mem.lean)",
                    "the two vector-swap kernels are regenerated from src/swap.rs (T3) and proved equal to the model functions, faults included (swap_kernels_are_the_source); which kernel swap_rows / swap_cols call per order is a re-extracted table (T1); the element swap `swap(i, j)` is hand-modelled and tied by correspondence; for zero-sized elements with extents near usize::MAX only the outcome (Ok / IndexOutOfBounds / panic) is compared"],
        "assumptions": ["Coh and size <= usize::MAX (C01); index arguments are usize values"],
    },
    "C13": {
        "module": "Matreex.Props.C13", "harness": "C13", "extra_modules": ["Matreex.Lemmas.BridgeT11"],
        "trusted": ["isize::unsigned_abs = Int.natAbs, `x as usize` = two's complement (Prelude)"],
        "assumptions": ["Coh for the matrix indexed (C01)"],
    },
    "C05": {
        "module": "Matreex.Props.C05", "harness": "C05", "extra_modules": ["Matreex.Props.SpecLaws", "Matreex.Lemmas.BridgeT17"],
        "technique": "Lean 4 proof of the cycle-following in-place permutation for every injective self-map (two loop invariants), instantiated with the regenerated index functions (T2); induction over compositions; correspondence on all shapes up to 12x12",
        "trusted": ["ptr::swap modelled as UB outside the buffer, visited.get_unchecked_mut as UB outside the bitmap (Model/Mem.lean, Model/Transpose.lean)",
                    "Matrix::transpose is regenerated from src/lib.rs (T5) and proved equal to the model function for every matrix, faults included (transpose_is_the_source); the only thing T5 adds to the Rust text is the fuel of the inner loop; switch_order / set_order (three-line wrappers) are hand-modelled and tied by correspondence",
                    "zero-sized element types are represented by Subsingleton types"],
        "assumptions": ["Coh and size <= usize::MAX for the matrix operated on (C01)"],
    },
    "C08": {
        "module": "Matreex.Props.C08", "harness": "C08",
        "technique": "Lean 4 theorems over unbounded naturals about the regenerated size/capacity decision code (T2) + table theorem over the re-extracted check/allocation order of all 17 allocating functions (T1) + correspondence on the boundary grid",
        "trusted": ["with_value / with_default / with_initializer and reshape are regenerated from src/construct.rs / src/lib.rs (T8) and proved equal to the model functions with no hypothesis (constructors_are_the_source, reshape_is_the_source); the products likewise (T10, see C11); the other allocating functions are tied by the T1 table and by correspondence",
                    "Vec::with_capacity / vec! / resize_with modelled as panic('capacity overflow') above isize::MAX bytes and otherwise as success (the allocator itself is not modelled)",
                    "translate/t1.py alloc_order: regex extraction of the order of `ensure_*conformable(..)?`, `try_to_axis_shape(..)?`, `check_size(..)?` and vector-producing calls in the 17 function bodies",
                    "predicted-Ok calls larger than 4096 elements are not executed (decision covered by the hooks wrappers on the full grid and by the theorems)"],
        "assumptions": ["CapacityOverflow inputs for the row conversions with sized elements cannot physically exist; that branch is covered by the T1 table theorem only"],
    },
}

PROPS["C14"] = {
    "module": "Matreex.Props.C14", "harness": "C14",
    "technique": "Lean 4 loop-invariant proofs for both branches of overwrite (unchecked sub-slices; strided zip), lifted to the logical view for the four order combinations; exhaustive correspondence over shape pairs with clone-marking tokens",
    "trusted": ["get_unchecked(range) modelled as UB outside the vector, clone_from_slice as panic on a length mismatch, skip/step_by/zip as position arithmetic with step_by(0) = panic (Model/Overwrite.lean): T6 maps this slice / iterator vocabulary by name to those primitives; branch condition, extents, loop bounds, offsets, ranges and skip / step_by arguments are regenerated from src/lib.rs and proved equal to the model (overwrite_is_the_source)",
                "Clone::clone is an effect-free function in these theorems (fault schedules: C02)"],
    "assumptions": ["Coh for both matrices (C01)"],
}

PROPS["C09"] = {
    "module": "Matreex.Props.C09", "harness": "C09", "extra_modules": ["Matreex.Lemmas.BridgeT8Props", "Matreex.Lemmas.BridgeT14"],
    "technique": "Lean 4 theorems over a state-returning model (post-state also on failure) for reshape/resize and every fallible in-place operation + T1 delegation table for += / -= + correspondence on exhaustive single calls and random histories",
    "trusted": ["Vec::resize_with / truncate as take/append on the memory-order sequence (effect-free Default here; unwinding behaviour is C02's subject)",
                "the models of swap*/elementwise_assign are those of C10/C12"],
    "assumptions": ["size <= usize::MAX for the receiver (C01)"],
}

PROPS["C12"] = {
    "module": "Matreex.Props.C12", "harness": "C12", "extra_modules": ["Matreex.Props.C12Source", "Matreex.Lemmas.BridgeT17"],
    "technique": "Lean 4 theorems about the regenerated conformability predicate and the same-order/cross-order data paths (cross-order get_unchecked in bounds via the remap lemma) + T1 tables of the named methods and operator delegation + correspondence with symbolic token terms",
    "trusted": ["the guard and the three generic elementwise operations are regenerated from src/arithmetic.rs (T9) and proved equal to the model functions (elementwise_is_the_source: no hypothesis for the two non-assign variants, coherent operands for the assign variant); the named methods and operators delegate to them (T1 tables)",
                "iter().zip / enumerate / collect modelled as positionwise maps (T9 maps this iterator vocabulary by name); get_unchecked as UB outside the vector",
                "closures are effect-free functions in the theorems (exactly-once is the shape of the map; the harness counts real calls)",
                "translate/t1.py elementwise_forms: regex extraction of method bodies and operator impl bodies"],
    "assumptions": ["Coh and size <= usize::MAX for both operands (C01)"],
}
PROPS["C18"] = {
    "module": "Matreex.Props.C18", "harness": "C18", "extra_modules": ["Matreex.Lemmas.BridgeT14"],
    "technique": "table theorems (decide) over the scalar-operator impl table re-extracted from the macro sources on every run (T1), Lean theorems for the generic scalar_operation family, and execution of every one of the 1260 impls against the primitive operators",
    "trusted": ["translate/t1.py scalar_forms / neg_forms: regex extraction of macro arms, closure bodies normalised to `role op role` (derefs and clones erased), invocation lists",
                "primitive arithmetic is not re-modelled in Lean: the harness evaluates both orientations with the primitive operator and compares bitwise"],
    "assumptions": [],
}

PROPS["C11"] = {
    "module": "Matreex.Props.C11", "harness": "C11",
    "technique": "Lean 4 theorems over abstract mul/add/default (no algebraic laws): size decision (T2), set_order via the C05 transpose proof, unchecked row/column slices in range, unwrap_unchecked never on None, both loop nests, lift to the logical view + correspondence over symbolic token terms",
    "trusted": ["multiply, multiplication_like_operation, get_nth_major_axis_vector, dot_product and the conformability guard are regenerated from src/arithmetic/mul.rs / src/arithmetic.rs (T10) and proved equal to the model functions, Error results and faults included, with no hypothesis (products_are_the_source); set_order inside multiply is mapped to the model's setOrder (its transposition is T5's)",
                "get_unchecked(range) as UB outside the vector, Option::unwrap_unchecked as UB on None, zip/map/reduce as list functions (Model/Mul.lean; T10 maps this vocabulary by name)",
                "mul/add/Default/Clone are effect-free functions in the theorems (fault schedules: C02); borrowed operator forms clone the operand first (hand-modelled in the driver)"],
    "assumptions": ["Coh and size <= usize::MAX for both operands (C01)"],
}

PROPS["C15"] = {
    "module": "Matreex.Props.C15", "harness": "C15", "extra_modules": ["Matreex.Lemmas.BridgeT12"],
    "technique": "Lean 4 theorems: the regenerated Index::from_flattened pairs memory position k with the unique in-bounds coordinate whose checked access resolves to k (bijection), no division by zero; memory order = row-by-row / column-by-column; correspondence incl. parallel forms and large sizes",
    "trusted": ["slice iterators, enumerate, map and their DoubleEnded/ExactSize behaviour modelled as consumption of a list from either end",
                "parallel variants: compared as collected sequences against the same model (rayon's indexed collect preserves order); schedule-independence is C16's subject"],
    "assumptions": ["Coh and size <= usize::MAX (C01)"],
}

PROPS["C19"] = {
    "module": "Matreex.Props.C19", "harness": "C19", "extra_modules": ["Matreex.Lemmas.BridgeT13", "Matreex.Lemmas.BridgeT17"],
    "technique": "Lean 4 theorems by induction over the row lists (uniform => rows in order; any deviating row => LengthInconsistent / panic; with_initializer stores f(r,c) at (r,c)) using the regenerated size decision (T2) + macro-arm table (T1) + exhaustive correspondence over ragged inputs with destructor tokens",
    "trusted": ["Vec::extend / extend_from_slice / collect / vec! modelled as list append (vec![v; n]: n-1 clones then the original), FromIterator rows as lists",
                "translate/t1.py macros: regex extraction of each macro arm's pattern and expansion",
                "closures / Clone are effect-free functions in the theorems (the harness records real calls)"],
    "assumptions": [],
}

PROPS["C03"] = {
    "module": "Matreex.Props.C03", "harness": "C03",
    "technique": "Lean 4 refinement proof: the address-level iterator machines (outer + all live inner iterators, any finite call sequence) refine a deque-of-deques of positions; abstract-level no-duplicates / exactly-once theorems; address injectivity; correspondence incl. every pointer value formed (hooks)",
    "trusted": ["NonNull::add/sub modelled as UB outside the allocation [base, base+len*size], NonZero::new_unchecked(0) and NonNull::new_unchecked(null) as UB, as_mut as requiring a live aligned element (Model/IterMut.lean)",
                "the 15 methods of the two iterators are regenerated from src/iter/iter_mut.rs (T4; pointer vocabulary: Model/PtrPrims.lean) and proved equal to the model machines on every state of the refinement invariants, faults included (iterators_are_the_source, constructors_are_the_source; outside the model: the buffer pointer of a non-empty Vec is not null); additionally tied by correspondence on yielded addresses, len() and every lower/upper value recorded by the verif-hooks recorder",
                "Vec guarantees: base + len*size does not wrap, len <= usize::MAX (CfgOk)"],
    "assumptions": ["Coh (C01)"],
}
PROPS["C06"] = {
    "module": "Matreex.Props.C06", "harness": "C06", "extra_modules": ["Matreex.Lemmas.BridgeT12", "Matreex.Lemmas.BridgeT17"],
    "technique": "Lean 4 theorems for skip/step_by/take views (exact items and lengths, step_by(0) unreachable, IndexOutOfBounds exactly for invalid n) and agreement of the view positions with the positions the mutable machines of C03 hand out; correspondence over all families, shapes with a zero dimension, consumption patterns",
    "trusted": ["slice::Iter / IterMut with skip, step_by, take and their DoubleEnded/ExactSize behaviour modelled as list functions (Model/Iter.lean)",
                "the mutable outer families are the C03 machines"],
    "assumptions": ["Coh, size and extents <= usize::MAX (C01)"],
}

PROPS["C20"] = {
    "module": "Matreex.Props.C20", "harness": "C20", "post": "fmtcfg", "extra_modules": ["Matreex.Lemmas.BridgeT15", "Matreex.Props.C20Source"],
    "level_text": "PARTIAL. Both fmt bodies, the Lines helpers and the constants of src/fmt.rs are regenerated as Lean functions on every run (T15) and proved equal to the model for every matrix (C20.fmt_is_the_source; the only difference, stated exactly in display_source_full / debug_source_full, is the capacity-overflow panic of the cache allocation Vec::with_capacity(size): KNOWN FINDING F-C20-huge-zst-capacity — formatting a zero-sized-element matrix of >= 2^58 elements panics; machine-checked as fmt_source_panics_on_huge_zst, characterised by fmt_source_panic_iff, replayed on the implementation on every run). Machine-checked Lean 4 theorems about a List-Char model of both fmt bodies (no panic for any matrix and any renderings; for single-line renderings the exact text of Display — one bracketed line per logical row, equal widths, order transparency — and of Debug — header of column numbers, row numbers, every element labelled with its position in memory order), tied to the implementation by exhaustive-palette correspondence of the complete output text of Display and Debug. "
                  "All three feature configurations are executed on every run: the harness links features=full (colour feature compiled in, NO_COLOR set so colours are unsupported), and every formatting operation of the run is recomputed against /repo built with no default features and with the crate's default features (fmtcfg); the three texts must be identical. Not carried by the model: the colour feature's behaviour when colours ARE supported (owo-colors styling, supports-color detection); multi-line renderings are covered by the no-panic theorems and by correspondence of the full text, not by an exact-text theorem.",
    "technique": "Lean 4: src/fmt.rs regenerated statement by statement (T15) and proved equal to the model for every matrix; theorems over the List Char model (loop invariants for the Lines cache; str::lines for break-free strings; width = max over logical positions) + full-text correspondence over a palette of empty / multi-byte / multi-line / CRLF renderings",
    "trusted": ["core::fmt width/alignment padding ({:<w$}, {:>w$}, {SPACE:w$} = at least w characters), str::lines, chars().count() modelled in Model/Fmt.lean",
                "element Display/Debug impls are an input function (render)",
                "colour support detection (supports-color reading NO_COLOR / the terminal) is outside the model; runs use NO_COLOR=1",
                "translate/t15.py and the 50-line vocabulary Model/FmtPrims.lean (size_of::<VecDeque<String>>() = 32 is measured by the harness on every run); writes to the formatter are modelled as never failing (a String sink)"],
    "assumptions": ["Coh and size <= usize::MAX (C01)"],
}

PROPS["C07"] = {
    "module": "Matreex.Props.C07", "harness": "C07", "extra_modules": ["Matreex.Props.C07Programs"],
    "technique": "Lean 4 theorems: storage order is transparent for EVERY program of order-agnostic operations with order switches inserted anywhere (programs_order_transparent, through the refinement to the logical reference model); == is exactly logical equality for every pair of orders (cross-order get_unchecked in bounds), hence reflexive/symmetric/transitive; congruence of the order-agnostic operations w.r.t. logical equality as corollaries of their specifications (C04, C05, C10, C11, C12, C14, C20) + metamorphic correspondence (programs run row-major and with mixed orders / inserted switch_order)",
    "trusted": ["PartialEq::eq of src/eq.rs is regenerated (T7) and proved equal to the model's == for coherent operands, faults included; with no hypothesis it returns what the model returns whenever the model does not fault (Iterator::all short-circuits, the model does not) (eq_is_the_source)",
                "PartialEq for Vec / slices modelled as length + pairwise comparison; element PartialEq is an input function",
                "the congruence theorems cover get, transpose, swap_rows, overwrite, elementwise operations, multiply and Display; swap_cols, swap, scalar operations, map/apply and the views are covered by their own specifications (C06, C10, C18) plus the metamorphic runs, not by a separate congruence theorem"],
    "assumptions": ["Coh and size <= usize::MAX (C01)"],
}

PROPS["C01"] = {
    "module": "Matreex.Props.C01", "harness": "C01", "extra_modules": ["Matreex.Props.C01Ledger", "Matreex.Props.C01Refine"],
    "technique": "Lean 4: coherence as an inductive invariant of every finite history over a 21-constructor operation language (no fault on any reachable state; per-operation step lemmas from the specifications of C05/C08-C12/C14/C19) + ownership-ledger model with ONE permutation invariant (live ++ dropped ++ moved-out ~ [0, nextId)) by induction over histories; + refinement of the concrete machine to a logical reference model (order tag, extents, partial function from coordinates to elements; every operation a few lines) for every history; correspondence on random histories with an independent row-of-rows reference and the per-operation ledger deltas",
    "level_text": "Machine-checked Lean 4 theorems: (1) run_inv — for every finite history of well-formed operations from the empty register file no operation faults and every live matrix is coherent with a usize element count; coh_meaning — in a coherent matrix every in-bounds coordinate resolves to its own distinct existing element; (2) C01Ledger.run_inv / inv_nodup / all_accounted — in the ownership-flow model no token is ever duplicated, dropped twice or lost, for every history. "
                  "(3) run_refines — the contents clause: for every finite history the logical view of the concrete world (order tag, extents, element at every coordinate) EQUALS the world of a plain logical reference model (Spec, ~150 lines: the textbook meaning of each of the 21 operations, including which calls fail) run on the same operations; the harness's independent row-of-rows reference checks the same after every operation of every generated history on the implementation. "
                  "The ledger model is an abstraction of ownership flow (operation classes); it is tied to the implementation by comparing, for every operation of every random history, the number of tokens created and dropped with Ledger.delta, and by the real unique-id ledger (never a double drop, nothing live once all matrices are dropped).",
    "trusted": ["the mapping from protocol operations to ledger operation classes (lean/Driver/Ledger.lean) and the History.step glue are hand-written",
                "zero-sized element types with drop glue are covered by the correspondence run only (drop counts), the functional model is for sized types (zst flags false in History.step)",
                "operations not in the History language (iterators, views, eq, contains, Display, parallel helpers) do not change any matrix; consuming iterators are ledger class intoIter"],
    "assumptions": [],
}

PROPS["C02"] = {
    "module": "Matreex.Props.C02", "harness": "C02", "extra_modules": ["Matreex.Lemmas.BridgeT14"],
    "level_text": "PARTIAL. Machine-checked Lean 4 theorems over a fault-schedule model (world = callback counter, matrix, drop log; an ARBITRARY schedule phi : Nat -> Bool of panicking callbacks): for resize (repaired order, incl. the unwinding guard), clear, every in-place per-element operation, overwrite and consuming operations the survivor is coherent for every schedule, truncate drops each removed element at most once and never a survivor; plus the machine-checked refutation of the pre-fix resize order. "
                  "Together with C01.run_inv_from any history may follow on the survivors. The model is tied to the implementation by single-fault enumeration (every operation kind, every k) comparing the survivor's shape and length for the modelled operations and evaluating the property's oracle (coherence, usability, no double drop) for all operations. "
                  "Not exhibited by the model: the unwinder itself (landing pads, drop flags, drop-and-replace), Vec's internal panic guards (SetLenOnDrop, in-place collect), rayon's panic propagation — these are trusted-base items validated by the injection runs; multi-fault schedules are proved in the model but only single faults are injected.",
    "technique": "Lean 4 theorems quantified over arbitrary fault schedules about an effect model of Vec::truncate / resize_with unwinding and the operations built on them + exhaustive single-fault injection (k-th callback panics) on the real crate for every operation kind",
    "trusted": ["unwinding semantics of Vec::truncate (length set first, tail dropped, continues after a panicking drop, second panic aborts), Vec::resize_with (length = completed pushes), drop-and-replace assignment, slice clone_from_slice (Model/Effects.lean)",
                "operations are grouped into classes (forEach / overwrite / consuming) by hand; the class of each real operation is validated by the injection runs"],
    "assumptions": ["one fault per run in the injection (the theorems hold for every schedule)"],
}

PROPS["C16"] = {
    "module": "Matreex.Props.C16", "harness": "C16", "extra_modules": ["Matreex.Lemmas.BridgeT16"],
    "level_text": "PARTIAL. The nine wrappers of src/parallel.rs are regenerated as Lean functions of the split tree on every run (T16) and proved equal, for EVERY split tree, to the regenerated sequential apply / map / map_ref and element iterators (C16.parallel_is_the_source, par_apply_source_any_schedule). Machine-checked Lean 4 theorems about a split-tree model of rayon's indexed producers: for EVERY binary split tree (every thread-pool size, every division of work) par_map / par_map_ref return exactly what map returns (same CapacityOverflow cases, shape, order, contents), the indexed iterators yield exactly the sequential (index, element) items with the regenerated Index::from_flattened, the leaves partition the work, every interleaving of the leaves' calls is a permutation of the sequential call list (exactly once per element) and par_apply's final memory equals the sequential one on every interleaving; plus theorems over the table of parallel.rs wrapper forms regenerated from the source on every run. "
                  "Tied to the implementation by runs on real rayon pools of 1..32 threads with per-element run-time jitter, shapes from empty to 100200 elements, invocation counters and the set of worker threads observed. "
                  "Not exhibited by the model: rayon itself (its scheduler, work stealing, the unsafe collect into uninitialised memory, panic propagation) — the theorems assume rayon honours the IndexedParallelIterator / Producer contract stated in Model/Par.lean; the runs sample real schedules but cannot enumerate them.",
    "technique": "Lean 4 theorems quantified over every split tree and every interleaving of the leaves about a model of rayon's indexed producers + source-extracted wrapper table + differential runs on real thread pools of 1..32 threads with run-time jitter",
    "trusted": ["rayon honours the indexed-producer contract: split_at(mid) partitions the items, enumerate supplies the global position, collect concatenates the leaves in order, for_each calls each leaf's items once (Model/Par.lean)",
                "the schedules reached by jitter are a sample of rayon's schedules"],
    "assumptions": ["closures are pure functions of the element (the property's own setting); interior-mutable closures are outside the model"],
}

PROPS["C17"] = {
    "module": "Matreex.Props.C17", "harness": "C17",
    "level_text": "PARTIAL. Machine-checked Lean 4 theorems: (type level) over the tables of struct fields, derives and Send / Sync / Clone / Copy impls re-extracted from src/iter/iter_mut.rs and src/iter.rs on every run, through a miniature of rustc's auto-trait rule: the iterator returned by iter_rows_mut / iter_cols_mut and the vector iterator it yields are Send iff T: Send and Sync iff T: Sync for all four classes of element types, are not duplicable, and never grant more than &mut T; "
                  "(run time) for every matrix, axis and call sequence on one iterator, every distribution of the handed-out references over threads, every per-thread program writing through its own references and EVERY interleaving: no address is written by two threads and the final memory equals the sequential run (from C03's refinement: no position handed out twice, distinct positions at distinct addresses). "
                  "Tied to the implementation by in-process auto-trait probes and compile probes (cargo check of 72 client programs, accept / reject and diagnostic code, for all four (Send, Sync) classes) whose verdicts must equal the model's, and by real-thread runs (1..16 threads, jitter, ownership map thread -> addresses, final matrix vs sequential run and vs the concrete iterator model). "
                  "Not exhibited by the model: rustc's type checker itself (the auto-trait rule is a ten-line miniature validated by the probes, not a model of trait resolution; 'all client programs' is sampled by the probe programs), variance / lifetime checking of PhantomData<&'a mut T>, and the hardware memory model (a data race is represented as two threads writing one address; the theorems show that never happens).",
    "technique": "Lean 4 theorems over source-extracted auto-trait tables and, quantified over every reference distribution and interleaving, over the C03 iterator model + rustc compile probes and real-thread differential runs",
    "trusted": ["the auto-trait rule of Model/Traits.lean is rustc's (explicit impl under its bounds, else all fields) — checked on every run against 16 in-process and 72 compile probes",
                "Rust's ownership discipline: a &mut reference handed out once is used by one thread at a time (hypothesis `refs` of threads_no_race)",
                "sequentially consistent per-address writes (no torn writes) for the memory model of Model/Threads.lean"],
    "assumptions": ["element types with non-zero size for the address statements (zero-sized elements have no memory to race on)"],
}

LEVEL_TEXT = ("Machine-checked Lean 4 theorems, for all inputs the property quantifies over, about a model whose integer core is "
              "regenerated from /repo/src on every run and whose remaining structure is tied to the implementation by a differential "
              "correspondence run (same operation lines on crate and model) plus the property's own oracle on the implementation.")

# properties not (yet) claimed, each with the reason; entries disappear as checks are added
NOT_APPLICABLE = {pid: "check not built yet in this round (planned: DESIGN.md section 6); not a statement that the technique cannot apply"
                  for pid in ["C%02d" % i for i in range(1, 21)]}
