#!/usr/bin/env python3
"""Translator T16 ("rayon wrappers"): the nine public functions of src/parallel.rs

    par_apply                                                     self.data.par_iter_mut().for_each(f); self
    par_map / par_map_ref                                         check_size(..)?; lets; .into_par_iter() / .par_iter() .map(f).collect(); Ok(Matrix { .. })
    par_iter_elements / par_iter_elements_mut / into_par_iter_elements              self.data.par_iter() / par_iter_mut() / into_par_iter()
    par_iter_elements_with_index / par_iter_elements_mut_with_index / into_par_iter_elements_with_index
                                                                  self.data.par_iter().enumerate().map(|(index, element)| { .. })

-> Lean 4 functions (`Gen/T16Gen.lean`), regenerated on every run.  Every function takes one extra argument
`t : Par.Split` (Model/Par.lean): how rayon happened to split the index range on this call.  A function that returns a
parallel iterator is represented by the list of the items the iterator yields, in index order, when it is driven
along `t` (as T12 represents a sequential iterator by the list of its items).

What comes from the Rust text: the receiver, the type parameters and the closure's `Fn(..) [-> ..]` bound, the declared
result type (`Result<Matrix<U>>`, `&mut Self`, `impl ParallelIterator<Item = ..>` with the item type), every statement of
the body in its order, which element type `check_size` is asked about and its argument, every `let`, WHICH source
iterator starts the chain (`par_iter` / `par_iter_mut` / `into_par_iter`, checked against the receiver, the closure's
argument type and the declared item type), whether and where `.enumerate()` occurs, every `.map(..)` and its closure
(pattern variables, every `let` of the body, every argument of `Index::from_flattened`, all integer arithmetic — checked —,
the components of the item tuple and their order), `.collect()` / `.for_each(..)`, the fields of the final
`Matrix { .. }` and the expressions they are initialised with.

What is mapped BY NAME to existing vocabulary (never a whole function), arguments from the text:

    self.data.par_iter() / .par_iter_mut() / .into_par_iter()
                                 `parSource DATA.toList`: the element list as an indexed parallel iterator; the item at
                                 GLOBAL position i is the i-th element (rayon: `IndexedParallelIterator` over a slice / Vec)
    P.enumerate()                `ParIter.enumerate P`: the item at global position i becomes (i, item) — the position in the
                                 WHOLE vector, whatever piece of it a leaf of the split tree works on (rayon: the producer of
                                 `Enumerate` is split with its offset, `Par.parMapIdx`'s `base` discipline)
    P.map(CLOSURE)               `ParIter.map P (fun PAT => do BODY)`: the closure applied to the item, position unchanged
    P (returned as `impl ParallelIterator`)
                                 `ParIter.drive P t`: the items computed leaf by leaf along the split tree `t` with
                                 `Par.parMapIdx` and concatenated in index order
    P.collect()                  `ParIter.collect es_U P t`: `Vec.reserveExact es_U LEN` (Model/Construct.lean: the
                                 allocation `collect` makes for an indexed iterator of known length, a panic above
                                 isize::MAX bytes; `U` is the type of the items), then `drive`, `.toArray`
    P.for_each(CLOSURE)          only on `self.data.par_iter_mut()` of a `&mut self` method with a `Fn(&mut T)` closure:
                                 `ParIter.forEachMut P (fun x => do BODY) t`: slot i ends up holding what the closure leaves
                                 in it (`f(x)` for the closure parameter `f: Fn(&mut T)` is `let x := f x`, as in T9 / T14)
    .map(f) / .for_each(f)       with `f` the closure PARAMETER itself: read as `|elem_| f(elem_)` (as in T14)
    Matrix::<X>::check_size(n) / Self::check_size(n)     T2's `Gen.Matrix.check_size es_X n`
    Index::from_flattened(k, o, s)                       T2's `Gen.Index.from_flattened` (untranslatable if T2 did not translate it on this run)
    self.size()                  `DATA.size`, only while src/lib.rs defines `Matrix::size` as `self.data.len()`
    EXPR?                        `bindErr` (Prelude)
    Matrix { order: E, shape: E, data: E }               the model's structure, fields from the text (shorthand `order` = `order: order`)

Accepted statement language (anything else raises `Untranslatable`, is reported in the JSON summary, and a stub of the
right type that faults is emitted, so that the file compiles and the bridge theorem fails):

  signature   fn NAME[<['a,] U, F>](self | &['a] self | &mut self [, f: F]) -> RET  [where BOUNDS]
              RET    := Result<Matrix<U>> | &mut Self | impl ParallelIterator<Item = ITEM>
              ITEM   := &T | &mut T | T | Index | usize | (ITEM, ITEM)
              BOUNDS := X: B + B .. , ..      B := Send | Sync | Fn(&T | &mut T | T) [-> U]      (Send / Sync are not interpreted)
  body        EXPR?;   let x = EXPR?;          (only in a function returning a Result)
              let x = EXPR;                    EXPR : usize | Order | AxisShape | Index | a collected vector | a parallel iterator
              PAR.for_each(CLOSURE);           (see above)
              tail:  Ok(Matrix { .. })  |  self  (for `-> &mut Self`)  |  PAR  (for `-> impl ParallelIterator`)
  PAR         self.data.par_iter() | self.data.par_iter_mut() | self.data.into_par_iter() | a local bound to a PAR
              | PAR.enumerate() | PAR.map(CLOSURE)
  CLOSURE     f | [move] |PAT| EXPR | [move] |PAT| { let x = EXPR; .. EXPR }         PAT := x | (PAT, PAT)
  EXPR        integers, locals, + - * / % (checked), tuples, self.order, self.shape, Order::RowMajor / ColMajor,
              usize::MAX, f(x), and the vocabulary above
A checker assigns a type to every expression (usize, Order, AxisShape, Index, elements `T` / `&T` / `&mut T`, tuples,
parallel iterators with their item type, vectors, Results); a mismatch — in particular a body whose type is not the
declared result type, a source iterator the receiver does not allow, a closure applied to the wrong kind of item — is
untranslatable.  At most ONE parallel execution (`collect`, `for_each`, or the returned iterator) per function: one
split tree is given.
"""
import re, sys, os
sys.path.insert(0, os.path.dirname(os.path.abspath(__file__)))
from t2 import lex, Untranslatable, strip_rust_comments
import t2
from t9 import F9, locate, drop_lifetimes, lib_delegates
from t6 import lean_id

RESERVED = {"self_", "self_data", "t", "elem_", "pure", "bindErr", "parSource", "ParIter", "Par", "uadd", "usub", "umul",
            "udiv", "urem", "M", "Nat", "List", "Array", "Hdr", "Matrix", "Matreex", "AxisShape", "Index", "Order", "Error",
            "Except", "Vec", "usizeMax", "isizeMax", "fun", "do", "let", "if", "then", "else", "match", "with"}
SCALARS = ("usize", "Order", "AxisShape", "Index")
SOURCES = {"par_iter": "ref", "par_iter_mut": "mut", "into_par_iter": "own"}
SELF = ("path", ["self"])


def show(t):
    if isinstance(t, str): return t
    if t[0] == "elem": return {"ref": "&", "mut": "&mut ", "own": ""}[t[2]] + t[1]
    if t[0] == "tuple": return "(" + ", ".join(show(x) for x in t[1]) + ")"
    if t[0] == "par": return f"ParallelIterator<Item = {show(t[1])}>"
    if t[0] == "vec": return f"Vec<{t[1]}>"
    if t[0] == "result": return f"Result<{show(t[1])}>"
    if t[0] == "matrix": return f"Matrix<{t[1]}>"
    return str(t)


# ------------------------------------------------------------------ parser
class F16(F9):
    """header of a method of src/parallel.rs (generics, receiver, closure parameter, the three result forms, a `where`
    clause with `Send` / `Sync` / `Fn(..)` bounds joined by `+`) + T9's expressions, blocks and closures; `move` closures"""

    def pat(self):
        if self.at("("):
            self.eat("("); xs = []
            while not self.at(")"):
                xs.append(self.pat())
                if self.at(","): self.next()
                elif not self.at(")"): raise Untranslatable("pattern")
            self.eat(")"); return ("ptuple", xs)
        if self.at("mut"): raise Untranslatable("`mut` binding")
        k, v = self.next()
        if k != "id" or v in ("ref", "box"): raise Untranslatable(f"pattern {v!r}")
        if self.at("::") or self.at("(") or self.at("{") or self.at("@"): raise Untranslatable("pattern form")
        return ("pvar", v)

    def args(self):
        self.eat("("); xs = []
        while not self.at(")"):
            if self.at("move"):
                self.next()
                if not self.at("|"): raise Untranslatable("closure form")
            if self.at("|"): xs.append(self.closure())
            elif self.at("||"): raise Untranslatable("closure without parameters")
            else: xs.append(self.expr())
            if self.at(","): self.next()
            elif not self.at(")"): raise Untranslatable(f"argument list: unexpected {self.peek()[1]!r}")
        self.eat(")"); return xs

    def item_ty(self):
        if self.at("&"):
            self.next(); kind = "ref"
            if self.at("mut"):
                self.next(); kind = "mut"
            k, v = self.next()
            if k != "id" or self.at("<"): raise Untranslatable(f"item type: reference to {v!r}")
            return ("elem", v, kind)
        if self.at("("):
            self.next(); xs = []
            while not self.at(")"):
                xs.append(self.item_ty())
                if self.at(","): self.next()
                elif not self.at(")"): raise Untranslatable("item type: tuple")
            self.eat(")")
            return ("tuple", xs)
        k, v = self.next()
        if k != "id" or self.at("<") or self.at("::"): raise Untranslatable(f"item type {v!r}")
        if v in ("Index", "usize"): return v
        return ("elem", v, "own")

    def rty(self):
        if self.at("&"):
            self.next(); self.eat("mut"); self.eat("Self")
            return ("mutself",)
        k, v = self.next()
        if v == "Result":
            self.eat("<"); self.eat("Matrix"); self.eat("<"); k, x = self.next()
            if k != "id": raise Untranslatable("result type")
            self.eat(">"); self.eat(">")
            return ("result", ("matrix", x))
        if v == "impl":
            k, tr = self.next()
            if tr not in ("ParallelIterator", "IndexedParallelIterator"): raise Untranslatable(f"result type: impl {tr}")
            self.eat("<"); self.eat("Item"); self.eat("="); item = self.item_ty(); self.eat(">")
            if self.at("+"): raise Untranslatable("result type: additional bounds")
            return ("par", item)
        raise Untranslatable(f"result type: `{v}`")

    def bound(self):
        k, v = self.next()
        if v in ("Send", "Sync"): return v
        if v == "Fn":
            self.eat("("); args = []
            while not self.at(")"):
                args.append(self.pty())
                if self.at(","): self.next()
            self.eat(")")
            r = None
            if self.at("->"):
                self.next(); r = self.pty()
            return ("Fn", args, r)
        raise Untranslatable(f"bound `{v}`")

    def header(self):
        self.eat("fn"); name = self.next()[1]
        generics = []
        if self.at("<"):
            self.next()
            while not self.at(">"):
                k, v = self.next()
                if v == ",": continue
                if k != "id": raise Untranslatable("generic parameter list")
                if self.at(":"): raise Untranslatable("bound inside the generic parameter list")
                generics.append(v)
            self.eat(">")
        self.eat("(")
        if self.at("&"):
            self.next(); recv = "ref"
            if self.at("mut"):
                self.next(); recv = "mut"
        else:
            recv = "own"
            if self.at("mut"): raise Untranslatable("`mut self`")
        self.eat("self")
        params = []
        while self.at(","):
            self.next()
            if self.at(")"): break
            if self.at("mut"): raise Untranslatable("`mut` parameter")
            k, pn = self.next()
            if k != "id": raise Untranslatable(f"parameter name {pn!r}")
            self.eat(":"); params.append((pn, self.pty()))
        self.eat(")")
        self.eat("->"); ret = self.rty()
        bounds = {}
        if self.at("where"):
            self.next()
            while not self.at("{"):
                k, g = self.next()
                if k != "id": raise Untranslatable("where clause")
                self.eat(":")
                bounds.setdefault(g, []).append(self.bound())
                while self.at("+"):
                    self.next(); bounds[g].append(self.bound())
                if self.at(","): self.next()
                elif not self.at("{"): raise Untranslatable("where clause")
        body = self.block()
        if self.peek()[0] != "eof": raise Untranslatable("text after the function body")
        return {"name": name, "generics": generics, "recv": recv, "params": params, "ret": ret, "bounds": bounds, "body": body}


# ------------------------------------------------------------------ checker + emitter
class Fn16:
    def __init__(self, impl_param, ast, delegates, ftable):
        self.ast, self.delegates, self.ftable = ast, delegates, ftable
        self.L = impl_param
        self.recv = ast["recv"]
        self.n = 0
        self.drives = 0
        self.data = "self_.data"           # the Lean name of `self.data` at this point of the body
        fn_bounds = {}
        for g, bs in ast["bounds"].items():
            if g != impl_param and g not in ast["generics"]: raise Untranslatable(f"where clause on `{g}`")
            fns = [b for b in bs if isinstance(b, tuple)]
            if len(fns) > 1: raise Untranslatable(f"two `Fn` bounds on `{g}`")
            if fns:
                if g == impl_param: raise Untranslatable("`Fn` bound on the element type")
                fn_bounds[g] = fns[0]
        self.tparams = [impl_param] + [g for g in ast["generics"] if g not in fn_bounds]
        if len(set(self.tparams)) != len(self.tparams) or len(set(ast["generics"])) != len(ast["generics"]):
            raise Untranslatable("type parameter declared twice")
        self.ops, self.binders = {}, []
        for pn, ty in ast["params"]:
            self.check_name(pn)
            if not (ty[0] == "ty" and not ty[2] and ty[1] in fn_bounds):
                raise Untranslatable(f"parameter {pn}: not a closure (a type parameter with a `Fn(..)` bound)")
            _, args, r = fn_bounds[ty[1]]
            if len(args) != 1: raise Untranslatable(f"closure {pn}: one argument expected")
            a = args[0]; kind = "own"
            if a[0] in ("ref", "mutref"):
                kind = "ref" if a[0] == "ref" else "mut"; a = a[1]
            if a[0] != "ty" or a[2] or a[1] not in self.tparams: raise Untranslatable(f"closure {pn}: argument type")
            if kind == "mut":
                if r is not None: raise Untranslatable(f"closure {pn}: `&mut` argument and a result")
                rt = a[1]
            else:
                if r is None or r[0] != "ty" or r[2] or r[1] not in self.tparams: raise Untranslatable(f"closure {pn}: result type")
                rt = r[1]
            self.ops[pn] = (a[1], kind, rt)
            self.binders.append(f"({lean_id(pn)} : {a[1]} → {rt})")
        ret = ast["ret"]
        if ret[0] == "result":
            if ret[1][1] not in self.tparams: raise Untranslatable("result type: element type of the matrix")
            if self.recv == "mut": raise Untranslatable("`&mut self` method returning a new matrix")
            self.U = ret[1][1]
            self.ret_ty = f"M (Except Error (Matreex.Matrix {self.U}))"
        elif ret[0] == "mutself":
            if self.recv != "mut": raise Untranslatable("`&mut Self` returned without `&mut self`")
            self.ret_ty = f"M (Matreex.Matrix {self.L})"
        else:
            self.check_item(ret[1])
            self.ret_ty = f"M (List {self.lean_ty(ret[1])})"
        self.scope = [dict()]

    # -- names and types
    def check_name(self, name):
        if name in RESERVED or re.fullmatch(r"t\d+", name) or name.startswith("es_"):
            raise Untranslatable(f"name `{name}` collides with a name of the generated code")

    def check_item(self, t):
        if isinstance(t, str): return
        if t[0] == "elem":
            if t[1] not in self.tparams: raise Untranslatable(f"item type `{t[1]}` is not a type parameter")
            return
        for x in t[1]: self.check_item(x)

    def lean_ty(self, t):
        if t == "usize": return "Nat"
        if isinstance(t, str): return t
        if t[0] == "elem": return t[1]
        if t[0] == "tuple":
            if len(t[1]) < 2: raise Untranslatable("tuple type with fewer than two components")
            return "(" + " × ".join(self.lean_ty(x) for x in t[1]) + ")"
        raise Untranslatable(f"type {show(t)}")

    def fresh(self):
        self.n += 1; return f"t{self.n}"

    def lookup(self, name):
        for s in reversed(self.scope):
            if name in s: return s[name]
        return None

    def is_self(self, e):
        return e == SELF and self.lookup("self") is None

    def bind_pat(self, pat, t, env):
        """bind the variables of a closure / let pattern; returns the Lean pattern"""
        if pat[0] == "pvar":
            if pat[1] == "_": return "_"
            self.check_name(pat[1])
            if pat[1] in env: raise Untranslatable(f"pattern binds `{pat[1]}` twice")
            env[pat[1]] = t
            return lean_id(pat[1])
        if not (isinstance(t, tuple) and t[0] == "tuple" and len(t[1]) == len(pat[1])):
            raise Untranslatable(f"tuple pattern against {show(t)}")
        return "(" + ", ".join(self.bind_pat(p, x, env) for p, x in zip(pat[1], t[1])) + ")"

    # -- expressions: (lean text, type); effects are appended to `lines`
    def ex(self, e, lines):
        k = e[0]
        if k == "num": return str(e[1]), "usize"
        if k == "block":
            if e[1] or e[2] is None: raise Untranslatable("block with statements in expression position")
            return self.ex(e[2], lines)
        if k == "path":
            p = e[1]
            if len(p) == 1 and isinstance(p[0], str):
                t = self.lookup(p[0])
                if t is None: raise Untranslatable(f"`{p[0]}` is not a local value in scope")
                return lean_id(p[0]), t
            if p[-2:] == ["Order", "RowMajor"]: return "Order.rowMajor", "Order"
            if p[-2:] == ["Order", "ColMajor"]: return "Order.colMajor", "Order"
            if p == ["usize", "MAX"]: return "usizeMax", "usize"
            raise Untranslatable("path " + "::".join(map(str, p)))
        if k == "field":
            if self.is_self(e[1]):
                if e[2] == "order": return "self_.order", "Order"
                if e[2] == "shape": return "self_.shape", "AxisShape"
                if e[2] == "data": raise Untranslatable("`self.data` outside par_iter() / par_iter_mut() / into_par_iter()")
            raise Untranslatable(f"field access .{e[2]}")
        if k == "tuple":
            vs = [self.ex(x, lines) for x in e[1]]
            if len(vs) < 2: raise Untranslatable("tuple with fewer than two components")
            for _, t in vs:
                if not (t in SCALARS or (isinstance(t, tuple) and t[0] in ("elem", "tuple"))):
                    raise Untranslatable(f"tuple component of type {show(t)}")
            return "(" + ", ".join(v for v, _ in vs) + ")", ("tuple", [t for _, t in vs])
        if k == "bin":
            op = e[1]
            (a, ta), (b, tb) = self.ex(e[2], lines), self.ex(e[3], lines)
            if op in ("+", "-", "*", "/", "%"):
                if (ta, tb) != ("usize", "usize"): raise Untranslatable(f"`{op}` on {show(ta)} and {show(tb)}")
                f = {"+": "uadd", "-": "usub", "*": "umul", "/": "udiv", "%": "urem"}[op]
                t = self.fresh(); lines.append(f"let {t} ← {f} {a} {b}"); return t, "usize"
            raise Untranslatable(f"operator {op}")
        if k == "mcall": return self.mcall(e, lines)
        if k == "call": return self.call(e, lines)
        if k == "try": raise Untranslatable("`?` outside statement position")
        if k == "closure": raise Untranslatable("closure outside `.map(..)` / `.for_each(..)`")
        raise Untranslatable(f"expression kind {k}")

    def mcall(self, e, lines):
        recv, name, args = e[1], e[2], e[3]
        if self.is_self(recv):
            if name == "size" and not args:
                if "size" not in self.delegates: raise Untranslatable("Matrix::size is not the plain delegation to `self.data.len()` in src/lib.rs")
                return f"{self.data}.size", "usize"
            raise Untranslatable(f"method self.{name}/{len(args)}")
        if recv[0] == "field" and self.is_self(recv[1]) and recv[2] == "data":
            if name not in SOURCES or args: raise Untranslatable(f"self.data.{name}/{len(args)}")
            kind = SOURCES[name]
            if kind == "mut" and self.recv != "mut": raise Untranslatable("par_iter_mut() without `&mut self`")
            if kind == "own" and self.recv != "own": raise Untranslatable("into_par_iter() without owning `self`")
            return f"(parSource {self.data}.toList)", ("par", ("elem", self.L, kind))
        r, tr = self.ex(recv, lines)
        if isinstance(tr, tuple) and tr[0] == "par":
            if name == "enumerate" and not args:
                return f"(ParIter.enumerate {r})", ("par", ("tuple", ["usize", tr[1]]))
            if name == "map" and len(args) == 1:
                c, tc = self.closure(args[0], tr[1], "map")
                return f"(ParIter.map {r} {c})", ("par", tc)
            if name == "collect" and not args:
                if not (tr[1][0] == "elem" and tr[1][2] == "own"):
                    raise Untranslatable(f"collect() of items of type {show(tr[1])}")
                self.drive()
                t = self.fresh(); lines.append(f"let {t} ← ParIter.collect es_{tr[1][1]} {r} t")
                return t, ("vec", tr[1][1])
            raise Untranslatable(f"parallel iterator method {name}/{len(args)}")
        raise Untranslatable(f"method {name}/{len(args)} on {show(tr)}")

    def call(self, e, lines):
        p, args = e[1], e[2]
        if p == ["Index", "from_flattened"]:
            if ("Index", "from_flattened") not in self.ftable: raise Untranslatable("Index::from_flattened was not translated by T2")
            if len(args) != 3: raise Untranslatable("Index::from_flattened: arity")
            vs = [self.ex(a, lines) for a in args]
            if [t for _, t in vs] != ["usize", "Order", "AxisShape"]:
                raise Untranslatable("Index::from_flattened: argument types " + ", ".join(show(t) for _, t in vs))
            t = self.fresh(); lines.append(f"let {t} ← {self.ftable[('Index', 'from_flattened')]} {' '.join(v for v, _ in vs)}")
            return t, "Index"
        if p[-1] == "check_size" and len(args) == 1:
            if p == ["Self", "check_size"]: el = self.L
            elif len(p) == 3 and p[0] == "Matrix" and isinstance(p[1], tuple) and len(p[1][1]) == 1 \
                    and p[1][1][0][0] == "ty" and p[1][1][0][1] in self.tparams and not p[1][1][0][2]:
                el = p[1][1][0][1]
            else: raise Untranslatable("check_size: element type not given as Matrix::<X> / Self")
            n, tn = self.ex(args[0], lines)
            if tn != "usize": raise Untranslatable("check_size: the argument is not an integer")
            t = self.fresh(); lines.append(f"let {t} ← Matrix.check_size es_{el} {n}"); return t, ("result", "usize")
        if len(p) == 1 and p[0] in self.ops and self.lookup(p[0]) is None:
            at, kind, rt = self.ops[p[0]]
            if kind == "mut": raise Untranslatable(f"{p[0]}(..): a `Fn(&mut ..)` closure called in value position")
            if len(args) != 1: raise Untranslatable(f"{p[0]}: number of arguments")
            v, tv = self.ex(args[0], lines)
            if tv != ("elem", at, kind): raise Untranslatable(f"{p[0]}: argument of type {show(tv)}, expected {show(('elem', at, kind))}")
            return f"({lean_id(p[0])} {v})", ("elem", rt, "own")
        raise Untranslatable("call " + "::".join(x if isinstance(x, str) else "<…>" for x in p))

    def drive(self):
        self.drives += 1
        if self.drives > 1: raise Untranslatable("two parallel executions in one function: one split tree is given")

    # -- closures
    def closure(self, c, item, kind):
        """the argument of `.map(..)` / `.for_each(..)` applied to items of type `item`: (lean function, type of its value)"""
        if c[0] == "path" and len(c[1]) == 1 and c[1][0] in self.ops and self.lookup(c[1][0]) is None:
            c = ("closure", [("pvar", "elem_")], ("block", [], ("call", [c[1][0]], [("path", ["elem_"])])))
            eta = True
        else:
            eta = False
        if c[0] != "closure" or len(c[1]) != 1: raise Untranslatable("the argument is not a one-parameter closure")
        env = {}
        if eta: env["elem_"] = item; pat = "elem_"
        else: pat = self.bind_pat(c[1][0], item, env)
        self.scope.append(env)
        lines = []
        b = c[2]
        mutvar = c[1][0][1] if kind == "for_each" and c[1][0][0] == "pvar" else None
        if kind == "for_each" and mutvar is None: raise Untranslatable("for_each: closure parameter is not a single variable")
        for st in b[1]:
            if st[0] == "let":
                if st[1][0] != "pvar": raise Untranslatable("let with a pattern in a closure")
                v, t = self.ex(st[2], lines)
                if not (t in SCALARS or (isinstance(t, tuple) and t[0] in ("elem", "tuple"))):
                    raise Untranslatable(f"let {st[1][1]}: value of type {show(t)}")
                self.check_name(st[1][1])
                lines.append(f"let {lean_id(st[1][1])} := {v}")
                self.scope[-1][st[1][1]] = t
            else:
                if kind != "for_each" or not self.mut_call(st[1], mutvar, lines):
                    raise Untranslatable("expression statement in a closure")
        if kind == "for_each":
            if b[2] is not None and not self.mut_call(b[2], mutvar, lines):
                raise Untranslatable("for_each closure with a value")
            if self.lookup(mutvar) != item: raise Untranslatable("the `&mut` pattern variable is shadowed in the closure body")
            v, t = lean_id(mutvar), item
        else:
            if b[2] is None: raise Untranslatable("map closure without a value")
            v, t = self.ex(b[2], lines)
            if not (t in SCALARS or (isinstance(t, tuple) and t[0] in ("elem", "tuple"))):
                raise Untranslatable(f"closure value of type {show(t)}")
        self.scope.pop()
        return f"(fun {pat} => (do " + "; ".join(lines + [f"pure {v}"]) + "))", t

    def mut_call(self, e, mutvar, lines):
        """`f(x)` with `f: Fn(&mut T)` the closure parameter and `x` the `&mut` element handed out: `let x := f x`"""
        if not (e[0] == "call" and len(e[1]) == 1 and e[1][0] in self.ops and self.lookup(e[1][0]) is None): return False
        at, kind, rt = self.ops[e[1][0]]
        if kind != "mut": return False
        if e[2] != [("path", [mutvar])]: raise Untranslatable(f"{e[1][0]}: the argument is not the element handed out by `par_iter_mut()`")
        if self.lookup(mutvar) != ("elem", at, "mut"): raise Untranslatable(f"{e[1][0]}: argument type")
        lines.append(f"let {lean_id(mutvar)} := {lean_id(e[1][0])} {lean_id(mutvar)}")
        return True

    # -- function body
    def state(self):
        return f"({{ order := self_.order, shape := self_.shape, data := {self.data} }} : Matreex.Matrix {self.L})"

    def fn_block(self, b, ind):
        pad = "  " * ind
        sts, tail = b[1], b[2]
        out = []
        for n, st in enumerate(sts):
            e = st[2] if st[0] == "let" else st[1]
            if st[0] == "let":
                if st[1][0] != "pvar": raise Untranslatable("let with a pattern")
                name = st[1][1]; self.check_name(name)
            if e[0] == "try":
                if self.ast["ret"][0] != "result": raise Untranslatable("`?` in a function that does not return a Result")
                lines = []; v, t = self.ex(e[1], lines)
                if not (isinstance(t, tuple) and t[0] == "result"): raise Untranslatable("`?` on something that is not a Result")
                out += [pad + l for l in lines]
                self.scope.append({})
                binder = "_"
                if st[0] == "let":
                    binder = lean_id(name); self.scope[-1][name] = t[1]
                out.append(pad + f"bindErr {v} (fun {binder} => do")
                out += self.fn_block(("block", sts[n + 1:], tail), ind + 1)
                self.scope.pop()
                out[-1] += ")"
                return out
            if st[0] == "let":
                lines = []; v, t = self.ex(e, lines)
                if not (t in SCALARS or (isinstance(t, tuple) and t[0] in ("vec", "par"))):
                    raise Untranslatable(f"let {name}: value of type {show(t)}")
                out += [pad + l for l in lines] + [pad + f"let {lean_id(name)} := {v}"]
                self.scope[-1][name] = t
                continue
            if e[0] == "mcall" and e[2] == "for_each":
                if len(e[3]) != 1: raise Untranslatable("for_each: one argument")
                if self.ast["ret"][0] != "mutself": raise Untranslatable("for_each in a method that does not return `&mut Self`")
                base = e[1]
                if not (base[0] == "mcall" and base[2] == "par_iter_mut" and not base[3] and base[1][0] == "field"
                        and self.is_self(base[1][1]) and base[1][2] == "data"):
                    raise Untranslatable("for_each on something else than `self.data.par_iter_mut()`")
                lines = []; r, tr = self.ex(base, lines)
                c, tc = self.closure(e[3][0], tr[1], "for_each")
                self.drive()
                out += [pad + l for l in lines] + [pad + f"let self_data ← ParIter.forEachMut {r} {c} t"]
                self.data = "self_data"
                continue
            raise Untranslatable(f"statement: {e[0]} {e[2] if e[0] == 'mcall' else ''}".rstrip())
        if tail is None: raise Untranslatable("the function body has no value")
        ret = self.ast["ret"]
        if ret[0] == "mutself":
            if not self.is_self(tail): raise Untranslatable("the result is not `self`")
            return out + [pad + f"pure {self.state()}"]
        if ret[0] == "par":
            lines = []; v, t = self.ex(tail, lines)
            if t != ("par", ret[1]): raise Untranslatable(f"the body has type {show(t)}, declared {show(ret)}")
            self.drive()
            return out + [pad + l for l in lines] + [pad + f"ParIter.drive {v} t"]
        if tail[0] == "call" and tail[1] == ["Ok"] and len(tail[2]) == 1 and tail[2][0][0] == "struct" and tail[2][0][1] == ["Matrix"]:
            fl = tail[2][0][2]
            fields = dict(fl)
            if sorted(fields) != ["data", "order", "shape"] or len(fl) != 3: raise Untranslatable("Matrix { .. }: fields")
            vals = {}
            for f, _ in fl:                          # evaluation order of the text
                want = {"order": "Order", "shape": "AxisShape", "data": ("vec", self.U)}[f]
                lines = []; x, t = self.ex(fields[f], lines)
                if lines: raise Untranslatable("Matrix { .. }: effectful field")
                if t != want: raise Untranslatable(f"Matrix {{ .. }}: field {f} has type {show(t)}")
                vals[f] = x
            return out + [pad + f"pure (Except.ok ({{ order := {vals['order']}, shape := {vals['shape']}, data := {vals['data']} }} : Matreex.Matrix {self.U}))"]
        raise Untranslatable("the result is not Ok(Matrix { order, shape, data })")

    def signature(self, lean_name):
        tps = " ".join(self.tparams)
        es = "" if self.ast["ret"][0] == "par" else "(" + " ".join("es_" + x for x in self.tparams) + " : Nat) "
        bs = (" " + " ".join(self.binders)) if self.binders else ""
        return f"def {lean_name} {{{tps} : Type}} {es}(t : Par.Split) (self_ : Matreex.Matrix {self.L}){bs} :\n    {self.ret_ty}"

    def emit(self, lean_name):
        body = self.fn_block(self.ast["body"], 1)
        return self.signature(lean_name) + " := do\n" + "\n".join(body) + "\n"


# ------------------------------------------------------------------ jobs
MAP_SIG = "def {n} {{T U : Type}} (es_T es_U : Nat) (t : Par.Split) (self_ : Matreex.Matrix T) (f : T → U) :\n    M (Except Error (Matreex.Matrix U))"
ELEMS_SIG = "def {n} {{T : Type}} (t : Par.Split) (self_ : Matreex.Matrix T) :\n    M (List T)"
WITH_SIG = "def {n} {{T : Type}} (t : Par.Split) (self_ : Matreex.Matrix T) :\n    M (List (Index × T))"
JOBS = [
    ("par_apply", "Matrix.par_apply",
     "def {n} {{T : Type}} (es_T : Nat) (t : Par.Split) (self_ : Matreex.Matrix T) (f : T → T) :\n    M (Matreex.Matrix T)"),
    ("par_map", "Matrix.par_map", MAP_SIG),
    ("par_map_ref", "Matrix.par_map_ref", MAP_SIG),
    ("par_iter_elements", "Matrix.par_iter_elements", ELEMS_SIG),
    ("par_iter_elements_mut", "Matrix.par_iter_elements_mut", ELEMS_SIG),
    ("into_par_iter_elements", "Matrix.into_par_iter_elements", ELEMS_SIG),
    ("par_iter_elements_with_index", "Matrix.par_iter_elements_with_index", WITH_SIG),
    ("par_iter_elements_mut_with_index", "Matrix.par_iter_elements_mut_with_index", WITH_SIG),
    ("into_par_iter_elements_with_index", "Matrix.into_par_iter_elements_with_index", WITH_SIG),
]

HEADER = """/-
GENERATED by translate/t16.py from /repo/src/parallel.rs on every run — do not edit.
The nine rayon wrappers of `Matrix<T>` as functions of one extra argument `t : Par.Split`: how rayon happened to split
the index range on this call (Model/Par.lean).  The source iterator, the adaptors and their order, the closures, the
arguments of `check_size` and `Index::from_flattened`, the `let`s and the fields of the result come from the Rust text;
`self.data.par_iter()` / `par_iter_mut()` / `into_par_iter()` is `parSource self_.data.toList`, the adaptors are the
functions below, and a parallel execution (`collect`, `for_each`, or handing the iterator to the caller, who drives it) is
`Par.parMapIdx` along `t`, the results concatenated in index order.  `es_X` is `size_of::<X>()`.
-/
import Matreex.Gen.Core
import Matreex.Model.Matrix
import Matreex.Model.Construct
import Matreex.Model.Par

set_option linter.unusedVariables false

namespace Matreex.Gen
open Matreex

/-- an indexed parallel iterator over the element vector: the vector it was made from, and what the adaptor stack yields
for the element stored at GLOBAL position `i` (a fault if a closure of the stack panics there) -/
structure ParIter (σ β : Type) where
  src : List σ
  item : Nat → σ → M β

/-- `data.par_iter()` / `par_iter_mut()` / `into_par_iter()`: the item at position `i` is the `i`-th element -/
def parSource {σ : Type} (xs : List σ) : ParIter σ σ := ⟨xs, fun _ x => pure x⟩

/-- `.enumerate()`: every item paired with its position in the WHOLE vector, position first -/
def ParIter.enumerate {σ β : Type} (p : ParIter σ β) : ParIter σ (Nat × β) :=
  ⟨p.src, fun i x => do let y ← p.item i x; pure (i, y)⟩

/-- `.map(closure)` -/
def ParIter.map {σ β γ : Type} (p : ParIter σ β) (f : β → M γ) : ParIter σ γ :=
  ⟨p.src, fun i x => do let y ← p.item i x; f y⟩

/-- one parallel execution along the split tree `t`: every leaf computes the items of its piece, knowing the global
position at which the piece starts (`Par.parMapIdx`); the results are put together in index order; a panic in a closure
is the panic of the whole execution -/
def ParIter.drive {σ β : Type} (p : ParIter σ β) (t : Par.Split) : M (List β) :=
  (Par.parMapIdx p.item t 0 p.src).mapM id

/-- `.collect()` into a `Vec` of elements of size `es`: the allocation for the known length, then the execution -/
def ParIter.collect {σ β : Type} (es : Nat) (p : ParIter σ β) (t : Par.Split) : M (Array β) := do
  Vec.reserveExact es p.src.length
  let items ← p.drive t
  pure items.toArray

/-- `.for_each(closure)` on `data.par_iter_mut()`: slot `i` ends up holding what the closure leaves in it -/
def ParIter.forEachMut {σ : Type} (p : ParIter σ σ) (g : σ → M σ) (t : Par.Split) : M (Array σ) := do
  let items ← (p.map g).drive t
  pure items.toArray

"""


def run_t16(root, tables=None):
    """tables = (mtable, ftable) as T2 left them after its own run (whether `Index::from_flattened` exists in Gen/Core.lean)"""
    out, done, failed = [], [], []
    if tables is None:
        t2.run(root)
        tables = t2.run.tables
    _, ftable = tables
    try:
        src = strip_rust_comments(open(f"{root}/parallel.rs").read())
    except OSError:
        src = ""
    delegates = lib_delegates(root)
    shape = lambda s: re.sub(r"\((\w+|«\w+») :", "(_ :", re.sub(r"\s+", " ", s))
    for name, lean_name, fallback in JOBS:
        try:
            impl_param, text = locate(src, name)
            ast = F16(drop_lifetimes(lex(text))).header()
            if ast["name"] != name: raise Untranslatable(f"fn {name}: found `{ast['name']}`")
            body = Fn16(impl_param, ast, delegates, ftable).emit(lean_name)
            want = fallback.format(n=lean_name)
            got = body[:body.index(" := do")]
            if shape(got) != shape(want): raise Untranslatable(f"signature changed: {re.sub(chr(10), ' ', got)}")
            out.append(body); done.append(lean_name)
        except Untranslatable as ex:
            failed.append((lean_name, str(ex)))
            out.append(fallback.format(n=lean_name) + " :=\n  .error (.panic \"untranslatable\")\n")
        except Exception as ex:      # a malformed function must not stop the pipeline: report it, emit the stub
            failed.append((lean_name, f"not parsed ({type(ex).__name__}: {ex})"))
            out.append(fallback.format(n=lean_name) + " :=\n  .error (.panic \"untranslatable\")\n")
    return HEADER + "\n".join(out) + "\nend Matreex.Gen\n", done, failed


if __name__ == "__main__":
    root = sys.argv[1] if len(sys.argv) > 1 else "/repo/src"
    text, done, failed = run_t16(root)
    print(text)
    print(done, failed, file=sys.stderr)
