#!/usr/bin/env python3
"""Translator T15 ("fmt"): `impl Debug for Matrix<T>` / `impl Display for Matrix<T>` of src/fmt.rs, the constants they
use and the helper type `Lines`  ->  Lean 4 (`Gen/T15Gen.lean`), regenerated on every run.

What is read from the text
    const NAME: &str = "..";  const NAME: usize = N;        every top-level constant (value from the text)
    macro_rules! write_index                                the `#[cfg(not(feature = "pretty-debug"))]` arm must be exactly
                                                            `($dst:expr, $($arg:tt)*) => { write!($dst, $($arg)*) };`;
                                                            then `write_index!` is read as `write!`.  The colour arm
                                                            (`#[cfg(feature = "pretty-debug")]`) is OUTSIDE the model.
    struct Lines(VecDeque<String>);                         `Matreex.Fmt.Lines` = the list of lines, front first
    Lines::from_debug / from_display / width / height, <Lines as Iterator>::next
    <Matrix<T> as fmt::Debug>::fmt, <Matrix<T> as fmt::Display>::fmt

The two `fmt` functions become state-passing programs in `M = Except Fault`: the text written to `f` so far is the local
`out : List Char` (it starts empty; the function's value is the text written when it returns).  `f.write_*` never fails
(a `String` sink): `write!(..)?` always continues, and the `fmt::Result` is always `Ok(())`.  `render : T → List Char` is
what `format!("{:?}", e)` (in Debug::fmt) resp. `format!("{}", e)` (in Display::fmt) produces for an element.
`es_lines` is `size_of::<Lines>()` (32 on the 64-bit targets), used by the capacity check of `Vec::with_capacity`.

Accepted statement language of the two `fmt` bodies (anything else: `Untranslatable`, reported in the JSON summary; a stub
that faults is emitted):

    if COND { STMTS; return WRITE; }                        early return (top level of the function only): if-then-else
    if COND { .. } else { .. }   as the last statement, both blocks ending in a result
    let [mut] x = EXPR;                                     no pattern, no type annotation, no shadowing
    let mut v = Vec::with_capacity(N); / Vec::new();        `Vec.reserveExact es_lines N`, then `#[]`
    x = EXPR;                                               x a `let mut` local of the same type
    v.push(x);                                              `v.push x`
    WRITE?;                                                 `let out := out ++ PIECES`
    if COND { STMTS } [else { STMTS }]                      the locals assigned in the blocks (and `out`) are threaded
    for x in A..B { STMTS }   for _ in A..B { .. }          `List.foldlM BODY state (Matreex.Fmt.range A B)`
    for x in self.data.iter() { STMTS }  (or `&self.data`)  `List.foldlM BODY state self_data.toList`
         BODY is emitted as its own definition `Fmt.<Trait>.fmt_loop<k>` (k = position of the `for` in the text, from 1):
         parameters = the outer locals it reads (in order of first use), the carried state (the locals it assigns, in
         order of first assignment, `out` first), the item.  No `break` / `continue` / `return` inside a loop.
    match v[i].next() { None => WRITE?, Some(x) => WRITE?, }   arms in either order, an arm may be a block of statements:
         `Matreex.Fmt.vecIndex v i` (checked indexing: a panic), `Fmt.Lines.next` on the element, the element replaced
         by the popped deque (`v.set! i ..`), then the arm
    result: WRITE  |  return WRITE;  |  Ok(())  |  return Ok(());
    WRITE ::= write!(f, FMT [, ARGS]) | writeln!(f [, FMT [, ARGS]]) | write_index!(f, FMT [, ARGS])      f = the formatter parameter
    FMT   ::= literal text, `{{`, `}}`, `{X}`, `{X:W$}`, `{X:<W$}`, `{X:>W$}`, `{}` / `{:W$}` .. with X among ARGS (identifiers);
              X, W: constants or locals; W may also be a literal number.  No fill, sign, `#`, `0`, precision, `?`.

Expressions: integer literals, locals, constants, `+ - *` (checked) `/ %`, comparisons, `! && ||`, and by name
    self.is_empty(), self.size()        `self_data.size = 0`, `self_data.size`   (only while src/lib.rs defines them as
                                         `self.data.is_empty()` / `self.data.len()`);  self.data.len() / .is_empty() likewise
    self.shape()                        T2's `Gen.AxisShape.to_shape self_.shape self_.order` (only while src/lib.rs defines it as
                                         `self.shape.to_shape(self.order)`);  s.nrows() / s.ncols() = `Gen.Shape.nrows / ncols`
    self.nrows() / self.ncols()         T2's `Gen.Matrix.nrows / ncols`
    self.order, self.shape              the header fields
    Index::new(a, b)                    `Gen.Index.new a b`;   i.to_flattened(o, s) = T2's `Gen.Index.to_flattened i o s`
    N.to_string().chars().count()       `(toString N).length` (decimal digits; also `N.to_string().len()`)
    Lines::from_debug(e) (Debug::fmt) / Lines::from_display(e) (Display::fmt), l.width(), l.height()   the generated helpers
Format pieces:  literal text = the characters;  `{S}` = S;  `{S:W$}` / `{S:<W$}` = `Matreex.Fmt.padRight S W`;
    `{S:>W$}` = `Matreex.Fmt.padLeft S W`  (S a string);  `{n}` = `Matreex.Fmt.natText n`;  `{n:W$}` / `{n:>W$}` =
    `Matreex.Fmt.padLeftNat n W`;  `{n:<W$}` = `padRight (natText n) W`  (n: usize);  writeln! appends '\\n'.

`Lines` helpers (one expression each, matched structurally):
    Self(format!("{:?}", P).lines().map(String::from).collect())     `Matreex.Fmt.lines (render P)`   (`{}` for from_display)
    self.0.iter().map(|l| l.chars().count()).max().unwrap_or(N)      `(List.max? (List.map (fun l => l.length) self_)).getD N`
    self.0.len()                                                     `self_.length`
    self.0.pop_front()                                               `Matreex.Fmt.popFront self_`
"""
import re, sys, os
sys.path.insert(0, os.path.dirname(os.path.abspath(__file__)))
import t2
from t2 import Untranslatable
from t6 import lean_id

# =================================================================== lexer
TOK = re.compile(r'''
    (?P<ws>\s+|//[^\n]*|/\*.*?\*/)
  | (?P<str>"(?:[^"\\]|\\.)*")
  | (?P<chr>'(?:[^'\\]|\\.)')
  | (?P<life>'[A-Za-z_][A-Za-z0-9_]*)
  | (?P<num>\d[\d_]*)
  | (?P<id>[A-Za-z_][A-Za-z0-9_]*)
  | (?P<op>::|->|=>|==|!=|>=|<=|&&|\|\||\.\.|[-+*/%<>=!&|.,;:(){}\[\]?\#$@^~])
''', re.X | re.S)
ESC = {"n": "\n", "t": "\t", "\\": "\\", '"': '"', "'": "'", "r": "\r", "0": "\0"}


def unescape(body):
    out, i = [], 0
    while i < len(body):
        c = body[i]
        if c == "\\":
            i += 1
            if i >= len(body) or body[i] not in ESC: raise Untranslatable(f"string escape \\{body[i:i+1]}")
            out.append(ESC[body[i]])
        else:
            out.append(c)
        i += 1
    return "".join(out)


def lex(src):
    out, i = [], 0
    while i < len(src):
        m = TOK.match(src, i)
        if not m: raise Untranslatable(f"lexer: unexpected {src[i:i+20]!r}")
        i = m.end(); k = m.lastgroup
        if k in ("ws", "life"): continue
        v = m.group(k)
        if k == "str": v = unescape(v[1:-1])
        out.append((k, v))
    return out


def joined(toks):
    return " ".join(("<str>" if k == "str" else v) for k, v in toks)


# =================================================================== parser
class Ps:
    def __init__(self, toks): self.t, self.i = toks, 0
    def peek(self, k=0): return self.t[self.i + k] if self.i + k < len(self.t) else ("eof", "")
    def next(self):
        tok = self.peek(); self.i += 1; return tok
    def at(self, v, k=0):
        tok = self.peek(k); return tok[0] != "str" and tok[1] == v
    def eat(self, v):
        if not self.at(v): raise Untranslatable(f"expected {v!r}, got {self.peek()[1]!r}")
        self.i += 1
    def ident(self, what):
        k, v = self.next()
        if k != "id": raise Untranslatable(f"{what}: expected a name, got {v!r}")
        return v

    # ---- statements
    def block(self):
        self.eat("{"); out = []
        while not self.at("}"):
            if self.peek()[0] == "eof": raise Untranslatable("unterminated block")
            out.append(self.stmt())
        self.eat("}")
        return out

    def stmt(self):
        k, v = self.peek()
        if k == "id" and v in ("while", "loop", "break", "continue", "unsafe", "const", "static", "fn", "struct", "impl", "use",
                               "macro_rules", "mod", "enum", "trait", "type"):
            raise Untranslatable(f"`{v}` statement")
        if k != "str" and v == "#": raise Untranslatable("attribute inside a function body")
        if k == "id" and v == "let":
            self.next(); mut = False
            if self.at("mut"): self.next(); mut = True
            kk, name = self.next()
            if kk != "id": raise Untranslatable("let with a pattern")
            if self.at(":"): raise Untranslatable("let with a type annotation")
            if self.at("else"): raise Untranslatable("let-else")
            self.eat("="); e = self.expr(); self.eat(";")
            return ("let", mut, name, e)
        if k == "id" and v == "return":
            self.next()
            if self.at(";"): raise Untranslatable("`return;` without a value")
            e = self.expr()
            if self.at(";"): self.next()
            return ("return", e)
        if k == "id" and v == "for":
            self.next(); kk, var = self.next()
            if kk != "id": raise Untranslatable("for: pattern instead of a loop variable")
            self.eat("in"); it = self.expr(0, True, True)
            return ("for", var, it, self.block())
        if k == "id" and v == "if":
            self.next()
            if self.at("let"): raise Untranslatable("if-let")
            c = self.expr(0, True); t = self.block(); f = None
            if self.at("else"):
                self.next()
                f = [self.stmt()] if self.at("if") else self.block()
            if self.at(";"): self.next()
            return ("if", c, t, f)
        if k == "id" and v == "match":
            e = self.expr()
            if self.at(";"): self.next()
            elif e[0] != "match": raise Untranslatable("match used as a value")
            return ("matchs", e)
        e = self.expr()
        if self.at(";"):
            self.next(); return ("expr", e)
        if self.at("="):
            self.next(); rhs = self.expr(); self.eat(";")
            return ("assign", e, rhs)
        if self.at("}"): return ("tail", e)
        raise Untranslatable(f"unexpected {self.peek()[1]!r} after an expression")

    # ---- expressions
    PREC = {"||": 1, "&&": 2, "==": 3, "!=": 3, "<": 3, ">": 3, "<=": 3, ">=": 3, "+": 5, "-": 5, "*": 6, "/": 6, "%": 6}

    def expr(self, minp=0, nostruct=False, rng=False):
        lhs = self.unary()
        while True:
            k, v = self.peek()
            if k == "str": break
            if v == "as": raise Untranslatable("`as` cast")
            if v == ".." and rng and minp == 0:
                self.next()
                if self.at("="): raise Untranslatable("inclusive range")
                if self.at("{"): raise Untranslatable("half-open range `a..`")
                return ("range", lhs, self.expr(1, nostruct))
            p = self.PREC.get(v)
            if k != "op" or p is None or p < minp: break
            self.next()
            lhs = ("bin", v, lhs, self.expr(p + 1, nostruct))
        return lhs

    def unary(self):
        k, v = self.peek()
        if k != "str":
            if v == "!": self.next(); return ("not", self.unary())
            if v == "-": raise Untranslatable("unary minus")
            if v == "*": self.next(); return self.unary()                # deref: erased
            if v == "&":
                self.next()
                if self.at("mut"): self.next()
                return self.unary()                                      # borrow: erased
        return self.postfix(self.atom())

    def postfix(self, e):
        while True:
            if self.at("."):
                self.next(); k, name = self.next()
                if k not in ("id", "num"): raise Untranslatable(f"field or method name {name!r}")
                if self.at("::"): raise Untranslatable("turbofish on a method")
                if self.at("("):
                    if k != "id": raise Untranslatable("method name")
                    e = ("mcall", e, name, self.args())
                else:
                    e = ("field", e, name)
            elif self.at("["):
                self.next(); i = self.expr(); self.eat("]")
                e = ("index", e, i)
            elif self.at("?"):
                self.next(); e = ("try", e)
            else:
                return e

    def args(self):
        self.eat("("); xs = []
        while not self.at(")"):
            xs.append(self.expr())
            if self.at(","): self.next()
            elif not self.at(")"): raise Untranslatable(f"argument list: unexpected {self.peek()[1]!r}")
        self.eat(")")
        return xs

    def atom(self):
        k, v = self.peek()
        if k == "num": self.next(); return ("num", int(v.replace("_", "")))
        if k == "str": self.next(); return ("str", v)
        if k == "chr": raise Untranslatable("character literal")
        if v == "(":
            self.next()
            if self.at(")"): self.next(); return ("unit",)
            e = self.expr()
            if self.at(","): raise Untranslatable("tuple")
            self.eat(")"); return e
        if v == "|" or v == "||" or v == "move":
            if v == "move": raise Untranslatable("move closure")
            if v == "||": raise Untranslatable("closure without parameters")
            self.next(); p = self.ident("closure parameter"); self.eat("|")
            if self.at("{"): raise Untranslatable("closure with a block body")
            return ("closure", p, self.expr())
        if v == "match":
            self.next(); scrut = self.expr(0, True); self.eat("{"); arms = []
            while not self.at("}"):
                name = self.ident("match pattern")
                if name == "Some":
                    self.eat("("); x = self.ident("pattern variable"); self.eat(")"); pat = ("some", x)
                elif name == "None": pat = ("none",)
                else: raise Untranslatable(f"match pattern {name}")
                if self.at("if"): raise Untranslatable("match guard")
                self.eat("=>")
                if self.at("{"):
                    body = ("blockexpr", self.block())
                    if self.at(","): self.next()
                else:
                    body = self.expr()
                    if self.at(","): self.next()
                    elif not self.at("}"): raise Untranslatable("match arm: expected `,`")
                arms.append((pat, body))
            self.eat("}")
            return ("match", scrut, arms)
        if v == "if": raise Untranslatable("`if` used as a value")
        if v == "{": raise Untranslatable("block used as a value")
        if k == "id":
            path = [self.next()[1]]
            while self.at("::"):
                self.next()
                if self.at("<"): raise Untranslatable("turbofish")
                path.append(self.ident("path"))
            if self.at("!"):
                if self.at("=", 1) : return ("path", path)               # `x != y` is lexed as one token; defensive
                self.next()
                if len(path) != 1: raise Untranslatable("macro path")
                if not self.at("("): raise Untranslatable(f"macro {path[0]}! with a delimiter other than ( )")
                return ("macro", path[0], self.args())
            if self.at("("): return ("call", path, self.args())
            return ("path", path)
        raise Untranslatable(f"unexpected token {v!r}")


# =================================================================== locating items
def matching(toks, i):
    """index just past the bracket group that opens at toks[i]"""
    opn = toks[i][1]; cls = {"{": "}", "(": ")", "[": "]"}[opn]
    depth = 0
    while i < len(toks):
        k, v = toks[i]
        if k != "str":
            if v == opn: depth += 1
            elif v == cls:
                depth -= 1
                if depth == 0: return i + 1
        i += 1
    raise Untranslatable("unbalanced brackets")


def top_items(toks):
    """(start, header_end (index of `{` / `;`), end) of every top-level item, attributes included in the header"""
    items, i = [], 0
    while i < len(toks):
        start = i
        while i < len(toks):
            k, v = toks[i]
            if k != "str" and v == ";": items.append((start, i, i + 1)); i += 1; break
            if k != "str" and v in ("(", "["): i = matching(toks, i); continue
            if k != "str" and v == "{":
                end = matching(toks, i); items.append((start, i, end)); i = end; break
            i += 1
        else:
            break
    return items


def fns_in(toks, lo, hi):
    """{name: (header tokens, body tokens incl. braces)} for the `fn`s directly inside the impl body toks[lo:hi]"""
    out, i = {}, lo + 1
    while i < hi - 1:
        k, v = toks[i]
        if k == "id" and v == "fn":
            j = i
            while not (toks[j][0] != "str" and toks[j][1] == "{"):
                if toks[j][0] != "str" and toks[j][1] in ("(", "["): j = matching(toks, j); continue
                j += 1
            end = matching(toks, j)
            name = toks[i + 1][1]
            if name in out: raise Untranslatable(f"two functions named {name}")
            out[name] = (toks[i:j], toks[j:end]); i = end; continue
        if k != "str" and v == "{": i = matching(toks, i); continue
        i += 1
    return out


FMT_PATH = r"(?:(?:(?:std|core) :: )?fmt :: )?"


# =================================================================== Lean text helpers
def char_lit(c):
    if c == "\n": return "'\\n'"
    if c == "\t": return "'\\t'"
    if c == "\r": return "'\\r'"
    if c == "\\": return "'\\\\'"
    if c == "'": return "'\\''"
    if c == "\0" or ord(c) < 32: raise Untranslatable("control character in a string")
    return f"'{c}'"


def chars_lit(s):
    return "[" + ", ".join(char_lit(c) for c in s) + "]"


LT = {"usize": "Nat", "bool": "Bool", "str": "List Char", "lines": "Matreex.Fmt.Lines", "cache": "Array Matreex.Fmt.Lines",
      "shape": "Shape", "ashape": "AxisShape", "order": "Order", "index": "Index", "elem": "T", "hdr": "Hdr", "data": "Array T",
      "render": "T → List Char"}
BINDABLE = ("usize", "bool", "str", "lines", "shape", "index", "ashape", "order")
RESERVED = set("""out st_ self_ self_data render es_lines T x_ pure bind decide uadd usub umul udiv urem min max fun do let if then
 else match with M Nat List Array Hdr AxisShape Shape Order Index Vec Matreex Fmt none some Option toString Char Bool true false Unit""".split())
G = "Matreex.Gen.Fmt."


def check_name(name, what):
    if name in RESERVED or re.fullmatch(r"t\d+", name):
        raise Untranslatable(f"{what} `{name}` collides with a name of the generated code")


def tuple_get(i, n, base="st_"):
    if n == 1: return base
    return base + ".2" * i + (".1" if i < n - 1 else "")


# =================================================================== format strings
SPEC = re.compile(r"(?P<arg>[A-Za-z_][A-Za-z0-9_]*)?(?::(?P<align>[<>^])?(?P<width>[A-Za-z_][A-Za-z0-9_]*\$|\d+)?(?P<ty>\?)?)?")


def parse_fmt(s):
    """-> list of ("lit", text) | ("arg", name|None, align|None, width|None, debug)"""
    out, i, lit = [], 0, []
    while i < len(s):
        c = s[i]
        if c == "{":
            if s[i + 1:i + 2] == "{": lit.append("{"); i += 2; continue
            j = s.find("}", i)
            if j < 0: raise Untranslatable("format string: unclosed `{`")
            if lit: out.append(("lit", "".join(lit))); lit = []
            spec = s[i + 1:j]
            m = SPEC.fullmatch(spec)
            if not m: raise Untranslatable(f"format spec {{{spec}}} (fill, sign, `#`, `0`, precision and positional indices are not in the language)")
            if m.group("align") == "^": raise Untranslatable("centre alignment")
            out.append(("arg", m.group("arg"), m.group("align"), m.group("width"), m.group("ty") == "?"))
            i = j + 1; continue
        if c == "}":
            if s[i + 1:i + 2] == "}": lit.append("}"); i += 2; continue
            raise Untranslatable("format string: unmatched `}`")
        lit.append(c); i += 1
    if lit: out.append(("lit", "".join(lit)))
    return out


# =================================================================== the two fmt functions
class Var:
    def __init__(self, lean, ty, mut): self.lean, self.ty, self.mut = lean, ty, mut


class Frame:
    def __init__(self, loop=False):
        self.vars = {}; self.loop = loop; self.captures = {}


class Fn15:
    def __init__(self, trait, writer, consts, env):
        self.trait, self.writer, self.consts, self.env = trait, writer, consts, env
        self.n = 0; self.nloops = 0; self.defs = []
        root = Frame()
        root.vars["@self_"] = Var("self_", "hdr", False)
        root.vars["@self_data"] = Var("self_data", "data", False)
        root.vars["@render"] = Var("render", "render", False)
        root.vars["@es_lines"] = Var("es_lines", "usize", False)
        root.vars["@out"] = Var("out", "str", True)
        self.frames = [root]
        if writer != "f": check_name(writer, "parameter")

    # ---- scope
    def fresh(self):
        self.n += 1; return f"t{self.n}"

    def peekvar(self, name):
        for fr in reversed(self.frames):
            if name in fr.vars: return fr.vars[name]
        return None

    def lookup(self, name):
        for k in range(len(self.frames) - 1, -1, -1):
            if name in self.frames[k].vars:
                v = self.frames[k].vars[name]
                for j in range(k + 1, len(self.frames)):
                    if self.frames[j].loop: self.frames[j].captures.setdefault(name, v)
                return v
        return None

    def use(self, key): return self.lookup(key).lean

    def bind(self, name, ty, mut):
        check_name(name, "local")
        if name == self.writer: raise Untranslatable(f"local `{name}` shadows the formatter")
        if self.peekvar(name) is not None or name in self.consts: raise Untranslatable(f"`let {name}` shadows a name in scope")
        self.frames[-1].vars[name] = Var(lean_id(name), ty, mut)

    # ---- which outer variables a block assigns (in order of first assignment; "@out" = the text written)
    def modified(self, sts):
        out = []
        def add(n):
            if n not in out: out.append(n)
        def is_write(e):
            return e[0] == "macro" and e[1] in ("write", "writeln", "write_index")
        def walk_expr(e):
            if e[0] == "try" and is_write(e[1]): add("@out")
            elif is_write(e): add("@out")
            elif e[0] == "mcall" and e[2] == "push" and e[1][0] == "path" and len(e[1][1]) == 1: add(e[1][1][0])
            elif e[0] == "blockexpr": walk(e[1])
        def walk(ss):
            for st in ss:
                k = st[0]
                if k == "assign":
                    if st[1][0] == "path" and len(st[1][1]) == 1: add(st[1][1][0])
                elif k in ("expr", "tail", "return"): walk_expr(st[1])
                elif k == "if":
                    walk(st[2]); walk(st[3] or [])
                elif k == "for": walk(st[3])
                elif k == "matchs":
                    m = st[1]; sc = m[1]
                    if sc[0] == "mcall" and sc[1][0] == "index" and sc[1][1][0] == "path" and len(sc[1][1][1]) == 1:
                        add(sc[1][1][1][0])
                    for _, body in m[2]: walk_expr(body)
        walk(sts)
        return [n for n in out if self.peekvar(n) is not None]

    def state_ty(self, names):
        return " × ".join(LT[self.peekvar(n).ty] for n in names)

    def state_tuple(self, names):
        xs = [self.use(n) for n in names]
        return xs[0] if len(xs) == 1 else "(" + ", ".join(xs) + ")"

    def unpack(self, names, pad, base="st_"):
        if len(names) == 1: return []
        return [pad + f"let {self.peekvar(n).lean} : {LT[self.peekvar(n).ty]} := {tuple_get(i, len(names), base)}" for i, n in enumerate(names)]

    # ---- expressions
    def ex(self, e, lines):
        k = e[0]
        if k == "num": return str(e[1]), "usize"
        if k == "path":
            p = e[1]
            if len(p) == 1:
                if p[0] in ("true", "false"): return p[0], "bool"
                if p[0] in self.consts: return G + p[0], self.consts[p[0]]
                v = self.lookup(p[0])
                if v is None or p[0].startswith("@"): raise Untranslatable(f"`{p[0]}` is not a constant or a local in scope")
                return v.lean, v.ty
            if p == ["usize", "MAX"]: return "usizeMax", "usize"
            raise Untranslatable("path " + "::".join(p))
        if k == "field":
            if e[1] == ("path", ["self"]):
                if e[2] == "order": return self.use("@self_") + ".order", "order"
                if e[2] == "shape": return self.use("@self_") + ".shape", "ashape"
            raise Untranslatable(f"field access .{e[2]}")
        if k == "not":
            a, t = self.ex(e[1], lines)
            if t != "bool": raise Untranslatable("`!` on a non-bool")
            return f"(!{a})", "bool"
        if k == "bin":
            op = e[1]
            if op in ("&&", "||"):
                a, ta = self.ex(e[2], lines); rl = []; b, tb = self.ex(e[3], rl)
                if rl: raise Untranslatable("effectful right operand of && / ||")
                if (ta, tb) != ("bool", "bool"): raise Untranslatable(f"`{op}` on non-bools")
                return f"({a} {op} {b})", "bool"
            (a, ta), (b, tb) = self.ex(e[2], lines), self.ex(e[3], lines)
            if op in ("+", "-", "*", "/", "%"):
                if (ta, tb) != ("usize", "usize"): raise Untranslatable(f"`{op}` on non-integers")
                f = {"+": "uadd", "-": "usub", "*": "umul", "/": "udiv", "%": "urem"}[op]
                t = self.fresh(); lines.append(f"let {t} ← {f} {a} {b}"); return t, "usize"
            if op in ("==", "!="):
                if ta != tb or ta not in ("usize", "order", "shape", "ashape"): raise Untranslatable(f"`{op}` on {ta} and {tb}")
                return f"(decide ({a} {'=' if op == '==' else '≠'} {b}))", "bool"
            if op in ("<", ">", "<=", ">="):
                if (ta, tb) != ("usize", "usize"): raise Untranslatable(f"`{op}` on non-integers")
                return f"(decide ({a} {op.replace('<=', '≤').replace('>=', '≥')} {b}))", "bool"
            raise Untranslatable(f"operator {op}")
        if k == "mcall": return self.mcall(e, lines)
        if k == "call": return self.call(e, lines)
        if k == "try": raise Untranslatable("`?` on something that is not a write")
        if k == "macro": raise Untranslatable(f"{e[1]}! used as a value")
        raise Untranslatable(f"expression kind {k}")

    def eff(self, lines, text, ty):
        t = self.fresh(); lines.append(f"let {t} ← {text}"); return t, ty

    def mcall(self, e, lines):
        recv, name, args = e[1], e[2], e[3]
        selfdata = recv == ("field", ("path", ["self"]), "data")
        if recv == ("path", ["self"]) or selfdata:
            if name in ("size", "len") and not args and (selfdata) == (name == "len"):
                if not selfdata and "size" not in self.env["delegates"]:
                    raise Untranslatable("Matrix::size is not the plain delegation to `self.data.len()` in src/lib.rs")
                return self.use("@self_data") + ".size", "usize"
            if name == "is_empty" and not args:
                if not selfdata and "is_empty" not in self.env["delegates"]:
                    raise Untranslatable("Matrix::is_empty is not the plain delegation to `self.data.is_empty()` in src/lib.rs")
                return f"(decide ({self.use('@self_data')}.size = 0))", "bool"
            if not selfdata and name == "shape" and not args:
                if "shape" not in self.env["delegates"]:
                    raise Untranslatable("Matrix::shape is not the plain delegation `self.shape.to_shape(self.order)` in src/lib.rs")
                if "AxisShape.to_shape" not in self.env["t2"]: raise Untranslatable("AxisShape::to_shape was not translated by T2")
                s = self.use("@self_")
                return self.eff(lines, f"Matreex.Gen.AxisShape.to_shape {s}.shape {s}.order", "shape")
            if not selfdata and name in ("nrows", "ncols") and not args:
                if f"Matrix.{name}" not in self.env["t2"]: raise Untranslatable(f"Matrix::{name} was not translated by T2")
                return self.eff(lines, f"Matreex.Gen.Matrix.{name} {self.use('@self_')}", "usize")
            raise Untranslatable(f"method {'self.data' if selfdata else 'self'}.{name}()")
        # N.to_string().chars().count()  /  N.to_string().len()
        if name in ("count", "len") and not args:
            inner = recv
            if name == "count":
                inner = recv[1] if recv[0] == "mcall" and recv[2] == "chars" and not recv[3] else None
            if inner is not None and inner[0] == "mcall" and inner[2] == "to_string" and not inner[3]:
                a, t = self.ex(inner[1], lines)
                if t != "usize": raise Untranslatable("to_string() on something that is not a usize")
                return f"(toString {a}).length", "usize"
        r, t = self.ex(recv, lines)
        av = [self.ex(a, lines) for a in args]
        at = [x[1] for x in av]; av = [x[0] for x in av]
        if t == "shape" and name in ("nrows", "ncols") and not args:
            if f"Shape.{name}" not in self.env["t2"]: raise Untranslatable(f"Shape::{name} was not translated by T2")
            return f"(Matreex.Gen.Shape.{name} {r})", "usize"
        if t == "lines" and name in ("width", "height") and not args:
            if name not in self.env["lines"]: raise Untranslatable(f"Lines::{name} was not translated")
            return f"({G}Lines.{name} {r})", "usize"
        if t == "index" and name == "to_flattened" and at == ["order", "ashape"]:
            if "Index.to_flattened" not in self.env["t2"]: raise Untranslatable("Index::to_flattened was not translated by T2")
            return self.eff(lines, f"Matreex.Gen.Index.to_flattened {r} {av[0]} {av[1]}", "usize")
        if t == "usize" and name in ("min", "max") and at == ["usize"]: return f"({name} {r} {av[0]})", "usize"
        raise Untranslatable(f"method .{name}/{len(args)} on {t}")

    def call(self, e, lines):
        p, args = e[1], e[2]
        if p == ["Index", "new"] and len(args) == 2:
            if "Index.new" not in self.env["t2"]: raise Untranslatable("Index::new was not translated by T2")
            (a, ta), (b, tb) = self.ex(args[0], lines), self.ex(args[1], lines)
            if (ta, tb) != ("usize", "usize"): raise Untranslatable("Index::new on non-integers")
            return f"(Matreex.Gen.Index.new {a} {b})", "index"
        if len(p) == 2 and p[0] == "Lines" and p[1] in ("from_debug", "from_display") and len(args) == 1:
            want = "from_debug" if self.trait == "Debug" else "from_display"
            if p[1] != want: raise Untranslatable(f"Lines::{p[1]} inside `impl {self.trait}` (`render` stands for the {self.trait} text)")
            if p[1] not in self.env["lines"]: raise Untranslatable(f"Lines::{p[1]} was not translated")
            a, t = self.ex(args[0], lines)
            if t != "elem": raise Untranslatable(f"Lines::{p[1]}: the argument is not an element of `self.data`")
            return f"({G}Lines.{p[1]} {self.use('@render')} {a})", "lines"
        raise Untranslatable("call " + "::".join(p))

    # ---- writes
    def is_write(self, e):
        return e[0] == "macro" and e[1] in ("write", "writeln", "write_index")

    def write(self, e):
        """the `List Char` expression appended to `out`"""
        name, args = e[1], e[2]
        if name == "write_index" and not self.env["write_index_plain"]:
            raise Untranslatable("write_index!: the `#[cfg(not(feature = \"pretty-debug\"))]` arm is not `write!($dst, $($arg)*)`")
        if not args or args[0] != ("path", [self.writer]): raise Untranslatable(f"{name}!: the destination is not `{self.writer}`")
        pieces = []
        if len(args) == 1:
            if name != "writeln": raise Untranslatable(f"{name}! without a format string")
        else:
            if args[1][0] != "str": raise Untranslatable(f"{name}!: the format is not a string literal")
            rest = list(args[2:])
            for a in rest:
                if not (a[0] == "path" and len(a[1]) == 1): raise Untranslatable(f"{name}!: a format argument that is not an identifier")
            pos = 0; used = set()
            for pc in parse_fmt(args[1][1]):
                if pc[0] == "lit":
                    pieces.append(chars_lit(pc[1])); continue
                _, arg, align, width, dbg = pc
                if dbg: raise Untranslatable("`{:?}` in a write")
                if arg is None:
                    if pos >= len(rest): raise Untranslatable("format string: too few arguments")
                    arg = rest[pos][1][0]; used.add(pos); pos += 1
                x, tx = self.ex(("path", [arg]), [])
                if tx not in ("str", "usize"): raise Untranslatable(f"`{{{arg}}}`: neither a string nor a usize")
                if width is None:
                    if align is not None: raise Untranslatable("alignment without a width")
                    pieces.append(x if tx == "str" else f"(Matreex.Fmt.natText {x})"); continue
                if width.endswith("$"):
                    w, tw = self.ex(("path", [width[:-1]]), [])
                    if tw != "usize": raise Untranslatable(f"width `{width}` is not a usize")
                else:
                    w = str(int(width))
                if tx == "str":
                    pieces.append(f"(Matreex.Fmt.padLeft {x} {w})" if align == ">" else f"(Matreex.Fmt.padRight {x} {w})")
                else:
                    pieces.append(f"(Matreex.Fmt.padRight (Matreex.Fmt.natText {x}) {w})" if align == "<" else f"(Matreex.Fmt.padLeftNat {x} {w})")
            if len(used) != len(rest): raise Untranslatable("format string: unused arguments")
        if name == "writeln": pieces.append("['\\n']")
        return " ++ ".join(pieces)

    def emit_write(self, e, pad):
        o = self.lookup("@out")
        return [pad + f"let {o.lean} : List Char := {o.lean} ++ {self.write(e)}"]

    # ---- statements
    def ends_in_result(self, sts):
        if not sts: return False
        last = sts[-1]
        if last[0] in ("tail", "return"): return True
        return last[0] == "if" and last[3] is not None and self.ends_in_result(last[2]) and self.ends_in_result(last[3])

    def result(self, e, pad):
        if self.is_write(e): return self.emit_write(e, pad) + [pad + "pure " + self.use("@out")]
        if e == ("call", ["Ok"], [("unit",)]): return [pad + "pure " + self.use("@out")]
        raise Untranslatable("the result is neither a write nor Ok(())")

    def scoped(self, sts, ind, ctx):
        self.frames.append(Frame())
        try:
            return self.seq(sts, ind, ctx)
        finally:
            self.frames.pop()

    def seq(self, sts, ind, ctx):
        """ctx = ("fn",): the block ends in the function's result; ("state", names): it ends in `pure (names)`"""
        pad = "  " * ind
        out = []
        for i, st in enumerate(sts):
            k = st[0]; rest = sts[i + 1:]
            if k in ("tail", "return"):
                if ctx[0] != "fn": raise Untranslatable("a result inside a loop, a branch that falls through, or a match arm")
                if rest: raise Untranslatable("code after the result")
                return out + self.result(st[1], pad)
            if k == "let":
                _, mut, name, e = st
                if e[0] == "call" and e[1] in (["Vec", "with_capacity"], ["Vec", "new"]):
                    if not mut: raise Untranslatable("a `Vec` that is not `let mut`")
                    if e[1][1] == "with_capacity":
                        if len(e[2]) != 1: raise Untranslatable("Vec::with_capacity: one argument expected")
                        lines = []; n, t = self.ex(e[2][0], lines)
                        if t != "usize": raise Untranslatable("Vec::with_capacity: the argument is not a usize")
                        out += [pad + l for l in lines] + [pad + f"Vec.reserveExact {self.use('@es_lines')} {n}"]
                    elif e[2]: raise Untranslatable("Vec::new with arguments")
                    self.bind(name, "cache", True)
                    out.append(pad + f"let {lean_id(name)} : {LT['cache']} := #[]")
                    continue
                lines = []; v, t = self.ex(e, lines)
                if t not in BINDABLE: raise Untranslatable(f"let {name}: a value of a type that cannot be bound ({t})")
                self.bind(name, t, mut)
                out += [pad + l for l in lines] + [pad + f"let {lean_id(name)} : {LT[t]} := {v}"]
                continue
            if k == "assign":
                if not (st[1][0] == "path" and len(st[1][1]) == 1): raise Untranslatable("assignment to something that is not a local")
                v = self.lookup(st[1][1][0])
                if v is None or not v.mut or st[1][1][0].startswith("@") or v.ty not in BINDABLE:
                    raise Untranslatable(f"assignment to `{st[1][1][0]}`, which is not a `let mut` local")
                lines = []; r, t = self.ex(st[2], lines)
                if t != v.ty: raise Untranslatable(f"assignment to `{st[1][1][0]}`: type {t} instead of {v.ty}")
                out += [pad + l for l in lines] + [pad + f"let {v.lean} : {LT[t]} := {r}"]
                continue
            if k == "expr":
                e = st[1]
                if e[0] == "try" and self.is_write(e[1]):
                    out += self.emit_write(e[1], pad); continue
                if e[0] == "mcall" and e[2] == "push" and len(e[3]) == 1 and e[1][0] == "path" and len(e[1][1]) == 1:
                    v = self.lookup(e[1][1][0])
                    if v is None or v.ty != "cache" or not v.mut: raise Untranslatable("push on something that is not a `let mut` Vec")
                    lines = []; x, t = self.ex(e[3][0], lines)
                    if t != "lines": raise Untranslatable("push: the argument is not a `Lines`")
                    out += [pad + l for l in lines] + [pad + f"let {v.lean} : {LT['cache']} := {v.lean}.push {x}"]
                    continue
                if self.is_write(e): raise Untranslatable("a write whose result is dropped (no `?`)")
                raise Untranslatable("expression statement that is neither `WRITE?;` nor `v.push(x);`")
            if k == "if":
                _, c, t, f = st
                lines = []; cv, ct = self.ex(c, lines)
                if ct != "bool": raise Untranslatable("condition is not a bool")
                out += [pad + l for l in lines]
                if self.ends_in_result(t) and (f is None or self.ends_in_result(f)):
                    if ctx[0] != "fn": raise Untranslatable("`return` inside a loop or a branch")
                    if f is not None and rest: raise Untranslatable("code after the result")
                    if f is None and not rest: raise Untranslatable("the function body does not end in a result")
                    out.append(pad + f"if {cv} then do")
                    out += self.scoped(t, ind + 1, ctx)
                    out.append(pad + "else do")
                    out += self.scoped(f, ind + 1, ctx) if f is not None else self.seq(rest, ind + 1, ctx)
                    return out
                if self.ends_in_result(t) or (f is not None and self.ends_in_result(f)):
                    raise Untranslatable("an `if` of which only the else-branch, or only one of two branches, returns")
                names = self.modified(t + (f or []))
                if not names: raise Untranslatable("an `if` statement without effect on the locals or the output")
                target = "st_" if len(names) > 1 else self.peekvar(names[0]).lean
                out.append(pad + f"let {target} : {self.state_ty(names)} ← (if {cv} then do")
                out += self.scoped(t, ind + 2, ("state", names))
                out.append(pad + "  else do")
                out += self.scoped(f or [], ind + 2, ("state", names))
                out[-1] += ")"
                out += self.unpack(names, pad)
                continue
            if k == "for":
                out += self.loop(st, ind); continue
            if k == "matchs":
                out += self.match_next(st[1], ind); continue
            raise Untranslatable(f"statement kind {k}")
        if ctx[0] == "fn": raise Untranslatable("the function body does not end in a result")
        return out + [pad + "pure " + self.state_tuple(ctx[1])]

    def match_next(self, m, ind):
        pad = "  " * ind
        sc, arms = m[1], m[2]
        if not (sc[0] == "mcall" and sc[2] == "next" and not sc[3] and sc[1][0] == "index" and sc[1][1][0] == "path"
                and len(sc[1][1][1]) == 1):
            raise Untranslatable("match: the scrutinee is not `v[i].next()`")
        vname = sc[1][1][1][0]
        v = self.lookup(vname)
        if v is None or v.ty != "cache" or not v.mut: raise Untranslatable(f"match: `{vname}` is not a `let mut` Vec of Lines")
        if "next" not in self.env["lines"]: raise Untranslatable("<Lines as Iterator>::next was not translated")
        lines = []; i, ti = self.ex(sc[1][2], lines)
        if ti != "usize": raise Untranslatable("match: the index is not a usize")
        kinds = sorted(p[0] for p, _ in arms)
        if kinds != ["none", "some"]: raise Untranslatable("match: the arms are not exactly `None` and `Some(x)`")
        out = [pad + l for l in lines]
        t1, t2 = self.fresh(), self.fresh()
        out.append(pad + f"let {t1} ← Matreex.Fmt.vecIndex {v.lean} {i}")
        out.append(pad + f"let {t2} : Option (List Char) × Matreex.Fmt.Lines := {G}Lines.next {t1}")
        out.append(pad + f"let {v.lean} : {LT['cache']} := {v.lean}.set! {i} {t2}.2")
        bodies = []
        for p, body in arms:
            if body[0] == "blockexpr": sts = body[1]
            elif body[0] == "try" and self.is_write(body[1]): sts = [("expr", body)]
            else: raise Untranslatable("match arm that is neither `WRITE?` nor a block")
            bodies.append(sts)
        names = self.modified([s for b in bodies for s in b])
        if not names: raise Untranslatable("match without effect")
        target = "st_" if len(names) > 1 else self.peekvar(names[0]).lean
        out.append(pad + f"let {target} : {self.state_ty(names)} ← (match {t2}.1 with")
        for (p, _), sts in zip(arms, bodies):
            self.frames.append(Frame())
            if p[0] == "some":
                self.bind(p[1], "str", False)
                out.append(pad + f"  | some {lean_id(p[1])} => do")
            else:
                out.append(pad + "  | none => do")
            out += self.seq(sts, ind + 2, ("state", names))
            self.frames.pop()
        out[-1] += ")"
        out += self.unpack(names, pad)
        return out

    def loop(self, st, ind):
        pad = "  " * ind
        _, var, it, body = st
        self.nloops += 1; k = self.nloops
        pre = []
        if it[0] == "range":
            (a, ta), (b, tb) = self.ex(it[1], pre), self.ex(it[2], pre)
            if (ta, tb) != ("usize", "usize"): raise Untranslatable("for: the range bounds are not integers")
            items, ety = f"(Matreex.Fmt.range {a} {b})", "usize"
        elif it == ("mcall", ("field", ("path", ["self"]), "data"), "iter", []) or it == ("field", ("path", ["self"]), "data"):
            items, ety = self.use("@self_data") + ".toList", "elem"
        else:
            raise Untranslatable("for: the iterator is neither `A..B` nor `self.data.iter()`")
        names = self.modified(body)
        if not names: raise Untranslatable("for: the body has no effect on the locals or the output")
        sty = self.state_ty(names)
        fr = Frame(loop=True)
        for n in names:
            o = self.peekvar(n); fr.vars[n] = Var(o.lean, o.ty, True)
        self.frames.append(fr)
        try:
            if var == "_": binder = "x_"
            else:
                self.bind(var, ety, False); binder = lean_id(var)
            stname = "st_" if len(names) > 1 else fr.vars[names[0]].lean
            blines = self.unpack(names, "  ") + self.seq(body, 1, ("state", names))
        finally:
            self.frames.pop()
        caps = list(fr.captures.items())
        needs_t = ety == "elem" or any("T" in LT[v.ty].split() for _, v in caps)
        name = f"Fmt.{self.trait}.fmt_loop{k}"
        head = f"def {name}" + (" {T : Type}" if needs_t else "") + "".join(f" ({v.lean} : {LT[v.ty]})" for _, v in caps) \
            + f" ({stname} : {sty}) ({binder} : {LT[ety]}) :\n    M ({sty}) := do\n"
        self.defs.append(head + "\n".join(blines) + "\n")
        capargs = "".join(" " + self.use(n) for n, _ in caps)
        out = [pad + l for l in pre]
        target = "st_" if len(names) > 1 else self.peekvar(names[0]).lean
        out.append(pad + f"let {target} : {sty} ← List.foldlM (Matreex.Gen.{name}{capargs}) {self.state_tuple(names)} {items}")
        out += self.unpack(names, pad)
        return out

    def emit(self, body):
        lines = ["  let out : List Char := []"] + self.scoped(body, 1, ("fn",))
        name = f"Fmt.{self.trait}.fmt"
        return "\n".join(self.defs) + ("\n" if self.defs else "") + SIG.format(n=name) + " := do\n" + "\n".join(lines) + "\n"


SIG = "def {n} {{T : Type}} (es_lines : Nat) (render : T → List Char) (self_ : Hdr) (self_data : Array T) :\n    M (List Char)"


# =================================================================== the Lines helpers
def fn_body_tail(body_toks):
    """the single expression of a one-expression function body (`{ E }` or `{ return E; }`)"""
    sts = Ps(list(body_toks)).block()
    if len(sts) != 1 or sts[0][0] not in ("tail", "return"): raise Untranslatable("the body is not a single expression")
    return sts[0][1]


def is_string_from(e):
    """`String::from` and its spellings: the identity on the model's lines"""
    if e[0] == "path" and e[1] in (["String", "from"], ["str", "to_string"], ["ToString", "to_string"], ["str", "to_owned"],
                                   ["ToOwned", "to_owned"], ["Into", "into"], ["From", "from"]): return True
    if e[0] == "closure":
        p, b = e[1], e[2]
        if b in (("mcall", ("path", [p]), "to_string", []), ("mcall", ("path", [p]), "to_owned", []), ("mcall", ("path", [p]), "into", []),
                 ("call", ["String", "from"], [("path", [p])])): return True
    return False


def lines_from(hdr, body, which):
    h = joined(hdr)
    m = re.fullmatch(r"fn " + which + r" < (\w+) > \( (\w+) : \1 \) -> Self where \1 : " + FMT_PATH + r"(\w+) ,?", h) or \
        re.fullmatch(r"fn " + which + r" < (\w+) : " + FMT_PATH + r"(\w+) > \( (\w+) : \1 \) -> Self", h)
    if not m: raise Untranslatable(f"signature of Lines::{which}: {h}")
    g = m.groups()
    param, bound = (g[1], g[2]) if "where" in h else (g[2], g[1])
    want_bound, want_fmt = ("Debug", "{:?}") if which == "from_debug" else ("Display", "{}")
    if bound != want_bound: raise Untranslatable(f"Lines::{which}: the bound is {bound}, not {want_bound}")
    check_name(param, "parameter")
    e = fn_body_tail(body)
    if not (e[0] == "call" and e[1] in (["Self"], ["Lines"]) and len(e[2]) == 1): raise Untranslatable("the body is not `Self(..)`")
    c = e[2][0]
    if not (c[0] == "mcall" and c[2] == "collect" and not c[3]): raise Untranslatable("the chain does not end in `.collect()`")
    c = c[1]
    if not (c[0] == "mcall" and c[2] == "map" and len(c[3]) == 1 and is_string_from(c[3][0])):
        raise Untranslatable("the chain is not `.lines().map(String::from).collect()`")
    c = c[1]
    if not (c[0] == "mcall" and c[2] == "lines" and not c[3]): raise Untranslatable("the chain is not `.lines().map(String::from).collect()`")
    f = c[1]
    if not (f[0] == "macro" and f[1] == "format" and f[2] and f[2][0][0] == "str"): raise Untranslatable("`.lines()` is not applied to `format!(..)`")
    fs, fargs = f[2][0][1], f[2][1:]
    inline = "{" + param + want_fmt[1:]
    if not ((fs == want_fmt and fargs == [("path", [param])]) or (fs == inline and not fargs)):
        raise Untranslatable(f"format!({fs!r}, ..) is not format!({want_fmt!r}, {param})")
    return (f"def Fmt.Lines.{which} {{T : Type}} (render : T → List Char) ({lean_id(param)} : T) : Matreex.Fmt.Lines :=\n"
            f"  Matreex.Fmt.lines (render {lean_id(param)})\n")


def self0(e): return e == ("field", ("path", ["self"]), "0")


def lines_width(hdr, body):
    if joined(hdr) != "fn width ( & self ) -> usize": raise Untranslatable("signature of Lines::width: " + joined(hdr))
    e = fn_body_tail(body)
    ok = e[0] == "mcall" and e[2] == "unwrap_or" and len(e[3]) == 1 and e[3][0][0] == "num"
    if ok:
        dflt = e[3][0][1]; c = e[1]
        ok = c[0] == "mcall" and c[2] == "max" and not c[3]
    if ok:
        c = c[1]
        ok = c[0] == "mcall" and c[2] == "map" and len(c[3]) == 1 and c[3][0][0] == "closure"
    if ok:
        p, b = c[3][0][1], c[3][0][2]; c = c[1]
        ok = b == ("mcall", ("mcall", ("path", [p]), "chars", []), "count", []) and c == ("mcall", ("field", ("path", ["self"]), "0"), "iter", [])
    if not ok: raise Untranslatable("the body is not `self.0.iter().map(|l| l.chars().count()).max().unwrap_or(N)`")
    check_name(p, "closure parameter")
    return (f"def Fmt.Lines.width (self_ : Matreex.Fmt.Lines) : Nat :=\n"
            f"  (List.max? (List.map (fun {lean_id(p)} => {lean_id(p)}.length) self_)).getD {dflt}\n")


def lines_height(hdr, body):
    if joined(hdr) != "fn height ( & self ) -> usize": raise Untranslatable("signature of Lines::height: " + joined(hdr))
    if fn_body_tail(body) != ("mcall", ("field", ("path", ["self"]), "0"), "len", []): raise Untranslatable("the body is not `self.0.len()`")
    return "def Fmt.Lines.height (self_ : Matreex.Fmt.Lines) : Nat :=\n  self_.length\n"


def lines_next(hdr, body, item_is_string):
    if joined(hdr) not in ("fn next ( & mut self ) -> Option < Self :: Item >", "fn next ( & mut self ) -> Option < String >"):
        raise Untranslatable("signature of Lines::next: " + joined(hdr))
    if "Item" in joined(hdr) and not item_is_string: raise Untranslatable("`type Item = String;` not found")
    if fn_body_tail(body) != ("mcall", ("field", ("path", ["self"]), "0"), "pop_front", []): raise Untranslatable("the body is not `self.0.pop_front()`")
    return "def Fmt.Lines.next (self_ : Matreex.Fmt.Lines) : Option (List Char) × Matreex.Fmt.Lines :=\n  Matreex.Fmt.popFront self_\n"


LINES_STUB = {
    "from_debug": "def Fmt.Lines.from_debug {T : Type} (render : T → List Char) (element : T) : Matreex.Fmt.Lines :=\n  []  -- untranslatable\n",
    "from_display": "def Fmt.Lines.from_display {T : Type} (render : T → List Char) (element : T) : Matreex.Fmt.Lines :=\n  []  -- untranslatable\n",
    "width": "def Fmt.Lines.width (self_ : Matreex.Fmt.Lines) : Nat :=\n  0  -- untranslatable\n",
    "height": "def Fmt.Lines.height (self_ : Matreex.Fmt.Lines) : Nat :=\n  0  -- untranslatable\n",
    "next": "def Fmt.Lines.next (self_ : Matreex.Fmt.Lines) : Option (List Char) × Matreex.Fmt.Lines :=\n  (none, [])  -- untranslatable\n",
}
CONSTS = [("LEFT_DELIMITER", "str"), ("RIGHT_DELIMITER", "str"), ("SPACE", "str"), ("TAB_SIZE", "usize"), ("OUTER_GAP", "usize"),
          ("INTER_GAP", "usize"), ("INNER_GAP", "usize")]

HEADER = """/-
GENERATED by translate/t15.py from /repo/src/fmt.rs (the constants, `Lines`, `impl Debug for Matrix<T>`, `impl Display for
Matrix<T>`) on every run — do not edit.
`out` is the text written to the formatter so far (it starts empty; the value of a `fmt` function is the text written when it
returns).  Writing never fails (a `String` sink), so every `write!(..)?` continues and the `fmt::Result` is `Ok(())`.
`render e` is what `format!("{:?}", e)` (Debug) / `format!("{}", e)` (Display) produces for an element; `es_lines` is
`size_of::<Lines>()` (the capacity check of `Vec::with_capacity`: `Vec.reserveExact`, Model/Construct.lean).
`write_index!` is read as `write!`: the `#[cfg(not(feature = "pretty-debug"))]` arm; the colour arm is outside the model.
Every `for` body is its own definition `fmt_loop<k>` (the outer locals it reads, the state it carries, the item), run by
`List.foldlM` over the items (`Matreex.Fmt.range A B` for `A..B`).  Vocabulary: Model/FmtPrims.lean, Model/Fmt.lean.
-/
import Matreex.Gen.Core
import Matreex.Gen.Simple
import Matreex.Model.Matrix
import Matreex.Model.Construct
import Matreex.Model.Fmt
import Matreex.Model.FmtPrims

set_option linter.unusedVariables false

namespace Matreex.Gen
open Matreex

"""


def shape_delegate_ok(root):
    try:
        lib = t2.strip_rust_comments(open(f"{root}/lib.rs").read())
        text = t2.find_fn(lib, r"impl<T> Matrix<T>\s*\{", "shape")
        return re.sub(r"\s+", "", text[text.index("{"):]) == "{self.shape.to_shape(self.order)}"
    except (Untranslatable, ValueError, OSError):
        return False


def run_t15(root):
    out, done, failed = [], [], []
    try:
        toks = lex(open(f"{root}/fmt.rs").read())
        items = top_items(toks)
        lexerr = None
    except (OSError, Untranslatable) as ex:
        toks, items, lexerr = [], [], str(ex)

    def guarded(shown, fn, stub):
        try:
            if lexerr is not None: raise Untranslatable(f"src/fmt.rs: {lexerr}")
            text = fn()
            done.append(shown); return text
        except Untranslatable as ex:
            failed.append((shown, str(ex)))
        except Exception as ex:
            failed.append((shown, f"not parsed ({type(ex).__name__}: {ex})"))
        return stub

    # ---- constants
    found = {}
    for s, h, e in items:
        seg = toks[s:e]
        if seg and seg[0] == ("id", "const"):
            found.setdefault(seg[1][1], []).append(seg)
    consts = {}
    for name, ty in CONSTS:
        def one(name=name, ty=ty):
            segs = found.get(name, [])
            if len(segs) != 1: raise Untranslatable(f"const {name}: {len(segs)} definitions")
            seg = segs[0]; h = joined(seg)
            if ty == "str":
                if h not in (f"const {name} : & str = <str> ;",) : raise Untranslatable(f"const {name}: not `&str = \"..\"`")
                return f"def Fmt.{name} : List Char := {chars_lit(seg[6][1])}\n"
            if not re.fullmatch(rf"const {name} : usize = \d[\d_]* ;", h): raise Untranslatable(f"const {name}: not `usize = N`")
            return f"def Fmt.{name} : Nat := {int(seg[5][1].replace('_', ''))}\n"
        out.append(guarded(f"Fmt.{name}", one, f"def Fmt.{name} : {LT[ty]} := {'[]' if ty == 'str' else '0'}  -- untranslatable\n"))
        consts[name] = ty
    extra = [n for n in found if n not in consts]

    # ---- write_index!
    def macro_ok():
        arms = []
        for s, h, e in items:
            seg = toks[s:e]; j = joined(seg)
            if "macro_rules ! write_index" in j: arms.append(j)
        plain = [a for a in arms if a.startswith('# [ cfg ( not ( feature = <str> ) ) ]')]
        if len(plain) != 1: raise Untranslatable("write_index!: no single `#[cfg(not(feature = ..))]` arm")
        s = [toks[a:c] for a, b, c in items if joined(toks[a:c]) == plain[0]][0]
        if s[8] != ("str", "pretty-debug"): raise Untranslatable("write_index!: the cfg feature is not \"pretty-debug\"")
        want = ('# [ cfg ( not ( feature = <str> ) ) ] macro_rules ! write_index { ( $ dst : expr , $ ( $ arg : tt ) * ) => '
                '{ write ! ( $ dst , $ ( $ arg ) * ) } ; }')
        alt = want.replace("} ; }", "} }")
        if plain[0] not in (want, alt): raise Untranslatable("write_index!: the plain arm is not `write!($dst, $($arg)*)`")
        return ""
    before = len(failed)
    guarded("Fmt.write_index!", macro_ok, "")
    write_index_plain = len(failed) == before

    # ---- Lines
    impls = {}
    for s, h, e in items:
        hd = joined(toks[s:h])
        if hd == "impl Lines": impls.setdefault("lines", []).append((h, e))
        elif hd == "impl Iterator for Lines": impls.setdefault("iter", []).append((h, e))
        else:
            for tr in ("Debug", "Display"):
                if re.fullmatch(rf"impl < (\w+) > {FMT_PATH}{tr} for Matrix < \1 > where \1 : {FMT_PATH}{tr} ,?", hd) or \
                        re.fullmatch(rf"impl < (\w+) : {FMT_PATH}{tr} > {FMT_PATH}{tr} for Matrix < \1 >", hd):
                    impls.setdefault(tr, []).append((h, e))
    struct_ok = any(joined(toks[s:e]) == "struct Lines ( VecDeque < String > ) ;" for s, h, e in items)

    def the_fn(key, name):
        if len(impls.get(key, [])) != 1: raise Untranslatable(f"{len(impls.get(key, []))} impl blocks for {key}")
        h, e = impls[key][0]
        fns = fns_in(toks, h, e)
        if name not in fns: raise Untranslatable(f"fn {name} not found")
        return fns[name], (h, e)

    lines_ok = set()
    for which in ("from_debug", "from_display", "width", "height", "next"):
        def one(which=which):
            if not struct_ok: raise Untranslatable("`struct Lines(VecDeque<String>);` not found")
            (hdr, body), (h, e) = the_fn("iter" if which == "next" else "lines", which)
            if which in ("from_debug", "from_display"): return lines_from(hdr, body, which)
            if which == "width": return lines_width(hdr, body)
            if which == "height": return lines_height(hdr, body)
            return lines_next(hdr, body, "type Item = String ;" in joined(toks[h:e]))
        n0 = len(done)
        out.append(guarded(f"Fmt.Lines.{which}", one, LINES_STUB[which]))
        if len(done) > n0: lines_ok.add(which)

    # ---- the two fmt functions
    try:
        _, t2done, _ = t2.run(root)
        _, sdone, _ = t2.run_simple(root)
    except Exception:
        t2done, sdone = [], []
    from t9 import lib_delegates
    delegates = set(lib_delegates(root))
    if shape_delegate_ok(root): delegates.add("shape")
    env = {"delegates": delegates, "t2": set(t2done) | set(sdone), "lines": lines_ok, "write_index_plain": write_index_plain}
    for tr in ("Debug", "Display"):
        def one(tr=tr):
            if extra: raise Untranslatable(f"constants the translator does not know: {', '.join(extra)}")
            (hdr, body), _ = the_fn(tr, "fmt")
            m = re.fullmatch(rf"fn fmt \( & self , (\w+) : & mut {FMT_PATH}Formatter(?: < >)? \) -> {FMT_PATH}Result", joined(hdr))
            if not m: raise Untranslatable("signature: " + joined(hdr))
            p = Ps(list(body)); sts = p.block()
            if p.peek()[0] != "eof": raise Untranslatable("text after the function body")
            return Fn15(tr, m.group(1), consts, env).emit(sts)
        out.append(guarded(f"Fmt.{tr}.fmt", one, SIG.format(n=f"Fmt.{tr}.fmt") + " :=\n  .error (.panic \"untranslatable\")\n"))
    return HEADER + "\n".join(out) + "\nend Matreex.Gen\n", done, failed


if __name__ == "__main__":
    root = sys.argv[1] if len(sys.argv) > 1 else "/repo/src"
    text, done, failed = run_t15(root)
    if len(sys.argv) > 2:
        open(sys.argv[2], "w").write(text)
    else:
        print(text)
    print(done, failed, file=sys.stderr)
