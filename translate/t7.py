#!/usr/bin/env python3
"""Translator T7 ("eq"): `impl PartialEq for Matrix<T>` of src/eq.rs (`fn eq`) -> a Lean 4 function on the two
headers and the two element arrays (`Gen/T7Gen.lean`), regenerated on every run.

Signature (checked):   fn eq(&self, OTHER: &Self) -> bool
Generated:             Gen.Matrix.eq (eqα : α → α → Bool) (self_ : Hdr) (data : Array α) (OTHER : Hdr) (odata : Array α) : M Bool
`eqα` stands for the element type's `PartialEq::eq` (a total, effect-free function).

What comes from the Rust text: the branch structure (`if` / `else if` / `else`, early `if c { return e; }`),
every condition and its operands, which operand of `==` is which, the conjunction of the shape test and the
data test, the receiver of the iterator chain, the closure's parameters, every `let` of the closure, the
arguments of `from_flattened` / `to_flattened` / `get_unchecked` (which matrix's shape, which matrix's buffer,
which index), the operands and the orientation of the final element comparison.

What is mapped by name (std / crate vocabulary -> existing Lean definitions):
    V.data == W.data                          `vecEq eqα V W`            (Model/Eq.lean: `Vec<T> == Vec<T>`)
    x == y   on element references            `eqα x y`                  (`!=`: its negation)
    V.data.iter().enumerate().all(|(i, x)| B) `((List.range V.size).zip V.toList).allM (fun (i, x) => B)`
                                              core Lean's short-circuiting `List.allM` over the pairs
                                              (position, element), as `Iterator::all` over `enumerate`
    V.data.get_unchecked(I)                   `getUnchecked V I`         (Model/Mem.lean: UB outside the buffer)
    AxisIndex::from_flattened(I, S)           T2's `Gen.AxisIndex.from_flattened`   (translated from index.rs)
    A.to_flattened(S)                         T2's `Gen.AxisIndex.to_flattened`     (translated from index.rs)
    A.swap()                                  `Gen.AxisIndex.swap`       (Gen/Simple.lean, translated from index.rs)
    M.major() / M.minor() / strides           as in T6: the axis shape's (delegation in Gen/Simple.lean)
    M.size() / M.data.len()                   `V.size`  (`Matrix::size` is checked to be `self.data.len()` in lib.rs)
    cmp::min(a, b) / a.min(b)                 `min a b`

Accepted statement language (anything else is reported `Untranslatable`, never guessed; the function then
becomes a stub that faults, so the file still compiles and the bridge theorems fail):

    block      ::=  { let* tail }
    let        ::=  let x = EXPR;                     EXPR of type usize | bool | Order | AxisShape | AxisIndex | &T
    tail       ::=  if COND block else (block | if…)  |  BOOLEXPR
                    (an early `if COND { return E; } rest…` is read as `if COND { E } else { rest… }`, T2's rule)
    unsafe { EXPR }                                   transparent
    closure    ::=  |(i, x)| EXPR   |   |(i, x)| block         only as the argument of `.all`

Expressions (a checker assigns usize | bool | Order | AxisShape | AxisIndex | &T | Vec to every expression):
    integers, locals, true, false, usize::MAX, Order::RowMajor / ColMajor
    + - * / %                      checked `uadd usub umul udiv urem` (T2's emitter)
    == !=                          on two expressions of the same type (decided equality; `eqα` on &T; `vecEq` on Vec)
    < > <= >=  ! && ||             as in T2 (the right operand of && / || must be effect-free)
    M.order, M.shape, M.data       M = self | OTHER   (`M.data` only under `==`, `.len()`, `.get_unchecked`, `.iter()`)
    the vocabulary above
Locals keep their Rust names (Lean keywords are written «x»; a name the generated code binds itself is
untranslatable).
"""
import re, sys, os
sys.path.insert(0, os.path.dirname(os.path.abspath(__file__)))
from t2 import lex, find_fn, Untranslatable, strip_rust_comments
from t6 import O, OEmit, chain, lean_id, NAT, BOOL, ORDER

LEAN_NAME = "Matrix.eq"
SHAPE, AXIDX, ELEM, VEC = "AxisShape", "AxisIndex", "&T", "Vec"
LETTABLE = (NAT, BOOL, ORDER, SHAPE, AXIDX, ELEM)
RESERVED = {"data", "odata", "eqα", "self_", "self", "min", "max", "umul", "uadd", "usub", "udiv", "urem", "pure",
            "vecEq", "getUnchecked", "decide", "fun", "do", "let", "if", "then", "else", "M", "Nat", "List", "Array",
            "Hdr", "AxisShape", "AxisIndex", "Order", "usizeMax", "isizeMax", "α", "true", "false", "id", "not"}


def reserved(name):
    return name in RESERVED or re.fullmatch(r"t\d+", name) is not None


# ------------------------------------------------------------------ parser
class E(O):
    """T6's expression parser (method chains, no indexing / `?` / turbofish) with general closures in argument
    lists and `unsafe { .. }` as an expression; blocks are T2's (`let`s, early return, tail)"""

    def efn(self):
        self.eat("fn"); name = self.next()[1]
        if self.at("<"): raise Untranslatable("generic parameters on the function")
        self.eat("("); self.eat("&")
        if self.at("mut"): raise Untranslatable("`&mut self`")
        self.eat("self"); self.eat(",")
        k, other = self.next()
        if k != "id": raise Untranslatable(f"parameter name {other!r}")
        self.eat(":"); self.eat("&")
        if self.at("mut"): raise Untranslatable("the second parameter is `&mut`")
        if self.ty() != ("ty", "Self", []): raise Untranslatable("the second parameter is not `&Self`")
        if self.at(","): self.next()
        self.eat(")"); self.eat("->")
        if self.ty() != ("ty", "bool", []): raise Untranslatable("return type is not `bool`")
        if self.at("where"): raise Untranslatable("where clause on the method")
        body = self.block()
        if self.peek()[0] != "eof": raise Untranslatable("text after the function body")
        return name, other, body

    def block(self):
        b = super().block()
        for st in b[1]:
            if st[0] != "let": raise Untranslatable("expression statement `…;`")
        return b

    def closure(self):
        self.eat("|"); pat = self.pat()
        if not self.at("|"): raise Untranslatable("closure parameter with a type annotation / several parameters")
        self.eat("|")
        if self.at("->"): raise Untranslatable("closure with a return type")
        return ("closure", pat, self.expr())

    def atom(self, nostruct):
        v = self.peek()[1]
        if v == "unsafe":
            self.next()
            if not self.at("{"): raise Untranslatable("`unsafe` without a block")
            return ("unsafe", self.block())
        if v in ("return", "continue", "break", "while", "loop", "for", "match", "const", "static", "fn", "#", "let"):
            raise Untranslatable(f"`{v}` in expression position")
        return super().atom(nostruct)


# ------------------------------------------------------------------ emitter
def strip(e):
    """`unsafe { e }` and `{ e }` are transparent"""
    while e is not None:
        if e[0] == "unsafe": e = e[1]
        elif e[0] == "block" and not e[1] and e[2] is not None: e = e[2]
        else: break
    return e


def indent(lines, by="  "):
    return [by + sub for l in lines for sub in l.split("\n")]


class EqEmit(OEmit):
    def __init__(self, fnname, other, libsrc):
        super().__init__(fnname, other)
        self.other = other
        self.libsrc = libsrc
        self.scope = [dict()]            # name -> type
        self.size_checked = False

    # ---- helpers
    def matrix_of(self, e):
        """`self` / OTHER -> the Lean name of its element array"""
        if e[0] == "path" and len(e[1]) == 1:
            if e[1][0] == "self": return "data"
            if e[1][0] == self.other and not self.known(self.other): return "odata"
        return None

    def is_matrix(self, e):
        return self.matrix_of(e) is not None

    def data_of(self, e):
        """`M.data` -> the Lean name of the array"""
        if e[0] == "field" and e[2] == "data": return self.matrix_of(e[1])
        return None

    def lookup(self, name):
        for s in reversed(self.scope):
            if name in s: return s[name]
        return None

    def known(self, name):
        return self.lookup(name) is not None

    def check_size_fn(self):
        """`Matrix::size` must be the buffer length"""
        if self.size_checked: return
        text = re.sub(r"\s+", " ", find_fn(self.libsrc, r"impl<T> Matrix<T>\s*\{", "size")).strip()
        if not re.fullmatch(r"fn size ?\( ?& ?self ?\) ?-> ?usize ?\{ ?self ?\. ?data ?\. ?len ?\( ?\) ?\}", text):
            raise Untranslatable("`.size()`: `Matrix::size` of lib.rs is not `self.data.len()`")
        self.size_checked = True

    def all_chain(self, e):
        """`M.data.iter().enumerate().all(closure)` -> (array, closure) or None"""
        if e[0] != "mcall" or e[2] != "all": return None
        base, names, args = chain(e)
        d = self.data_of(base)
        if d is None: raise Untranslatable("`.all`: the chain does not start with `self.data` / `OTHER.data`")
        if names != ["iter", "enumerate", "all"] or args[0] or args[1]:
            raise Untranslatable(f"iterator chain `{'.'.join(names)}` is not `iter().enumerate().all(..)`")
        if len(args[2]) != 1 or args[2][0][0] != "closure":
            raise Untranslatable("`.all`: the argument is not a closure")
        _, pat, body = args[2][0]
        if not (pat[0] == "ptuple" and len(pat[1]) == 2 and all(q[0] == "pvar" for q in pat[1])):
            raise Untranslatable("`.all`: the closure's parameter is not `(i, x)`")
        i, x = pat[1][0][1], pat[1][1][1]
        if i == x or reserved(i) or reserved(x) or i == self.other or x == self.other:
            raise Untranslatable(f"closure parameters `{i}`, `{x}` collide with a name of the generated code")
        return d, i, x, body

    # ---- types
    def ty(self, e):
        e = strip(e)
        if e is None: raise Untranslatable("block without a value")
        k = e[0]
        if k == "path" and len(e[1]) == 1:
            n = e[1][0]
            if isinstance(n, str):
                t = self.lookup(n)
                if t is not None: return t
                if n in ("true", "false"): return BOOL
            raise Untranslatable(f"`{n}` is not a local in scope")
        if k == "field":
            if self.is_matrix(e[1]):
                if e[2] == "order": return ORDER
                if e[2] == "shape": return SHAPE
                if e[2] == "data": return VEC
            raise Untranslatable(f"field access .{e[2]}")
        if k == "bin" and e[1] in ("==", "!="):
            a, b = self.ty(e[2]), self.ty(e[3])
            if a != b: raise Untranslatable(f"`{e[1]}` on {a} and {b}")
            if a == BOOL: raise Untranslatable(f"`{e[1]}` on bools")
            return BOOL
        if k == "mcall":
            recv, name, args = e[1], e[2], e[3]
            if name == "all":
                d, i, x, body = self.all_chain(e)
                return BOOL
            if name in ("size", "len") and not args:
                if name == "size" and self.is_matrix(recv):
                    self.check_size_fn(); return NAT
                if name == "len" and self.data_of(recv): return NAT
                raise Untranslatable(f".{name}() on something that is not a matrix / its buffer")
            if name == "get_unchecked":
                if not self.data_of(recv): raise Untranslatable("get_unchecked on something that is not `M.data`")
                if len(args) != 1 or args[0][0] == "range" or self.ty(args[0]) != NAT:
                    raise Untranslatable("get_unchecked: the argument is not one integer")
                return ELEM
            if name == "swap" and not args:
                if self.ty(recv) != AXIDX: raise Untranslatable(".swap() on something that is not an AxisIndex")
                return AXIDX
            if name == "to_flattened":
                if self.ty(recv) != AXIDX or len(args) != 1 or self.ty(args[0]) != SHAPE:
                    raise Untranslatable("to_flattened: not `AXISINDEX.to_flattened(AXISSHAPE)`")
                return NAT
        if k == "call":
            p = e[1]
            if p in (["AxisIndex", "from_flattened"], ["crate", "index", "AxisIndex", "from_flattened"]):
                if len(e[2]) != 2 or self.ty(e[2][0]) != NAT or self.ty(e[2][1]) != SHAPE:
                    raise Untranslatable("AxisIndex::from_flattened: not `(usize, AXISSHAPE)`")
                return AXIDX
        if k in ("if", "match", "block", "closure", "range"):
            raise Untranslatable(f"`{k}` in expression position")
        return super().ty(e)

    # ---- expressions
    def ex(self, e, lines):
        e = strip(e)
        k = e[0]
        if k == "path" and len(e[1]) == 1 and e[1][0] in ("true", "false") and not self.known(e[1][0]):
            return e[1][0]
        if k == "bin" and e[1] in ("==", "!="):
            t = self.ty(e[2])
            if t in (ELEM, VEC):
                if t == VEC:
                    a, b = self.data_of(e[2]), self.data_of(e[3])
                    r = f"(vecEq eqα {a} {b})"
                else:
                    a = self.ex(e[2], lines); b = self.ex(e[3], lines)
                    r = f"(eqα {a} {b})"
                return r if e[1] == "==" else f"(!{r})"
        if k == "field" and e[2] == "data":
            raise Untranslatable("`M.data` outside `==`, `.len()`, `.get_unchecked(..)`, `.iter()`")
        if k == "mcall":
            recv, name, args = e[1], e[2], e[3]
            if name == "all":
                d, i, x, body = self.all_chain(e)
                body = strip(body)
                if body[0] != "block": body = ("block", [], body)
                self.scope.append({i: NAT, x: ELEM})
                blines = self.block_lines(body)
                self.scope.pop()
                t = self.fresh()
                head = (f"let {t} ← ((List.range {d}.size).zip {d}.toList).allM "
                        f"(fun (({lean_id(i)}, {lean_id(x)}) : Nat × α) => do")
                blines = indent(blines, "    ")
                blines[-1] += ")"
                lines.append("\n".join([head] + blines))
                return t
            if name == "size" and not args and self.is_matrix(recv):
                self.check_size_fn(); return f"{self.matrix_of(recv)}.size"
            if name == "len" and not args and self.data_of(recv):
                return f"{self.data_of(recv)}.size"
            if name == "get_unchecked":
                i = self.ex(args[0], lines)
                t = self.fresh(); lines.append(f"let {t} ← getUnchecked {self.data_of(recv)} {i}"); return t
            if name == "swap" and not args:
                return f"(AxisIndex.swap {self.ex(recv, lines)})"
            if name == "to_flattened":
                a = self.ex(recv, lines); s = self.ex(args[0], lines)
                t = self.fresh(); lines.append(f"let {t} ← AxisIndex.to_flattened {a} {s}"); return t
        if k == "call" and e[1][-1] == "from_flattened":
            i = self.ex(e[2][0], lines); s = self.ex(e[2][1], lines)
            t = self.fresh(); lines.append(f"let {t} ← AxisIndex.from_flattened {i} {s}"); return t
        return super().ex(e, lines)

    # ---- statements
    def block_lines(self, b):
        """the lines of a `do` block of type `M Bool`"""
        self.scope.append({})
        out = []
        for st in b[1]:
            if st[0] != "let": raise Untranslatable("expression statement")
            pat, e = st[1], strip(st[2])
            if pat[0] != "pvar": raise Untranslatable("let with a pattern")
            name = pat[1]
            if reserved(name) or name == self.other:
                raise Untranslatable(f"local `{name}` collides with a name of the generated code")
            try:
                t = self.ty(e)
                if t not in LETTABLE: raise Untranslatable(f"a local of type {t}")
                lines = []; v = self.ex(e, lines)
            except Untranslatable as ex:
                raise Untranslatable(f"let {name} = …: not an expression of the language ({ex})")
            out += lines
            out.append(f"let {lean_id(name)} := {v}")
            self.scope[-1][name] = t
        tail = strip(b[2])
        if tail is None: raise Untranslatable("block without a value")
        if tail[0] == "if":
            lines = []; c = self.typed(tail[1], BOOL, lines, "condition")
            out += lines
            out.append(f"if {c} then do")
            out += indent(self.block_lines(self.as_block(tail[2])))
            out.append("else do")
            out += indent(self.block_lines(self.as_block(tail[3])))
        else:
            lines = []; v = self.typed(tail, BOOL, lines, "value of the block")
            out += lines
            out.append(f"pure {v}")
        self.scope.pop()
        return out

    @staticmethod
    def as_block(e):
        if e[0] == "unsafe": e = e[1]
        return e if e[0] == "block" else ("block", [], e)


def translate_eq(src_text, lib_text):
    text = find_fn(src_text, r"impl<T> PartialEq for Matrix<T>", "eq")
    name, other, body = E(lex(text)).efn()
    if reserved(other):
        raise Untranslatable(f"parameter `{other}` collides with a name of the generated code")
    lines = EqEmit(name, other, lib_text).block_lines(body)
    return HEAD.format(other=lean_id(other)) + " := do\n" + "\n".join(indent(lines)) + "\n"


HEAD = ("def " + LEAN_NAME + " {{α : Type}} (eqα : α → α → Bool) (self_ : Hdr) (data : Array α) ({other} : Hdr) (odata : Array α) :\n"
        "    M Bool")

HEADER = """/-
GENERATED by translate/t7.py from /repo/src/eq.rs (`impl PartialEq for Matrix<T>`, `fn eq`) on every run — do not edit.
`data` is `self.data`, `odata` the other matrix's buffer; `eqα` is the element type's `PartialEq::eq`.
`vecEq` is `Vec == Vec` (Model/Eq.lean), `getUnchecked` the partial read of Model/Mem.lean (undefined behaviour
is a fault), `List.allM` over `(List.range n).zip _` is `iter().enumerate().all(..)` (short-circuiting); the index
functions are T2's (checked arithmetic).
-/
import Matreex.Gen.Core
import Matreex.Gen.Simple
import Matreex.Model.Eq
import Matreex.Model.Mem

namespace Matreex.Gen
open Matreex

"""


def run_eq(root):
    done, failed = [], []
    body = None
    try:
        src = strip_rust_comments(open(f"{root}/eq.rs").read())
        lib = strip_rust_comments(open(f"{root}/lib.rs").read())
        body = translate_eq(src, lib)
        done.append(LEAN_NAME)
    except Untranslatable as ex:
        failed.append((LEAN_NAME, str(ex)))
    except Exception as ex:      # a malformed function must not stop the pipeline: report it, emit the stub
        failed.append((LEAN_NAME, f"not parsed ({type(ex).__name__}: {ex})"))
        body = None
    if body is None:
        # keep the file compiling: the bridge theorems about this function fail instead
        body = HEAD.format(other="other") + " :=\n  .error (.panic \"untranslatable\")\n"
    return HEADER + body + "\nend Matreex.Gen\n", done, failed


if __name__ == "__main__":
    root = sys.argv[1] if len(sys.argv) > 1 else "/repo/src"
    text, done, failed = run_eq(root)
    print(text)
    print(done, failed, file=sys.stderr)
