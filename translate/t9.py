#!/usr/bin/env python3
"""Translator T9 ("elementwise"): the generic elementwise operations of src/arithmetic.rs

    ensure_elementwise_operation_conformable          (and ensure_multiplication_like_operation_conformable)
    elementwise_operation / elementwise_operation_consume_self / elementwise_operation_assign

-> Lean 4 functions on headers, element arrays and a closure (`Gen/T9Gen.lean`), regenerated on every run.

What comes from the Rust text: the signature (type parameters, which operand is `&mut`, the closure's
`FnMut(..) [-> ..]` bound, the result type), the order of the two `?` checks and their arguments (which
element size `check_size` is asked about — `Matrix::<U>` / `Self` —, what is measured), every `let`, the
branch condition, for each branch WHICH walk it is (which buffer is walked, what it is zipped with,
whether it is enumerated), the names and roles of the closure's pattern variables, every statement of
the closure body (arguments of `from_flattened`, `.swap()`, arguments of `to_flattened`, which buffer
`get_unchecked` reads at which index, the operand order of `op(..)`), and the fields of the final
`Matrix { .. }` / the final `Ok(self)`.  The two `ensure_*` guards are translated by T2's `translate`
unchanged (`if PRED { Ok(self) } else { Err(Error::X) }`).

What is mapped BY NAME to existing vocabulary (never a whole function):

    M.data.iter() / .into_iter() / .iter_mut()       the positions 0 .. M_data.size, element read with the
                                                     model's `getUnchecked M_data pos` (never faults in range)
    .zip(&N.data)                                    lockstep: positions 0 .. min M_data.size N_data.size,
                                                     second element read with `getUnchecked N_data pos`
    .enumerate()                                     the position itself is the first pattern variable
    .map(|PAT| BODY).collect()                       `Vec.reserveExact es_U LEN` (Model/Construct.lean: the
                                                     allocation `collect` makes for a TrustedLen chain, a
                                                     panic above isize::MAX bytes), then
                                                     `(List.range LEN).mapM (fun pos => do BODY)`, `.toArray`
    .for_each(|PAT| BODY)  on `self.data.iter_mut()` the same `mapM`; the value of the `&mut` pattern variable
                                                     at the end of BODY is the new element; positions the
                                                     walk does not reach keep their value
                                                     (`items.toArray ++ self_data.extract items.length self_data.size`)
    V.get_unchecked(i)                               `getUnchecked V i` (Model/Mem.lean; out of bounds = UB fault)
    AxisIndex::from_flattened / .to_flattened        T2's generated functions (Gen/Core.lean), `.swap()` the
                                                     generated `Gen.AxisIndex.swap` (Gen/Simple.lean)
    Matrix::<T>::check_size(n) / Self::check_size    T2's `Gen.Matrix.check_size es_T n`
    M.size() / M.is_empty()                          `M_data.size` / `M_data.size = 0`, only if src/lib.rs still
                                                     defines them as `self.data.len()` / `self.data.is_empty()`
    M.major() / M.minor() / strides                  the generated delegations of Gen/Simple.lean / Gen/Core.lean
    op(x, y)                                         application of the closure parameter; for a
                                                     `FnMut(&mut A, ..)` closure it is `let x := op x y`
    EXPR?                                            `bindErr` (Prelude) / `bindErrSt` for a `&mut self` method
                                                     (an early `Err` returns with the state as it is then)

Accepted statement language (anything else raises `Untranslatable`, is reported in the JSON summary, and a
stub of the right type that faults is emitted, so that the file compiles and the bridge theorem fails):

  function body
    EXPR?;   let x = EXPR?;                          EXPR of type Result
    let x = EXPR;                                    EXPR : usize | bool | Order | AxisShape | AxisIndex
    let x = WALK;   let x = if COND { WALK } else { WALK };            WALK ending in `.collect()`
    WALK;   if COND { WALK; } else { WALK; }                           WALK ending in `.for_each(..)` (only `&mut self`)
    if COND { lets; return RESULT; }                 early return (the rest of the block is the else branch);
                                                     `let x = Vec::new();` is the empty buffer
    RESULT :=  Ok(Matrix { order: E, shape: E, data: x }) | Ok(self) (only `&mut self`) | Err(Error::X)
  closure body
    let x = EXPR;                                    additionally EXPR : element (a `get_unchecked` read)
    op(x, y)                                         value of a `map` closure / effect of a `for_each` closure
  expressions
    integers, locals, + - * / % (checked), == != < > <= >= ! && ||, a.min(b), cmp::min(a, b), usize::MAX,
    Order::RowMajor / ColMajor, M.order, M.shape, M.data (M = self | the matrix parameter), unsafe { EXPR },
    and the vocabulary above.  A small checker assigns a type to every expression; a mismatch is untranslatable.
"""
import re, sys, os
sys.path.insert(0, os.path.dirname(os.path.abspath(__file__)))
from t2 import lex, find_fn, P, Untranslatable, strip_rust_comments
import t2
from t6 import lean_id

GEN_NAMES = {"self_", "self_data", "items", "pos_", "op_", "pure", "min", "max", "decide", "bindErr", "bindErrSt",
             "getUnchecked", "uadd", "usub", "umul", "udiv", "urem", "M", "Nat", "List", "Array", "Hdr", "Matrix",
             "AxisShape", "AxisIndex", "Order", "Error", "Except", "Vec", "usizeMax", "isizeMax", "fun", "do", "let",
             "if", "then", "else", "match", "with"}
SCALARS = ("usize", "bool", "Order", "AxisShape", "AxisIndex")


# ------------------------------------------------------------------ locating
def locate(src, name):
    """(type parameter of the enclosing `impl<X> Matrix<X>`, text of the function)"""
    m = re.compile(r"\bfn\s+" + re.escape(name) + r"\s*(<[^>]*>)?\s*\(").search(src)
    if not m: raise Untranslatable(f"fn {name} not found")
    impls = [mm for mm in re.finditer(r"\bimpl\s*<\s*(\w+)\s*>\s*Matrix\s*<\s*(\w+)\s*>\s*\{", src) if mm.start() < m.start()]
    if not impls or impls[-1].group(1) != impls[-1].group(2):
        raise Untranslatable(f"fn {name}: enclosing `impl<X> Matrix<X>` not found")
    return impls[-1].group(1), find_fn(src[m.start():], None, name)


def drop_lifetimes(toks):
    out, i = [], 0
    while i < len(toks):
        if toks[i] == ("op", "'") and i + 1 < len(toks) and toks[i + 1][0] == "id":
            i += 2; continue
        out.append(toks[i]); i += 1
    return out


# ------------------------------------------------------------------ parser
class F9(P):
    """header of a generic method + T2's expressions and blocks, plus closures in argument lists and `unsafe { e }`"""

    def pty(self):
        if self.at("&"):
            self.next()
            if self.at("mut"):
                self.next(); return ("mutref", self.pty())
            return ("ref", self.pty())
        k, name = self.next()
        if k != "id": raise Untranslatable(f"type: unexpected {name!r}")
        args = []
        if self.at("<"):
            self.next()
            while not self.at(">"):
                args.append(self.pty())
                if self.at(","): self.next()
            self.eat(">")
        return ("ty", name, args)

    def header(self):
        self.eat("fn"); name = self.next()[1]
        generics = []
        if self.at("<"):
            self.next()
            while not self.at(">"):
                k, v = self.next()
                if v == ",": continue
                if k != "id": raise Untranslatable("generic parameter list")
                if self.at(":"): raise Untranslatable("bound inside the generic parameter list")
                generics.append(v)
            self.eat(">")
        self.eat("(")
        if self.at("&"):
            self.next()
            recv = "ref"
            if self.at("mut"):
                self.next(); recv = "mut"
        else:
            recv = "own"
            if self.at("mut"): self.next()
        self.eat("self")
        params = []
        while self.at(","):
            self.next()
            if self.at(")"): break
            if self.at("mut"): self.next()
            k, pn = self.next()
            if k != "id": raise Untranslatable(f"parameter name {pn!r}")
            self.eat(":"); params.append((pn, self.pty()))
        self.eat(")")
        self.eat("->"); ret = self.pty()
        bounds = {}
        if self.at("where"):
            self.next()
            while not self.at("{"):
                k, g = self.next()
                if k != "id": raise Untranslatable("where clause")
                self.eat(":")
                kind = self.next()[1]
                if kind not in ("FnMut", "Fn", "FnOnce"): raise Untranslatable(f"bound {g}: {kind}")
                self.eat("("); args = []
                while not self.at(")"):
                    args.append(self.pty())
                    if self.at(","): self.next()
                self.eat(")")
                r = None
                if self.at("->"):
                    self.next(); r = self.pty()
                bounds[g] = (args, r)
                if self.at(","): self.next()
        body = self.block()
        if self.peek()[0] != "eof": raise Untranslatable("text after the function body")
        return {"name": name, "generics": generics, "recv": recv, "params": params, "ret": ret, "bounds": bounds, "body": body}

    def block(self):
        """T2's block, except that a block-like expression in statement position (an `if` without `;`) is a
        statement, not the value of the block"""
        self.eat("{"); stmts = []; tail = None; returned_here = False
        while not self.at("}"):
            if self.peek()[0] == "eof": raise Untranslatable("unterminated block")
            if tail is not None: raise Untranslatable("expression followed by more code")
            v = self.peek()[1]
            if v in ("while", "loop", "for", "match", "break", "continue", "const", "static", "fn", "#"):
                raise Untranslatable(f"`{v}` statement")
            if v == "let":
                self.next()
                if self.at("mut"): raise Untranslatable("let mut")
                pat = self.pat()
                if self.at(":"):
                    self.next(); self.ty()
                self.eat("="); e = self.expr(); self.eat(";")
                stmts.append(("let", pat, e))
            elif v == "if":
                self.next(); c = self.expr(0, True)
                t = self.block(); returned = self._returned
                if self.at("else"):
                    self.next()
                    f = ("block", [], self.atom(False)) if self.at("if") else self.block()
                    e = ("if", c, t, f)
                    if self.at(";"):
                        self.next(); stmts.append(("expr", e))
                    elif self.at("}"):
                        tail = e
                    else:
                        stmts.append(("expr", e))
                else:
                    # `if c { …; return E; }  rest…`  ==  `if c { …; E } else { rest… }`
                    if not returned: raise Untranslatable("`if` without `else` whose block does not end in `return`")
                    rest = self._rest_of_block()
                    self._returned = False
                    return ("block", stmts, ("if", c, t, rest))
            elif v == "return":
                self.next(); e = self.expr()
                if self.at(";"): self.next()
                if not self.at("}"): raise Untranslatable("code after return")
                tail = e; returned_here = True
            else:
                e = self.expr()
                if self.at(";"):
                    self.next(); stmts.append(("expr", e))
                elif self.at("="):
                    raise Untranslatable("assignment statement")
                elif e[0] == "if" and not self.at("}"):
                    stmts.append(("expr", e))
                else:
                    tail = e
        self.eat("}")
        self._returned = returned_here
        return ("block", stmts, tail)

    def args(self):
        self.eat("("); xs = []
        while not self.at(")"):
            if self.at("|"): xs.append(self.closure())
            elif self.at("move") or self.at("||"): raise Untranslatable("closure form")
            else: xs.append(self.expr())
            if self.at(","): self.next()
            elif not self.at(")"): raise Untranslatable(f"argument list: unexpected {self.peek()[1]!r}")
        self.eat(")"); return xs

    def closure(self):
        self.eat("|"); pats = []
        while not self.at("|"):
            pats.append(self.pat())
            if self.at(":"): raise Untranslatable("typed closure parameter")
            if self.at(","): self.next()
        self.eat("|")
        body = self.block() if self.at("{") else ("block", [], self.expr())
        return ("closure", pats, body)

    def atom(self, nostruct):
        v = self.peek()[1]
        if v == "unsafe":
            self.next(); b = self.block()
            return ("unsafe", b)
        if v in ("|", "||", "move"): raise Untranslatable("closure outside an argument list")
        if v == "..": raise Untranslatable("range expression")
        return super().atom(nostruct)

    def postfix(self, e):
        while True:
            if self.at("["): raise Untranslatable("indexing `x[..]`")
            if self.at("."):
                self.next(); k, name = self.next()
                if k != "id": raise Untranslatable(f"`.{name}`")
                if self.at("::"): raise Untranslatable("turbofish on a method")
                e = ("mcall", e, name, self.args()) if self.at("(") else ("field", e, name)
            elif self.at("?"):
                self.next(); e = ("try", e)
            else:
                return e


def chain(e):
    names, args = [], []
    while e[0] == "mcall":
        names.append(e[2]); args.append(e[3]); e = e[1]
    return e, names[::-1], args[::-1]


def is_walk(e, last):
    return e[0] == "mcall" and e[2] == last


# ------------------------------------------------------------------ emitter
class Fn9:
    def __init__(self, impl_param, ast, lib_delegates, ensure_known):
        self.ast = ast; self.n = 0
        self.delegates = lib_delegates; self.ensure_known = ensure_known
        self.L = impl_param
        g = [x for x in ast["generics"] if x not in ast["bounds"]]
        for x in ast["bounds"]:
            if x not in ast["generics"]: raise Untranslatable(f"bound on {x}, which is not a generic parameter")
        self.tparams = [impl_param] + g
        if len(set(self.tparams)) != len(self.tparams): raise Untranslatable("type parameter declared twice")
        self.mats = {"self": ("self_", "self_data", impl_param)}
        self.ops = {}
        self.binders = []
        for pn, ty in ast["params"]:
            self.check_name(pn)
            if ty[0] == "ref" and ty[1][0] == "ty" and ty[1][1] == "Matrix" and len(ty[1][2]) == 1 \
                    and ty[1][2][0][0] == "ty" and ty[1][2][0][1] in self.tparams and not ty[1][2][0][2]:
                el = ty[1][2][0][1]
                self.mats[pn] = (lean_id(pn), lean_id(pn + "_data"), el)
                self.binders.append(f"({lean_id(pn)} : Hdr) ({lean_id(pn + '_data')} : Array {el})")
            elif ty[0] == "ty" and ty[1] in ast["bounds"] and not ty[2]:
                args, r = ast["bounds"][ty[1]]
                ats = []; mut_first = False
                for i, a in enumerate(args):
                    ismut = a[0] == "mutref"
                    if a[0] in ("ref", "mutref"): a = a[1]
                    if a[0] != "ty" or a[1] not in self.tparams or a[2]: raise Untranslatable(f"closure {pn}: argument type")
                    if ismut and i != 0: raise Untranslatable(f"closure {pn}: `&mut` argument that is not the first")
                    mut_first = mut_first or ismut
                    ats.append(a[1])
                if mut_first:
                    if r is not None: raise Untranslatable(f"closure {pn}: `&mut` argument and a result")
                    rt = ats[0]
                else:
                    if r is None or r[0] != "ty" or r[1] not in self.tparams or r[2]:
                        raise Untranslatable(f"closure {pn}: result type")
                    rt = r[1]
                self.ops[pn] = (ats, rt, mut_first)
                self.binders.append(f"({lean_id(pn)} : {' → '.join(ats + [rt])})")
            else:
                raise Untranslatable(f"parameter {pn}: neither `&Matrix<X>` nor a closure")
        ret = ast["ret"]
        if ret == ("ty", "Result", [("mutref", ("ty", "Self", []))]) and ast["recv"] == "mut":
            self.mode = "inplace"; self.U = None
            self.ret_ty = f"M (Except Error Unit × Matrix {self.L})"
        elif ret[0] == "ty" and ret[1] == "Result" and len(ret[2]) == 1 and ret[2][0][0] == "ty" and ret[2][0][1] == "Matrix" \
                and len(ret[2][0][2]) == 1 and ret[2][0][2][0][0] == "ty" and ret[2][0][2][0][1] in self.tparams:
            if ast["recv"] == "mut": raise Untranslatable("`&mut self` method returning a new matrix")
            self.mode = "new"; self.U = ret[2][0][2][0][1]
            self.ret_ty = f"M (Except Error (Matrix {self.U}))"
        else:
            raise Untranslatable("result type is neither Result<Matrix<X>> nor (for &mut self) Result<&mut Self>")
        self.scope = [dict()]
        self.mutvars = set()
        self.in_for_each = False

    # -- names
    def check_name(self, name):
        if name in GEN_NAMES or re.fullmatch(r"t\d+", name) or name.endswith("_data") or name.startswith("es_"):
            raise Untranslatable(f"name `{name}` collides with a name of the generated code")

    def fresh(self):
        self.n += 1; return f"t{self.n}"

    def lookup(self, name):
        for s in reversed(self.scope):
            if name in s: return s[name]
        raise Untranslatable(f"`{name}` is not a local in scope")

    def state(self):
        return f"({{ order := self_.order, shape := self_.shape, data := self_data }} : Matrix {self.L})"

    def mat(self, e):
        if e[0] == "path" and len(e[1]) == 1 and e[1][0] in self.mats:
            for s in self.scope:
                if e[1][0] in s: return None       # shadowed by a local
            return self.mats[e[1][0]]
        return None

    # -- expressions: (lean text, type)
    def ex(self, e, lines):
        k = e[0]
        if k == "num": return str(e[1]), "usize"
        if k == "unsafe" or k == "block":
            b = e[1] if k == "unsafe" else e
            if b[1] or b[2] is None: raise Untranslatable("block with statements in expression position")
            return self.ex(b[2], lines)
        if k == "path":
            p = e[1]
            if len(p) == 1 and isinstance(p[0], str):
                return lean_id(p[0]), self.lookup(p[0])
            if p == ["Order", "RowMajor"]: return "Order.rowMajor", "Order"
            if p == ["Order", "ColMajor"]: return "Order.colMajor", "Order"
            if p == ["usize", "MAX"]: return "usizeMax", "usize"
            raise Untranslatable("path " + "::".join(map(str, p)))
        if k == "field":
            m = self.mat(e[1])
            if m:
                if e[2] == "order": return f"{m[0]}.order", "Order"
                if e[2] == "shape": return f"{m[0]}.shape", "AxisShape"
                if e[2] == "data":
                    if self.in_for_each and m[0] == "self_":
                        raise Untranslatable("`self.data` read inside a `for_each` over `self.data.iter_mut()`")
                    return m[1], ("vec", m[2])
            raise Untranslatable(f"field access .{e[2]}")
        if k == "not":
            a, t = self.ex(e[1], lines)
            if t != "bool": raise Untranslatable("`!` on a non-bool")
            return f"(!{a})", "bool"
        if k == "bin":
            op = e[1]
            if op in ("&&", "||"):
                a, ta = self.ex(e[2], lines); rl = []; b, tb = self.ex(e[3], rl)
                if rl: raise Untranslatable("effectful right operand of && / ||")
                if (ta, tb) != ("bool", "bool"): raise Untranslatable(f"`{op}` on non-bools")
                return f"({a} {op} {b})", "bool"
            (a, ta), (b, tb) = self.ex(e[2], lines), self.ex(e[3], lines)
            if op in ("+", "-", "*", "/", "%"):
                if (ta, tb) != ("usize", "usize"): raise Untranslatable(f"`{op}` on non-integers")
                f = {"+": "uadd", "-": "usub", "*": "umul", "/": "udiv", "%": "urem"}[op]
                t = self.fresh(); lines.append(f"let {t} ← {f} {a} {b}"); return t, "usize"
            if op in ("==", "!="):
                if ta != tb or ta not in ("usize", "Order", "AxisShape", "AxisIndex"): raise Untranslatable(f"`{op}` on {ta} and {tb}")
                return f"(decide ({a} {'=' if op == '==' else '≠'} {b}))", "bool"
            if op in ("<", ">", "<=", ">="):
                if (ta, tb) != ("usize", "usize"): raise Untranslatable(f"`{op}` on non-integers")
                return f"(decide ({a} {op.replace('<=', '≤').replace('>=', '≥')} {b}))", "bool"
            raise Untranslatable(f"operator {op}")
        if k == "mcall":
            return self.mcall(e, lines)
        if k == "call":
            return self.call(e, lines)
        if k == "try": raise Untranslatable("`?` outside statement position")
        raise Untranslatable(f"expression kind {k}")

    def mcall(self, e, lines):
        recv, name, args = e[1], e[2], e[3]
        m = self.mat(recv)
        if m:
            hdr, data, el = m
            if name in ("size", "is_empty") and not args:
                if name not in self.delegates: raise Untranslatable(f"Matrix::{name} is not the plain delegation to `self.data` in src/lib.rs")
                if self.in_for_each and hdr == "self_": raise Untranslatable("`self` used inside a `for_each` over `self.data.iter_mut()`")
                return (f"{data}.size", "usize") if name == "size" else (f"(decide ({data}.size = 0))", "bool")
            if name in ("major", "minor") and not args:
                return f"(Matrix.{name} {hdr})", "usize"
            if name in ("major_stride", "minor_stride") and not args:
                t = self.fresh(); lines.append(f"let {t} ← AxisShape.{name} {hdr}.shape"); return t, "usize"
            if name in ("ensure_elementwise_operation_conformable", "is_elementwise_operation_conformable") and len(args) == 1:
                o = self.mat(args[0])
                if not o: raise Untranslatable(f"{name}: the argument is not a matrix parameter")
                if name.startswith("ensure") and not self.ensure_known: raise Untranslatable(f"{name} was not translated")
                t = self.fresh(); lines.append(f"let {t} ← Matrix.{name} {hdr} {o[0]}")
                return t, (("result", "hdr") if name.startswith("ensure") else "bool")
            raise Untranslatable(f"method {name}/{len(args)} on a matrix")
        r, tr = self.ex(recv, lines)
        if isinstance(tr, tuple) and tr[0] == "vec":
            if name == "len" and not args: return f"{r}.size", "usize"
            if name == "is_empty" and not args: return f"(decide ({r}.size = 0))", "bool"
            if name == "get_unchecked" and len(args) == 1:
                i, ti = self.ex(args[0], lines)
                if ti != "usize": raise Untranslatable("get_unchecked: the index is not an integer")
                t = self.fresh(); lines.append(f"let {t} ← getUnchecked {r} {i}"); return t, ("elem", tr[1])
            raise Untranslatable(f"method {name}/{len(args)} on a buffer")
        if tr == "AxisIndex":
            if name == "swap" and not args: return f"(AxisIndex.swap {r})", "AxisIndex"
            if name == "to_flattened" and len(args) == 1:
                s, ts = self.ex(args[0], lines)
                if ts != "AxisShape": raise Untranslatable("to_flattened: the argument is not an axis shape")
                t = self.fresh(); lines.append(f"let {t} ← AxisIndex.to_flattened {r} {s}"); return t, "usize"
            if name in ("major", "minor") and not args: return f"{r}.{name}", "usize"
        if tr == "AxisShape":
            if name in ("major", "minor") and not args: return f"{r}.{name}", "usize"
            if name in ("major_stride", "minor_stride") and not args:
                t = self.fresh(); lines.append(f"let {t} ← AxisShape.{name} {r}"); return t, "usize"
        if tr == "usize" and name == "min" and len(args) == 1:
            b, tb = self.ex(args[0], lines)
            if tb != "usize": raise Untranslatable("min on a non-integer")
            return f"(min {r} {b})", "usize"
        raise Untranslatable(f"method {name}/{len(args)} on {tr}")

    def call(self, e, lines):
        p, args = e[1], e[2]
        if p == ["AxisIndex", "from_flattened"] and len(args) == 2:
            (i, ti), (s, ts) = self.ex(args[0], lines), self.ex(args[1], lines)
            if (ti, ts) != ("usize", "AxisShape"): raise Untranslatable("from_flattened: argument types")
            t = self.fresh(); lines.append(f"let {t} ← AxisIndex.from_flattened {i} {s}"); return t, "AxisIndex"
        if p[-1] == "check_size" and len(args) == 1:
            if p == ["Self", "check_size"]: el = self.L
            elif len(p) == 3 and p[0] == "Matrix" and isinstance(p[1], tuple) and len(p[1][1]) == 1 \
                    and p[1][1][0][0] == "ty" and p[1][1][0][1] in self.tparams and not p[1][1][0][2]:
                el = p[1][1][0][1]
            else: raise Untranslatable("check_size: element type not given as Matrix::<X> / Self")
            n, tn = self.ex(args[0], lines)
            if tn != "usize": raise Untranslatable("check_size: the argument is not an integer")
            t = self.fresh(); lines.append(f"let {t} ← Matrix.check_size es_{el} {n}"); return t, ("result", "usize")
        if p == ["Vec", "new"] and not args:
            if self.mode != "new": raise Untranslatable("Vec::new() in a method that does not build a matrix")
            return f"(#[] : Array {self.U})", ("vec", self.U)
        if p in (["cmp", "min"], ["std", "cmp", "min"], ["core", "cmp", "min"]) and len(args) == 2:
            (a, ta), (b, tb) = self.ex(args[0], lines), self.ex(args[1], lines)
            if (ta, tb) != ("usize", "usize"): raise Untranslatable("cmp::min on non-integers")
            return f"(min {a} {b})", "usize"
        if len(p) == 1 and p[0] in self.ops and not any(p[0] in s for s in self.scope):
            ats, rt, mut_first = self.ops[p[0]]
            if len(args) != len(ats): raise Untranslatable(f"{p[0]}: number of arguments")
            vs = []
            for a, want in zip(args, ats):
                v, tv = self.ex(a, lines)
                if tv != ("elem", want): raise Untranslatable(f"{p[0]}: argument of type {tv}, expected an element of {want}")
                vs.append(v)
            if mut_first:
                a0 = args[0]
                if not (a0[0] == "path" and len(a0[1]) == 1 and a0[1][0] in self.mutvars):
                    raise Untranslatable(f"{p[0]}: the `&mut` argument is not the element handed out by `iter_mut()`")
                lines.append(f"let {vs[0]} := {lean_id(p[0])} {' '.join(vs)}")
                return "()", "unit"
            return f"({lean_id(p[0])} {' '.join(vs)})", ("elem", rt)
        raise Untranslatable("call " + "::".join(x if isinstance(x, str) else "<…>" for x in p))

    # -- walks
    def walk(self, e, ind):
        """(lines of a do block without its final `pure`, lean value of the block, type)"""
        base, names, args = chain(e)
        pad = "  " * ind
        if len(names) < 2: raise Untranslatable("walk: too short")
        src = self.mat(base[1]) if base[0] == "field" and base[2] == "data" else None
        if not src: raise Untranslatable("walk does not start with `M.data`")
        if names[-1] == "collect":
            if names[-2] != "map" or args[-1] or len(args[-2]) != 1: raise Untranslatable("`.collect()` not directly after `.map(closure)`")
            if names[0] not in ("iter", "into_iter") or args[0]: raise Untranslatable(f"walk starts with .{names[0]}")
            if names[0] == "into_iter" and not (self.ast["recv"] == "own" and src[0] == "self_"):
                raise Untranslatable("into_iter() on a borrowed matrix")
            adaptors, aargs, clos, kind = names[1:-2], args[1:-2], args[-2][0], "map"
        elif names[-1] == "for_each":
            if len(args[-1]) != 1: raise Untranslatable("for_each: one argument")
            if self.mode != "inplace" or names[0] != "iter_mut" or args[0] or src[0] != "self_":
                raise Untranslatable("for_each on something else than `self.data.iter_mut()` of a `&mut self` method")
            adaptors, aargs, clos, kind = names[1:-1], args[1:-1], args[-1][0], "for_each"
        else:
            raise Untranslatable(f"walk ends with .{names[-1]}")
        if clos[0] != "closure" or len(clos[1]) != 1: raise Untranslatable("the argument is not a one-parameter closure")
        pat = clos[1][0]
        length = f"{src[1]}.size"
        reads = []                      # (pattern variable, buffer, element type)
        if adaptors == []:
            if pat[0] != "pvar": raise Untranslatable("closure parameter: a single variable expected")
            pos = "pos_"; reads.append((pat[1], src[1], src[2]))
        elif adaptors == ["zip"]:
            if len(aargs[0]) != 1: raise Untranslatable("zip: one argument")
            z = aargs[0][0]
            zb, zn, za = chain(z)
            other = self.mat(zb[1]) if zb[0] == "field" and zb[2] == "data" else None
            if not other or zn not in ([], ["iter"]) or any(za): raise Untranslatable("zip: the argument is not `&N.data` / `N.data.iter()`")
            if self.in_for_each or (kind == "for_each" and other[0] == "self_"): raise Untranslatable("zip with the buffer being mutated")
            if not (pat[0] == "ptuple" and len(pat[1]) == 2 and all(q[0] == "pvar" for q in pat[1])):
                raise Untranslatable("closure parameter: `(x, y)` expected after zip")
            pos = "pos_"; length = f"(min {src[1]}.size {other[1]}.size)"
            reads += [(pat[1][0][1], src[1], src[2]), (pat[1][1][1], other[1], other[2])]
        elif adaptors == ["enumerate"]:
            if aargs[0]: raise Untranslatable("enumerate with arguments")
            if not (pat[0] == "ptuple" and len(pat[1]) == 2 and all(q[0] == "pvar" for q in pat[1])):
                raise Untranslatable("closure parameter: `(i, x)` expected after enumerate")
            pos = pat[1][0][1]; self.check_name(pos)
            reads.append((pat[1][1][1], src[1], src[2]))
        else:
            raise Untranslatable("adaptors " + ".".join(adaptors))
        names_ = [r[0] for r in reads] + ([pos] if pos != "pos_" else [])
        if len(set(names_)) != len(names_): raise Untranslatable("closure parameter binds a name twice")
        for r in reads: self.check_name(r[0])
        # the closure body
        self.scope.append({pos: "usize"} if pos != "pos_" else {})
        body_lines = []
        for v, buf, el in reads:
            body_lines.append(f"let {lean_id(v)} ← getUnchecked {buf} {lean_id(pos)}")
            self.scope[-1][v] = ("elem", el)
        saved_mut, saved_fe = self.mutvars, self.in_for_each
        if kind == "for_each":
            self.mutvars = {reads[0][0]}; self.in_for_each = True
        else:
            self.mutvars = set()
        val, ty = self.closure_body(clos[2], body_lines, kind)
        if kind == "for_each":
            val, ty = lean_id(reads[0][0]), ("elem", reads[0][2])
            if self.lookup(reads[0][0]) != ty: raise Untranslatable("the `&mut` pattern variable is shadowed in the closure body")
        self.mutvars, self.in_for_each = saved_mut, saved_fe
        self.scope.pop()
        if not (isinstance(ty, tuple) and ty[0] == "elem"): raise Untranslatable(f"the closure yields {ty}, not an element")
        out = []
        if kind == "map":
            out.append(pad + f"Vec.reserveExact es_{ty[1]} {length}")
        out.append(pad + f"let items ← (List.range {length}).mapM (fun {lean_id(pos)} => do")
        out += [pad + "    " + l for l in body_lines]
        out.append(pad + f"    pure {val})")
        if kind == "map":
            return out, "items.toArray", ("vec", ty[1])
        return out, "(items.toArray ++ self_data.extract items.length self_data.size)", ("vec", ty[1])

    def closure_body(self, b, lines, kind):
        for st in b[1]:
            if st[0] == "let":
                if st[1][0] != "pvar": raise Untranslatable("let with a pattern in a closure")
                name = st[1][1]; self.check_name(name)
                v, t = self.ex(st[2], lines)
                if not (t in SCALARS or (isinstance(t, tuple) and t[0] == "elem")): raise Untranslatable(f"let {name}: value of type {t}")
                lines.append(f"let {lean_id(name)} := {v}")
                self.scope[-1][name] = t
                self.mutvars.discard(name)
            else:
                v, t = self.ex(st[1], lines)
                if t != "unit": raise Untranslatable("expression statement in a closure that is not a call of the `&mut` closure")
        if b[2] is None:
            if kind == "map": raise Untranslatable("map closure without a value")
            return "()", "unit"
        v, t = self.ex(b[2], lines)
        if kind == "for_each" and t != "unit": raise Untranslatable("for_each closure with a value")
        return v, t

    def data_block(self, b, ind, last):
        """a block whose value is a buffer: `{ lets; WALK }` -> lines of a `do` ending in `pure VALUE`; returns (lines, type)"""
        pad = "  " * ind
        self.scope.append({})
        out = self.lets(b[1], ind)
        if b[2] is None or not is_walk(b[2], last): raise Untranslatable(f"branch does not end in a walk with .{last}(..)")
        lines, val, ty = self.walk(b[2], ind)
        self.scope.pop()
        return out + lines + [pad + f"pure {val}"], ty

    def lets(self, sts, ind):
        out = []; pad = "  " * ind
        for st in sts:
            if st[0] != "let" or st[1][0] != "pvar": raise Untranslatable("statement inside a branch that is not a plain `let`")
            name = st[1][1]; self.check_name(name)
            lines = []; v, t = self.ex(st[2], lines)
            if t not in SCALARS: raise Untranslatable(f"let {name}: value of type {t}")
            out += [pad + l for l in lines] + [pad + f"let {lean_id(name)} := {v}"]
            self.scope[-1][name] = t
        return out

    def data_expr(self, e, ind, last, target):
        """`WALK` or `if C { WALK } else { WALK }` bound to `target`; returns (lines, type)"""
        pad = "  " * ind
        if e[0] == "if":
            lines = []; c, tc = self.ex(e[1], lines)
            if tc != "bool": raise Untranslatable("condition is not a bool")
            t_lines, t1 = self.data_block(self.stmt_block(e[2], last), ind + 2, last)
            f_lines, t2 = self.data_block(self.stmt_block(e[3], last), ind + 2, last)
            if t1 != t2: raise Untranslatable("the two branches yield different buffers")
            out = [pad + l for l in lines] + [pad + f"let {target} ← (if {c} then do"] + t_lines + [pad + "  else do"] + f_lines
            out[-1] += ")"
            return out, t1
        lines, ty = self.data_block(("block", [], e), ind + 2, last)
        out = [pad + f"let {target} ← (do"] + lines
        out[-1] += ")"
        return out, ty

    @staticmethod
    def stmt_block(b, last):
        """`{ WALK; }` (statement form, for `for_each`) is read as `{ WALK }`"""
        if last == "for_each" and b[2] is None and b[1] and b[1][-1][0] == "expr":
            return ("block", b[1][:-1], b[1][-1][1])
        return b

    # -- function body
    def qmark(self, v, binder):
        if self.mode == "new": return f"bindErr {v} (fun {binder} => do"
        return f"bindErrSt {v} {self.state()} (fun {binder} => do"

    def fn_block(self, b, ind):
        pad = "  " * ind
        sts, tail = b[1], b[2]
        out = []
        for n, st in enumerate(sts):
            e = st[2] if st[0] == "let" else st[1]
            if st[0] == "let":
                if st[1][0] != "pvar": raise Untranslatable("let with a pattern")
                name = st[1][1]; self.check_name(name)
            if e[0] == "try":
                lines = []; v, t = self.ex(e[1], lines)
                if not (isinstance(t, tuple) and t[0] == "result"): raise Untranslatable("`?` on something that is not a Result")
                out += [pad + l for l in lines]
                self.scope.append({})
                binder = "_"
                if st[0] == "let":
                    if t[1] not in SCALARS: raise Untranslatable(f"let {name} = …?: value of type {t[1]}")
                    binder = lean_id(name); self.scope[-1][name] = t[1]
                out.append(pad + self.qmark(v, binder))
                out += self.fn_block(("block", sts[n + 1:], tail), ind + 1)
                self.scope.pop()
                out[-1] += ")"
                return out
            if st[0] == "let":
                if e[0] == "if" or is_walk(e, "collect"):
                    lines, t = self.data_expr(e, ind, "collect", lean_id(name))
                    out += lines
                else:
                    lines = []; v, t = self.ex(e, lines)
                    if t not in SCALARS and not (isinstance(t, tuple) and t[0] == "vec" and e[0] == "call"):
                        raise Untranslatable(f"let {name}: value of type {t}")
                    out += [pad + l for l in lines] + [pad + f"let {lean_id(name)} := {v}"]
                self.scope[-1][name] = t
                continue
            if self.mode == "inplace" and (e[0] == "if" or is_walk(e, "for_each")):
                lines, t = self.data_expr(e, ind, "for_each", "self_data")
                if t != ("vec", self.L): raise Untranslatable("for_each writes elements of another type")
                out += lines
                continue
            raise Untranslatable(f"statement: {e[0]} {e[2] if e[0] == 'mcall' else ''}")
        if tail is None: raise Untranslatable("the function body has no value")
        if tail[0] == "if":
            lines = []; c, tc = self.ex(tail[1], lines)
            if tc != "bool": raise Untranslatable("condition is not a bool")
            out += [pad + l for l in lines]
            out.append(pad + f"if {c} then do")
            self.scope.append({}); out += self.fn_block(tail[2], ind + 1); self.scope.pop()
            out.append(pad + "else do")
            self.scope.append({}); out += self.fn_block(tail[3], ind + 1); self.scope.pop()
            return out
        out.append(pad + "pure " + self.result(tail))
        return out

    def result(self, e):
        if e[0] == "call" and e[1] == ["Err"] and len(e[2]) == 1 and e[2][0][0] == "path" and len(e[2][0][1]) == 2 and e[2][0][1][0] == "Error":
            n = e[2][0][1][1]; err = "Error." + n[0].lower() + n[1:]
            return f"(Except.error {err})" if self.mode == "new" else f"(Except.error {err}, {self.state()})"
        if e[0] == "call" and e[1] == ["Ok"] and len(e[2]) == 1:
            v = e[2][0]
            if self.mode == "inplace":
                if v != ("path", ["self"]): raise Untranslatable("the result is not Ok(self)")
                return f"(Except.ok (), {self.state()})"
            if v[0] == "struct" and v[1] == ["Matrix"]:
                fields = dict(v[2])
                if sorted(fields) != ["data", "order", "shape"] or len(v[2]) != 3: raise Untranslatable("Matrix { .. }: fields")
                vals = {}
                for f, want in (("order", "Order"), ("shape", "AxisShape"), ("data", ("vec", self.U))):
                    lines = []; x, t = self.ex(fields[f], lines)
                    if lines: raise Untranslatable("Matrix { .. }: effectful field")
                    if t != want: raise Untranslatable(f"Matrix {{ .. }}: field {f} has type {t}")
                    vals[f] = x
                return f"(Except.ok ({{ order := {vals['order']}, shape := {vals['shape']}, data := {vals['data']} }} : Matrix {self.U}))"
        raise Untranslatable("the result is not Ok(Matrix { order, shape, data }) / Ok(self) / Err(Error::X)")

    def signature(self, lean_name):
        tps = " ".join(self.tparams)
        ess = " ".join("es_" + t for t in self.tparams)
        return (f"def {lean_name} {{{tps} : Type}} ({ess} : Nat) (self_ : Hdr) (self_data : Array {self.L}) "
                + " ".join(self.binders) + f" :\n    {self.ret_ty}")

    def emit(self, lean_name):
        body = self.fn_block(self.ast["body"], 1)
        return self.signature(lean_name) + " := do\n" + "\n".join(body) + "\n"


# ------------------------------------------------------------------ jobs
ENSURE_JOBS = [
    ("ensure_elementwise_operation_conformable", "Matrix.ensure_elementwise_operation_conformable",
     {("is_elementwise_operation_conformable", 1): "Matrix.is_elementwise_operation_conformable"}),
]
NEW_SIG = ("def {n} {{L R U : Type}} (es_L es_R es_U : Nat) (self_ : Hdr) (self_data : Array L) (rhs : Hdr) (rhs_data : Array R) "
           "(op : L → R → U) :\n    M (Except Error (Matrix U))")
INPLACE_SIG = ("def {n} {{L R : Type}} (es_L es_R : Nat) (self_ : Hdr) (self_data : Array L) (rhs : Hdr) (rhs_data : Array R) "
               "(op : L → R → L) :\n    M (Except Error Unit × Matrix L)")
FN_JOBS = [
    ("elementwise_operation", "Matrix.elementwise_operation", NEW_SIG),
    ("elementwise_operation_consume_self", "Matrix.elementwise_operation_consume_self", NEW_SIG),
    ("elementwise_operation_assign", "Matrix.elementwise_operation_assign", INPLACE_SIG),
]

HEADER = """/-
GENERATED by translate/t9.py from /repo/src/arithmetic.rs on every run — do not edit.
The generic elementwise operations as functions on (header, element array) pairs and a closure.  `es_X` is
`size_of::<X>()`; `self_data` / `rhs_data` are the buffers `self.data` / `rhs.data`.  Walks over the buffers
(`iter().zip(..)`, `iter().enumerate()`, `.map(..).collect()`, `.for_each(..)`) are `List.range LEN |>.mapM`
over the positions, reading with the model's `getUnchecked`; `collect` allocates first (`Vec.reserveExact`);
integer arithmetic is checked.  An in-place method returns (result, the matrix it leaves behind).
-/
import Matreex.Gen.Core
import Matreex.Gen.Simple
import Matreex.Model.Matrix
import Matreex.Model.Mem
import Matreex.Model.Construct

set_option linter.unusedVariables false

namespace Matreex.Gen
open Matreex

/-- `expr?` inside a `&mut self` method: an early `Err` returns with the state as it is at that point -/
def bindErrSt {σ α : Type} (x : Except Error α) (st : σ) (f : α → M (Except Error Unit × σ)) :
    M (Except Error Unit × σ) :=
  match x with
  | .ok a => f a
  | .error e => .ok (.error e, st)

"""


def lib_delegates(root):
    """which of `Matrix::size` / `Matrix::is_empty` are still the plain delegations to `self.data`"""
    ok = set()
    try:
        lib = strip_rust_comments(open(f"{root}/lib.rs").read())
        for name, want in (("size", "self.data.len()"), ("is_empty", "self.data.is_empty()")):
            try:
                text = find_fn(lib, r"impl<T> Matrix<T>\s*\{", name)
                body = re.sub(r"\s+", "", text[text.index("{"):])
                if body == "{" + want + "}": ok.add(name)
            except (Untranslatable, ValueError):
                pass
    except OSError:
        pass
    return ok


def run_t9(root):
    out, done, failed = [], [], []
    try:
        raw = open(f"{root}/arithmetic.rs").read()
    except OSError as ex:
        raw = ""
    src = strip_rust_comments(raw)
    ensure_known = False
    for name, lean_name, mtable in ENSURE_JOBS:
        try:
            out.append(t2.translate(src, r"impl<L> Matrix<L>\s*\{", name, "Hdr", lean_name, dict(mtable), {}))
            done.append(lean_name)
            if name == ENSURE_JOBS[0][0]: ensure_known = True
        except (Untranslatable, ValueError, IndexError) as ex:
            failed.append((lean_name, str(ex)))
            out.append(f"def {lean_name} (self_ : Hdr) (rhs : Hdr) : M (Except Error Hdr) :=\n  .error (.panic \"untranslatable\")\n")
    delegates = lib_delegates(root)
    for name, lean_name, fallback in FN_JOBS:
        try:
            impl_param, text = locate(src, name)
            ast = F9(drop_lifetimes(lex(text))).header()
            out.append(Fn9(impl_param, ast, delegates, ensure_known).emit(lean_name))
            done.append(lean_name)
        except Untranslatable as ex:
            failed.append((lean_name, str(ex)))
            out.append(fallback.format(n=lean_name) + " :=\n  .error (.panic \"untranslatable\")\n")
        except Exception as ex:      # a malformed function must not stop the pipeline: report it, emit the stub
            failed.append((lean_name, f"not parsed ({type(ex).__name__}: {ex})"))
            out.append(fallback.format(n=lean_name) + " :=\n  .error (.panic \"untranslatable\")\n")
    return HEADER + "\n".join(out) + "\nend Matreex.Gen\n", done, failed


if __name__ == "__main__":
    root = sys.argv[1] if len(sys.argv) > 1 else "/repo/src"
    text, done, failed = run_t9(root)
    print(text)
    print(done, failed, file=sys.stderr)
