#!/usr/bin/env python3
"""Translator T8 ("construct / reshape"): the shape-taking constructors of src/construct.rs
(`with_default`, `with_value`, `with_initializer`), `Matrix::reshape` and `Matrix::size` of src/lib.rs
-> Lean 4 functions (`Gen/T8Gen.lean`), regenerated on every run.  Every Lean term is derived from the
Rust statements of the function: which conversion is applied to which operand with which order, which
size is checked with `check_size`, the position of the checks relative to the allocation, the operands
of the allocation, the loop bound, the operands of `Index::from_flattened`, what is pushed, which
fields the result is assembled from, which error every early exit returns and what has been assigned
to `self` before it.  Only the *vocabulary* of std (`Vec::with_capacity`, `vec![v; n]`,
`Vec::resize_with`, `Vec::push`, `Into::into`, `Default::default`) is mapped by name to primitives of
the hand-written model (`Vec.reserveExact`, `resizeData`, `Array.replicate`, `Array.push`), with the
arguments taken from the Rust text.  Anything outside the language below is reported
(`Untranslatable`), never guessed; the function then becomes a stub that faults, so the file still
compiles and the bridge theorem (`Lemmas/BridgeT8.lean`) fails.

Signatures (checked)
    fn NAME<S[, F]>(shape: S, [value: T,] [mut f: F]) -> Result<Self> where S: Into<Shape>, [T: Default | Clone,]
                                                                          [F: FnMut(Index) -> T]
        -> def Matrix.NAME {α} (es : Nat) (shape : Shape) [(value : α)] [(f : Index → α)] [(dflt : α)]
               : M (Except Error (Matrix α))            (`dflt` = `T::default()`, present iff `T: Default`)
    fn NAME<S>(&mut self, shape: S) -> Result<&mut Self> where S: Into<Shape>
        -> def Matrix.NAME (self_ : Hdr) (len : Nat) (shape : Shape) : M (Except Error Unit × Hdr)
               the header after the call is returned in BOTH outcomes; `len` is `self.data.len()`;
               `self.data` cannot be touched in any other way, so the buffer is unchanged by construction
    fn NAME(&self) -> usize
        -> def Matrix.NAME (self_ : Hdr) (len : Nat) : M Nat

Statements
    let [mut] x [: TYPE] = EXPR;             x keeps its Rust name; `mut` only on vectors; an annotation must be the
                                             type the checker finds
    let x = EXPR?;   /   EXPR?;              `match … with | .error e => <return Err(e)> | .ok x => <rest>`
    let Ok(x) = EXPR else { return RET; };   `match … with | .ok x => <rest> | .error _ => <RET>`
    if COND { ..; return RET; }              early exit (no `else`); the rest of the block is the else branch
    self.shape = EXPR;  self.order = EXPR;   functional update of the header (`&mut self` functions)
    let [mut] v = Vec::with_capacity(N);     `Vec.reserveExact es N` (capacity-overflow panic), v := #[]
    let [mut] v = Vec::new();                v := #[]
    let [mut] v = vec![X; N];                `Vec.reserveExact es N`, v := Array.replicate N X
    v.resize_with(N, T::default);            `if N > v.size then Vec.reserveExact es N`, v := resizeData v N dflt
    v.push(X);                               v := v.push X           (growth of a vector is not a fault of the model)
    for i in 0..EXPR { .. }                  a fold over 0, 1, …, EXPR-1 carrying the one `let mut` vector in scope;
                                             the body: `let`, `v.push`, `v.resize_with`, nested `for`
    RET                                      tail of the function, or `return RET;` as its last statement
  RET ::= Ok(Self { order: E, shape: E, data: V })  |  Ok(self)  |  Err(Error::X)
          (field shorthand accepted)            -> `pure (.ok ⟨…⟩)` / `pure (.ok (), self_)` / `pure (.error X[, self_])`

Expressions (a checker assigns usize | bool | Order | Shape | AxisShape | Index | T | Result<τ> to every
expression; an operation on the wrong type is untranslatable)
    integers, locals, usize::MAX; + - * / % (checked `uadd usub umul udiv urem`); == != < > <= >=; ! && ||
    a.min(b) a.max(b) cmp::min(a, b) cmp::max(a, b)
    Order::RowMajor  Order::ColMajor
    Order::default()                         the `#[default]` variant of `enum Order`, read from src/order.rs
    p.into()                                 p a parameter of a type `S: Into<Shape>`: the model's `Shape` value
    s.try_to_axis_shape(o)  s.to_axis_shape_unchecked(o)  s.size()                  on a Shape      (T2's Gen functions)
    a.size()  a.major()  a.minor()  a.major_stride()  a.minor_stride()  a.nrows(o)  a.ncols(o)  a.to_shape(o)
                                                                                      on an AxisShape (T2's Gen functions)
    Self::check_size(n)  Matrix::<T>::check_size(n)                                  T2's Gen.Matrix.check_size es n
    Index::from_flattened(k, o, a)           T2's Gen.Index.from_flattened
    Index::new(r, c)                         Gen.Index.new (Gen/Simple.lean)
    f(X)                                     f a parameter of a type `F: FnMut(Index) -> T` (an effect-free closure,
                                             as in the model): function application
    T::default()                             `dflt` (an effect-free `Default`, as in the model)
    self.order  self.shape                   fields of the header
    self.size()                              Gen.Matrix.size self_ len  (translated here from `fn size`)
    self.data.len()                          `len`
    self.nrows()  self.ncols()               T2's Gen.Matrix.nrows / ncols
Locals keep their Rust names (a Lean keyword is written «x»; a name the generated code binds itself — `es`,
`len`, `self_`, `dflt`, `err_`, `t1`, … — is untranslatable).
"""
import re, sys, os
sys.path.insert(0, os.path.dirname(os.path.abspath(__file__)))
from t2 import lex, find_fn, P, Untranslatable, strip_rust_comments

USIZE, BOOL, ORDER, SHAPE, ASHAPE, INDEX, ELEM, VEC, INTO = \
    "usize", "bool", "Order", "Shape", "AxisShape", "Index", "T", "Vec<T>", "impl Into<Shape>"
LEAN_OF = {USIZE: "Nat", BOOL: "Bool", ORDER: "Order", SHAPE: "Shape", ASHAPE: "AxisShape", INDEX: "Index", ELEM: "α"}


def RESULT(t): return ("Result", t)


def annot_type(t):
    """the checker's type for a `let x: TYPE` annotation, or None"""
    if t[0] == "ty" and not t[2]:
        return {"usize": USIZE, "bool": BOOL, "Order": ORDER, "Shape": SHAPE, "AxisShape": ASHAPE, "Index": INDEX}.get(t[1])
    if t == ("ty", "Vec", [("ty", "T", [])]): return VEC
    return None


RESERVED = set("""es len self_ dflt err_ α pure bind decide uadd usub umul udiv urem min max fun do let if then else match
 with M Nat List Array Hdr AxisShape Shape Order Index Error Except Matrix Vec resizeData usizeMax isizeMax Gen Matreex
 true false Unit""".split())
LEAN_KEYWORDS = {"from", "at", "end", "have", "show", "by", "then", "with", "where", "open", "namespace", "section",
                 "variable", "theorem", "def", "instance", "structure", "class", "deriving", "import", "export",
                 "universe", "using", "calc", "obtain", "suffices", "exists", "forall", "Type", "Prop", "Sort",
                 "fun", "do", "in", "nomatch", "nofun", "private", "protected", "mutual", "macro", "syntax",
                 "notation", "infix", "infixl", "infixr", "prefix", "postfix", "abbrev", "axiom", "example",
                 "inductive", "opaque", "attribute", "local", "scoped", "set_option", "omit", "include", "extends",
                 "termination_by", "decreasing_by", "partial", "noncomputable", "unsafe", "try", "catch", "finally",
                 "unless", "repeat", "rec", "mut", "meta", "public", "this", "Exists", "sorry", "admit", "assert",
                 "generalizing", "only", "elab", "initialize", "renaming", "hiding", "exposing", "all", "module",
                 "for", "return", "break", "continue", "instance", "λ"}

# (file, impl hint, rust fn, lean name, element size parameter, T2 / Simple functions the vocabulary may refer to)
JOBS = [
    ("lib.rs", r"impl<T> Matrix<T>\s*\{", "size", "Matrix.size", False),
    ("lib.rs", r"impl<T> Matrix<T>\s*\{", "reshape", "Matrix.reshape", False),
    ("construct.rs", r"impl<T> Matrix<T>\s*\{", "with_default", "Matrix.with_default", True),
    ("construct.rs", r"impl<T> Matrix<T>\s*\{", "with_value", "Matrix.with_value", True),
    ("construct.rs", r"impl<T> Matrix<T>\s*\{", "with_initializer", "Matrix.with_initializer", True),
]


def lean_id(name):
    return f"«{name}»" if name in LEAN_KEYWORDS else name


def check_name(name, what):
    if name in RESERVED or re.fullmatch(r"t\d+", name):
        raise Untranslatable(f"{what} `{name}` collides with a name of the generated code")


# ------------------------------------------------------------------ parser
class C(P):
    """signature + statement-level parser; expressions are T2's, plus `vec![x; n]`"""

    def sig(self):
        self.eat("fn"); name = self.next()[1]
        generics = []
        if self.at("<"):
            self.next()
            while not self.at(">"):
                k, g = self.next()
                if k != "id" or not (self.at(",") or self.at(">")):
                    raise Untranslatable("generic parameter list is not a list of plain type names")
                generics.append(g)
                if self.at(","): self.next()
            self.eat(">")
        self.eat("("); params = []; selfkind = None
        while not self.at(")"):
            if self.at("&"):
                self.next(); mut = self.at("mut")
                if mut: self.next()
                self.eat("self"); selfkind = "&mut" if mut else "&"
                if params: raise Untranslatable("`self` is not the first parameter")
            else:
                if self.at("mut"): self.next()
                k, pname = self.next()
                if k != "id" or pname == "self": raise Untranslatable(f"parameter {pname!r}")
                self.eat(":")
                if self.at("&"): raise Untranslatable(f"parameter {pname}: a reference")
                params.append((pname, self.ty()))
            if self.at(","): self.next()
            elif not self.at(")"): raise Untranslatable(f"parameter list: unexpected {self.peek()[1]!r}")
        self.eat(")")
        self.eat("->")
        retref = False
        if self.at("&"):
            raise Untranslatable("return type is a bare reference")
        ret = self.rty()
        bounds = {}
        if self.at("where"):
            self.next()
            while not self.at("{"):
                k, tv = self.next()
                if k != "id": raise Untranslatable(f"where clause: unexpected {tv!r}")
                self.eat(":")
                bounds.setdefault(tv, []).append(self.bound())
                while self.at("+"):
                    self.next(); bounds[tv].append(self.bound())
                if self.at(","): self.next()
                elif not self.at("{"): raise Untranslatable(f"where clause: unexpected {self.peek()[1]!r}")
        body = self.cblock()
        if self.peek()[0] != "eof": raise Untranslatable("text after the function body")
        return {"name": name, "generics": generics, "self": selfkind, "params": params, "ret": ret,
                "bounds": bounds, "body": body}

    def rty(self):
        """return type: usize | Result<Self> | Result<&mut Self>"""
        k, v = self.next()
        if v == "usize": return "usize"
        if v != "Result": raise Untranslatable(f"return type {v}")
        self.eat("<")
        if self.at("&"):
            self.next(); self.eat("mut"); self.eat("Self"); self.eat(">")
            return "Result<&mut Self>"
        self.eat("Self"); self.eat(">")
        return "Result<Self>"

    def bound(self):
        """`Into<Shape>` | `Default` | `Clone` | `FnMut(Index) -> T`   (as a tuple)"""
        k, v = self.next()
        if k != "id": raise Untranslatable(f"trait bound: unexpected {v!r}")
        if v in ("FnMut", "Fn", "FnOnce") and self.at("("):
            self.next(); args = []
            while not self.at(")"):
                args.append(self.ty())
                if self.at(","): self.next()
            self.eat(")"); self.eat("->"); r = self.ty()
            return ("fn", v, args, r)
        args = []
        if self.at("<"):
            self.next()
            while not self.at(">"):
                args.append(self.ty())
                if self.at(","): self.next()
            self.eat(">")
        return ("trait", v, args)

    def cblock(self):
        self.eat("{"); stmts = []
        while not self.at("}"):
            if self.peek()[0] == "eof": raise Untranslatable("unterminated block")
            stmts.append(self.cstmt())
        self.eat("}")
        return stmts

    def cstmt(self):
        v = self.peek()[1]
        if v in ("continue", "break", "while", "loop", "match", "const", "static", "fn", "#", "unsafe", "struct",
                 "impl", "use"):
            raise Untranslatable(f"`{v}` statement")
        if v == "return":
            self.next(); e = self.expr(); self.eat(";")
            return ("return", e)
        if v == "for":
            self.next(); k, var = self.next()
            if k != "id": raise Untranslatable("for: pattern instead of a loop variable")
            self.eat("in")
            lo = self.expr(5, True)
            if lo != ("num", 0): raise Untranslatable("for: the range does not start at the literal 0")
            if not self.at(".."): raise Untranslatable("for: not a range `0..n`")
            self.next()
            if self.at("="): raise Untranslatable("for: inclusive range")
            hi = self.expr(0, True)
            return ("for", var, hi, self.cblock())
        if v == "if":
            self.next(); c = self.expr(0, True)
            t = self.cblock()
            if self.at("else"): raise Untranslatable("`if` with an `else` branch")
            return ("if", c, t)
        if v == "let":
            self.next()
            if self.at("Ok") and self.peek(1)[1] == "(":
                self.next(); self.eat("(")
                k, name = self.next()
                if k != "id": raise Untranslatable("let Ok(..): a pattern inside")
                self.eat(")"); self.eat("="); e = self.expr(0, True)
                self.eat("else"); blk = self.cblock(); self.eat(";")
                return ("letelse", name, e, blk)
            mut = self.at("mut")
            if mut: self.next()
            k, name = self.next()
            if k != "id": raise Untranslatable("let with a pattern")
            ann = None
            if self.at(":"):
                self.next(); ann = self.ty()
                ann = annot_type(ann)
                if ann is None: raise Untranslatable(f"let {name}: type annotation outside usize / bool / Order / Shape / AxisShape / Index / Vec<T>")
            self.eat("="); e = self.expr(); self.eat(";")
            return ("let", name, e, mut, ann)
        e = self.expr()
        if self.at(";"):
            self.next(); return ("do", e)
        if self.at("="):
            self.next(); rhs = self.expr(); self.eat(";")
            return ("assign", e, rhs)
        return ("tail", e)

    def atom(self, nostruct):
        k, v = self.peek()
        if v == "vec" and self.peek(1)[1] == "!":
            self.next(); self.next(); self.eat("[")
            x = self.expr(); self.eat(";"); n = self.expr(); self.eat("]")
            return ("vecmacro", x, n)
        if v in ("|", "||", "move"): raise Untranslatable("closure expression")
        if v in ("unsafe", "loop", "while", "match"): raise Untranslatable(f"`{v}` expression")
        if v == "..": raise Untranslatable("range expression")
        return super().atom(nostruct)

    def postfix(self, e):
        while True:
            if self.at("["): raise Untranslatable("indexing `x[..]`")
            if self.at("."):
                self.next(); name = self.next()[1]
                if self.at("::"): raise Untranslatable("turbofish on a method")
                if self.at("("):
                    e = ("mcall", e, name, self.args())
                else:
                    e = ("field", e, name)
            elif self.at("?"):
                self.next(); e = ("try", e)
            else:
                return e


# ------------------------------------------------------------------ emitter
class Fn:
    """one function: scope, type checker, expression and statement emitter"""

    def __init__(self, ast, lean_name, with_es, default_order, available):
        self.ast = ast; self.lean_name = lean_name; self.with_es = with_es
        self.default_order = default_order      # Lean constructor of `Order::default()`, or an Untranslatable
        self.available = available              # names T2 translated on this run (None = do not check)
        self.n = 0
        self.scope = [{}]                       # name -> (type, is a `let mut` vector)
        self.has_default = False
        self.mode = None                        # "ctor" | "method" | "getter"

    # --- names
    def fresh(self):
        while True:
            self.n += 1; t = f"t{self.n}"
            if self.lookup(t) is None: return t

    def lookup(self, name):
        for s in reversed(self.scope):
            if name in s: return s[name]
        return None

    def bind(self, name, ty, mutvec=False):
        check_name(name, "local")
        self.scope[-1][name] = (ty, mutvec)

    def need(self, gen_name):
        """a function of Gen/Core.lean or Gen/Simple.lean must have been translated on this run"""
        if self.available is not None and gen_name not in self.available:
            raise Untranslatable(f"refers to {gen_name}, which T2 did not translate on this run")
        return gen_name

    # --- expressions: returns (lean term, type); effects are appended to `lines`
    def ex(self, e, lines):
        k = e[0]
        if k == "num": return str(e[1]), USIZE
        if k == "path":
            p = e[1]
            if len(p) == 1:
                if p[0] == "self": raise Untranslatable("`self` as a value")
                if p[0] in ("true", "false"): return p[0], BOOL
                b = self.lookup(p[0])
                if b is None: raise Untranslatable(f"`{p[0]}` is not a local in scope")
                return lean_id(p[0]), b[0]
            if p == ["Order", "RowMajor"]: return "Order.rowMajor", ORDER
            if p == ["Order", "ColMajor"]: return "Order.colMajor", ORDER
            if p == ["usize", "MAX"]: return "usizeMax", USIZE
            raise Untranslatable(f"path {'::'.join(map(str, p))}")
        if k == "field":
            if e[1] == ("path", ["self"]) and self.mode in ("method", "getter"):
                if e[2] == "order": return "self_.order", ORDER
                if e[2] == "shape": return "self_.shape", ASHAPE
            raise Untranslatable(f"field access .{e[2]}")
        if k == "not":
            a, t = self.ex(e[1], lines)
            if t != BOOL: raise Untranslatable("`!` on a non-bool")
            return f"(!{a})", BOOL
        if k == "bin":
            op = e[1]
            if op in ("&&", "||"):
                a, ta = self.ex(e[2], lines); rl = []; b, tb = self.ex(e[3], rl)
                if rl: raise Untranslatable("effectful right operand of && / ||")
                if (ta, tb) != (BOOL, BOOL): raise Untranslatable(f"`{op}` on non-bools")
                return f"({a} {op} {b})", BOOL
            a, ta = self.ex(e[2], lines); b, tb = self.ex(e[3], lines)
            if op in ("+", "-", "*", "/", "%"):
                if (ta, tb) != (USIZE, USIZE): raise Untranslatable(f"`{op}` on non-integers")
                f = {"+": "uadd", "-": "usub", "*": "umul", "/": "udiv", "%": "urem"}[op]
                t = self.fresh(); lines.append(f"let {t} ← {f} {a} {b}"); return t, USIZE
            if op in ("==", "!="):
                if ta != tb or ta not in (USIZE, ORDER, ASHAPE, SHAPE): raise Untranslatable(f"`{op}` on {ta} and {tb}")
                return f"(decide ({a} {'=' if op == '==' else '≠'} {b}))", BOOL
            if op in ("<", ">", "<=", ">="):
                if (ta, tb) != (USIZE, USIZE): raise Untranslatable(f"`{op}` on non-integers")
                return f"(decide ({a} {op.replace('<=', '≤').replace('>=', '≥')} {b}))", BOOL
            raise Untranslatable(f"operator {op}")
        if k == "try": raise Untranslatable("`?` outside `let x = …?;` / `…?;`")
        if k == "mcall": return self.mcall(e, lines)
        if k == "call": return self.call(e, lines)
        if k == "vecmacro": raise Untranslatable("`vec![..]` outside `let v = vec![..];`")
        if k == "struct": raise Untranslatable("struct literal outside `Ok(Self { .. })`")
        raise Untranslatable(f"expression kind {k}")

    def typed(self, e, want, lines, what):
        a, t = self.ex(e, lines)
        if t != want: raise Untranslatable(f"{what}: expected {want}, found {t if isinstance(t, str) else 'Result<' + str(t[1]) + '>'}")
        return a

    def eff(self, lines, fn, args, ty):
        t = self.fresh(); lines.append(f"let {t} ← {fn} {' '.join(args)}".rstrip()); return t, ty

    def mcall(self, e, lines):
        recv, name, args = e[1], e[2], e[3]
        # --- the receiver `self`
        if recv == ("path", ["self"]):
            if self.mode not in ("method", "getter"): raise Untranslatable("`self` in a function without a receiver")
            if args: raise Untranslatable(f"self.{name} with arguments")
            if name == "size":
                if self.lean_name == "Matrix.size": raise Untranslatable("`size` calls itself")
                return self.eff(lines, "Matrix.size", ["self_", "len"], USIZE)
            if name in ("nrows", "ncols"):
                return self.eff(lines, self.need("Matrix." + name), ["self_"], USIZE)
            raise Untranslatable(f"method self.{name}()")
        if recv == ("field", ("path", ["self"]), "data"):
            if self.mode not in ("method", "getter"): raise Untranslatable("`self` in a function without a receiver")
            if name == "len" and not args: return "len", USIZE
            raise Untranslatable(f"self.data.{name}(..): the buffer may only be asked for its length")
        r, t = self.ex(recv, lines)
        if t == VEC: raise Untranslatable(f"vector method .{name}() in an expression")
        av = [self.ex(a, lines) for a in args]
        at = [x[1] for x in av]; av = [x[0] for x in av]
        if t == INTO and name == "into" and not args: return r, SHAPE
        if t == SHAPE:
            if name == "try_to_axis_shape" and at == [ORDER]:
                return self.eff(lines, self.need("Shape.try_to_axis_shape"), [r] + av, RESULT(ASHAPE))
            if name == "to_axis_shape_unchecked" and at == [ORDER]:
                return self.eff(lines, self.need("Shape.to_axis_shape_unchecked"), [r] + av, ASHAPE)
            if name == "size" and not args:
                return self.eff(lines, self.need("Shape.size"), [r], RESULT(USIZE))
        if t == ASHAPE:
            if name in ("major", "minor") and not args: return f"{r}.{name}", USIZE
            if name in ("size", "major_stride", "minor_stride") and not args:
                return self.eff(lines, self.need("AxisShape." + name), [r], USIZE)
            if name in ("nrows", "ncols") and at == [ORDER]:
                return self.eff(lines, self.need("AxisShape." + name), [r] + av, USIZE)
            if name == "to_shape" and at == [ORDER]:
                return self.eff(lines, self.need("AxisShape.to_shape"), [r] + av, SHAPE)
        if t == USIZE and name in ("min", "max") and at == [USIZE]:
            return f"({name} {r} {av[0]})", USIZE
        tn = t if isinstance(t, str) else "Result<..>"
        raise Untranslatable(f"method .{name}/{len(args)} on {tn}")

    def call(self, e, lines):
        p, args = e[1], e[2]
        if p in (["Vec", "with_capacity"], ["Vec", "new"]): raise Untranslatable("`Vec::…` outside `let v = Vec::…;`")
        if len(p) == 1:
            b = self.lookup(p[0])
            if b is not None and isinstance(b[0], tuple) and b[0][0] == "Fn":
                if len(args) != 1: raise Untranslatable(f"closure `{p[0]}` takes one argument")
                a = self.typed(args[0], b[0][1], lines, f"argument of `{p[0]}`")
                return f"({lean_id(p[0])} {a})", b[0][2]
            raise Untranslatable(f"call of `{p[0]}`")
        if p == ["Order", "default"] and not args:
            if isinstance(self.default_order, Exception): raise self.default_order
            return self.default_order, ORDER
        if p == ["T", "default"] and not args:
            if not self.has_default: raise Untranslatable("`T::default()` without a bound `T: Default`")
            return "dflt", ELEM
        if p in (["Self", "check_size"], ["Matrix", ("targs", [("ty", "T", [])]), "check_size"], ["Matrix", "check_size"]):
            if not self.with_es: raise Untranslatable("check_size in a function that is not given the element size")
            if len(args) != 1: raise Untranslatable("check_size: one argument expected")
            a = self.typed(args[0], USIZE, lines, "argument of check_size")
            return self.eff(lines, self.need("Matrix.check_size"), ["es", a], RESULT(USIZE))
        if p == ["Index", "from_flattened"] and len(args) == 3:
            av = [self.typed(a, w, lines, "argument of Index::from_flattened") for a, w in zip(args, (USIZE, ORDER, ASHAPE))]
            return self.eff(lines, self.need("Index.from_flattened"), av, INDEX)
        if p == ["Index", "new"] and len(args) == 2:
            av = [self.typed(a, USIZE, lines, "argument of Index::new") for a in args]
            return f"({self.need('Index.new')} {av[0]} {av[1]})", INDEX
        if p[-1] in ("min", "max") and p[:-1] in (["cmp"], ["std", "cmp"], ["core", "cmp"]) and len(args) == 2:
            av = [self.typed(a, USIZE, lines, f"argument of cmp::{p[-1]}") for a in args]
            return f"({p[-1]} {av[0]} {av[1]})", USIZE
        raise Untranslatable("call " + "::".join(x if isinstance(x, str) else "<…>" for x in p))

    # --- results
    def ret(self, e, lines):
        """`pure …` for a RET expression"""
        if e[0] == "call" and e[1] == ["Err"] and len(e[2]) == 1:
            x = e[2][0]
            if x[0] == "path" and len(x[1]) == 2 and x[1][0] == "Error" and isinstance(x[1][1], str):
                err = "Error." + x[1][1][0].lower() + x[1][1][1:]
            else:
                raise Untranslatable("Err(..) of something that is not `Error::X`")
            return f"pure (.error {err}, self_)" if self.mode == "method" else f"pure (.error {err})"
        if e[0] == "call" and e[1] == ["Ok"] and len(e[2]) == 1:
            x = e[2][0]
            if self.mode == "method":
                if x != ("path", ["self"]): raise Untranslatable("Ok(..) of something that is not `self`")
                return "pure (.ok (), self_)"
            if x[0] != "struct" or x[1] != ["Self"]: raise Untranslatable("Ok(..) of something that is not `Self { .. }`")
            fields = dict(x[2])
            if sorted(fields) != ["data", "order", "shape"] or len(x[2]) != 3:
                raise Untranslatable("Self { .. }: the fields are not exactly order, shape, data")
            vals = {}
            for f, _ in x[2]:       # evaluation order of the text
                if f == "data":
                    v = fields[f]
                    b = self.lookup(v[1][0]) if v[0] == "path" and len(v[1]) == 1 else None
                    if b is None or b[0] != VEC: raise Untranslatable("Self { data: .. } is not a vector local")
                    vals[f] = lean_id(v[1][0])
                else:
                    vals[f] = self.typed(fields[f], ORDER if f == "order" else ASHAPE, lines, f"Self {{ {f}: .. }}")
            return (f"pure (.ok ({{ order := {vals['order']}, shape := {vals['shape']}, data := {vals['data']} }}"
                    f" : Matrix α))")
        raise Untranslatable("a result that is neither Ok(..) nor Err(..)")

    def propagate(self):
        return "pure (.error err_, self_)" if self.mode == "method" else "pure (.error err_)"

    # --- statements
    def mutvec(self):
        """the one `let mut` vector in scope (what a loop carries)"""
        found = []
        for s in self.scope:
            found += [n for n, (t, m) in s.items() if t == VEC and m]
        if len(found) != 1: raise Untranslatable(f"a loop needs exactly one `let mut` vector in scope (found {len(found)})")
        return found[0]

    def vec_let(self, name, e, mut, out, pad):
        """`let [mut] v = Vec::with_capacity(n) | Vec::new() | vec![x; n];`  -> True if handled"""
        if e[0] == "call" and e[1] == ["Vec", "with_capacity"] and len(e[2]) == 1:
            lines = []; n = self.typed(e[2][0], USIZE, lines, "Vec::with_capacity")
            if not self.with_es: raise Untranslatable("allocation in a function that is not given the element size")
            out += [pad + l for l in lines]
            out.append(pad + f"Vec.reserveExact es {n}")
            out.append(pad + f"let {lean_id(name)} : Array α := #[]")
        elif e[0] == "call" and e[1] == ["Vec", "new"] and not e[2]:
            out.append(pad + f"let {lean_id(name)} : Array α := #[]")
        elif e[0] == "vecmacro":
            lines = []; x = self.typed(e[1], ELEM, lines, "vec![x; n]: x"); n = self.typed(e[2], USIZE, lines, "vec![x; n]: n")
            if not self.with_es: raise Untranslatable("allocation in a function that is not given the element size")
            out += [pad + l for l in lines]
            out.append(pad + f"Vec.reserveExact es {n}")
            out.append(pad + f"let {lean_id(name)} : Array α := Array.replicate {n} {x}")
        else:
            return False
        self.bind(name, VEC, mut)
        return True

    def vec_stmt(self, e, out, pad):
        """`v.push(x);` / `v.resize_with(n, T::default);`  -> True if handled"""
        if e[0] != "mcall" or e[1][0] != "path" or len(e[1][1]) != 1: return False
        v = e[1][1][0]; b = self.lookup(v)
        if b is None or b[0] != VEC: return False
        if not b[1]: raise Untranslatable(f"`{v}` is not `let mut`")
        name, args = e[2], e[3]
        if name == "push" and len(args) == 1:
            lines = []; x = self.typed(args[0], ELEM, lines, "push")
            out += [pad + l for l in lines]
            out.append(pad + f"let {lean_id(v)} := {lean_id(v)}.push {x}")
            return True
        if name == "resize_with" and len(args) == 2:
            if args[1] != ("path", ["T", "default"]): raise Untranslatable("resize_with: the generator is not `T::default`")
            if not self.has_default: raise Untranslatable("`T::default` without a bound `T: Default`")
            if not self.with_es: raise Untranslatable("allocation in a function that is not given the element size")
            lines = []; n = self.typed(args[0], USIZE, lines, "resize_with")
            out += [pad + l for l in lines]
            out.append(pad + f"(if (decide ({n} > {lean_id(v)}.size)) then Vec.reserveExact es {n} else pure ())")
            out.append(pad + f"let {lean_id(v)} := resizeData {lean_id(v)} {n} dflt")
            return True
        raise Untranslatable(f"vector method .{name}/{len(args)}")

    def stmts(self, sts, ind, where):
        """lines of a `do` block.  where = "fn" (must end in a result) | "exit" (must end in `return`) | "loop"."""
        out = []; pad = "  " * ind
        for n, st in enumerate(sts):
            k = st[0]; last = n == len(sts) - 1
            if k in ("tail", "return"):
                if where == "loop": raise Untranslatable("a result inside a loop")
                if not last: raise Untranslatable("code after the result")
                if k == "tail" and where == "exit": raise Untranslatable("early exit without `return`")
                lines = []; r = self.ret(st[1], lines)
                return out + [pad + l for l in lines] + [pad + r]
            if k == "let":
                name, e, mut, ann = st[1], st[2], st[3], st[4]
                check_name(name, "local")
                if e[0] == "try" and ann is not None: ann = RESULT(ann)
                if self.vec_let(name, e, mut, out, pad):
                    if ann not in (None, VEC): raise Untranslatable(f"let {name}: the annotation is not the type of the value")
                    continue
                if mut: raise Untranslatable(f"let mut {name}: only vectors may be mutable")
                if e[0] == "try":
                    if where == "loop": raise Untranslatable("`?` inside a loop")
                    lines = []; a, t = self.ex(e[1], lines)
                    if not (isinstance(t, tuple) and t[0] == "Result"): raise Untranslatable("`?` on a non-Result")
                    if ann not in (None, t): raise Untranslatable(f"let {name}: the annotation is not the type of the value")
                    out += [pad + l for l in lines]
                    out += [pad + f"match {a} with", pad + f"| .error err_ => {self.propagate()}",
                            pad + f"| .ok {lean_id(name)} => do"]
                    self.scope.append({}); self.bind(name, t[1])
                    out += self.stmts(sts[n + 1:], ind + 1, where)
                    self.scope.pop()
                    return out
                lines = []; a, t = self.ex(e, lines)
                if isinstance(t, tuple) or t in (VEC, INTO): raise Untranslatable(f"let {name} = …: a value of a type that cannot be bound")
                if ann not in (None, t): raise Untranslatable(f"let {name}: the annotation is not the type of the value")
                out += [pad + l for l in lines]
                out.append(pad + f"let {lean_id(name)} := {a}")
                self.bind(name, t)
                continue
            if k == "letelse":
                if where == "loop": raise Untranslatable("let-else inside a loop")
                name, e, blk = st[1], st[2], st[3]
                check_name(name, "local")
                lines = []; a, t = self.ex(e, lines)
                if not (isinstance(t, tuple) and t[0] == "Result"): raise Untranslatable("`let Ok(..) =` on a non-Result")
                out += [pad + l for l in lines]
                out.append(pad + f"match {a} with")
                out.append(pad + "| .error _ => do")
                self.scope.append({})
                out += self.stmts(blk, ind + 1, "exit")
                self.scope.pop()
                out.append(pad + f"| .ok {lean_id(name)} => do")
                self.scope.append({}); self.bind(name, t[1])
                out += self.stmts(sts[n + 1:], ind + 1, where)
                self.scope.pop()
                return out
            if k == "if":
                if where == "loop": raise Untranslatable("`if` inside a loop")
                lines = []; c = self.typed(st[1], BOOL, lines, "condition")
                out += [pad + l for l in lines]
                out.append(pad + f"if {c} then do")
                self.scope.append({})
                out += self.stmts(st[2], ind + 1, "exit")
                self.scope.pop()
                out.append(pad + "else do")
                self.scope.append({})
                out += self.stmts(sts[n + 1:], ind + 1, where)
                self.scope.pop()
                return out
            if k == "assign":
                if where == "loop": raise Untranslatable("assignment inside a loop")
                lhs = st[1]
                if self.mode != "method" or lhs[0] != "field" or lhs[1] != ("path", ["self"]) or lhs[2] not in ("shape", "order"):
                    raise Untranslatable("assignment to something that is not `self.shape` / `self.order`")
                lines = []; a = self.typed(st[2], ASHAPE if lhs[2] == "shape" else ORDER, lines, f"self.{lhs[2]} = …")
                out += [pad + l for l in lines]
                out.append(pad + f"let self_ : Hdr := {{ self_ with {lhs[2]} := {a} }}")
                continue
            if k == "do":
                e = st[1]
                if e[0] == "try":
                    if where == "loop": raise Untranslatable("`?` inside a loop")
                    lines = []; a, t = self.ex(e[1], lines)
                    if not (isinstance(t, tuple) and t[0] == "Result"): raise Untranslatable("`?` on a non-Result")
                    out += [pad + l for l in lines]
                    out += [pad + f"match {a} with", pad + f"| .error err_ => {self.propagate()}", pad + "| .ok _ => do"]
                    self.scope.append({})
                    out += self.stmts(sts[n + 1:], ind + 1, where)
                    self.scope.pop()
                    return out
                if self.vec_stmt(e, out, pad): continue
                raise Untranslatable("expression statement that is neither `…?;` nor `v.push(..)` / `v.resize_with(..)`")
            if k == "for":
                var = st[1]; check_name(var, "loop variable")
                lines = []; hi = self.typed(st[2], USIZE, lines, "loop bound")
                v = lean_id(self.mutvec())
                out += [pad + l for l in lines]
                out.append(pad + f"let {v} ← (List.range {hi}).foldlM (fun ({v} : Array α) ({lean_id(var)} : Nat) => do")
                self.scope.append({}); self.bind(var, USIZE)
                out += self.stmts(st[3], ind + 2, "loop")
                self.scope.pop()
                out.append(pad + f"    pure {v}) {v}")
                continue
            raise Untranslatable(f"statement kind {k}")
        if where == "loop": return out
        raise Untranslatable("the block does not end in a result" if where == "fn" else "early exit without `return`")

    # --- the function
    def emit(self):
        a = self.ast
        bounds = a["bounds"]
        for tv, bs in bounds.items():
            if tv != "T" and tv not in a["generics"]: raise Untranslatable(f"where clause on `{tv}`")
        tb = bounds.get("T", [])
        for b in tb:
            if b not in (("trait", "Default", []), ("trait", "Clone", [])): raise Untranslatable(f"bound on T: {b[1]}")
        self.has_default = ("trait", "Default", []) in tb
        params = []
        if a["ret"] == "usize":
            if a["self"] != "&" or a["params"] or a["generics"]: raise Untranslatable("getter signature")
            self.mode = "getter"; head = "(self_ : Hdr) (len : Nat)"; rty = "M Nat"
        elif a["ret"] == "Result<&mut Self>":
            if a["self"] != "&mut": raise Untranslatable("`Result<&mut Self>` without `&mut self`")
            self.mode = "method"; head = ("(es : Nat) " if self.with_es else "") + "(self_ : Hdr) (len : Nat)"
            rty = "M (Except Error Unit × Hdr)"
        else:
            if a["self"]: raise Untranslatable("`Result<Self>` with a receiver")
            self.mode = "ctor"; head = "{α : Type} " + ("(es : Nat)" if self.with_es else ""); rty = "M (Except Error (Matrix α))"
        for pn, pt in a["params"]:
            check_name(pn, "parameter")
            if pt[0] != "ty" or pt[2]: raise Untranslatable(f"parameter {pn}: type")
            tn = pt[1]
            if tn == "T" and self.mode == "ctor":
                self.bind(pn, ELEM); params.append(f"({lean_id(pn)} : α)")
            elif tn == "Shape":
                self.bind(pn, SHAPE); params.append(f"({lean_id(pn)} : Shape)")
            elif tn == "usize":
                self.bind(pn, USIZE); params.append(f"({lean_id(pn)} : Nat)")
            elif tn in a["generics"]:
                bs = bounds.get(tn, [])
                if bs == [("trait", "Into", [("ty", "Shape", [])])]:
                    self.bind(pn, INTO); params.append(f"({lean_id(pn)} : Shape)")
                elif len(bs) == 1 and bs[0][0] == "fn" and self.mode == "ctor":
                    _, _, fargs, fret = bs[0]
                    if fargs != [("ty", "Index", [])] or fret != ("ty", "T", []):
                        raise Untranslatable(f"parameter {pn}: closure type other than FnMut(Index) -> T")
                    self.bind(pn, ("Fn", INDEX, ELEM)); params.append(f"({lean_id(pn)} : Index → α)")
                else:
                    raise Untranslatable(f"parameter {pn}: bounds of `{tn}`")
            else:
                raise Untranslatable(f"parameter {pn}: type {tn}")
        if self.has_default: params.append("(dflt : α)")
        self.scope.append({})
        if self.mode == "getter":
            body = a["body"]
            if len(body) != 1 or body[0][0] != "tail": raise Untranslatable("getter body is not a single expression")
            lines = []; v = self.typed(body[0][1], USIZE, lines, "getter body")
            blines = ["  " + l for l in lines] + [f"  pure {v}"]
        else:
            blines = self.stmts(a["body"], 1, "fn")
        sig = f"def {self.lean_name} {head} {' '.join(params)}".rstrip()
        return sig + f" :\n    {rty} := do\n" + "\n".join(blines) + "\n", sig, rty


def default_order(root):
    """the Lean constructor of `Order::default()`: the variant marked `#[default]` in `enum Order`"""
    try:
        src = strip_rust_comments(open(f"{root}/order.rs").read())
        m = re.search(r"#\[derive\(([^)]*)\)\]\s*pub\s+enum\s+Order\s*\{(.*?)\}", src, re.S)
        if not m or "Default" not in [x.strip() for x in m.group(1).split(",")]:
            raise Untranslatable("`enum Order` with `#[derive(.., Default, ..)]` not found in order.rs")
        d = re.findall(r"#\[default\]\s*(\w+)", m.group(2))
        if len(d) != 1 or d[0] not in ("RowMajor", "ColMajor"):
            raise Untranslatable("`enum Order`: no single `#[default]` variant")
        return "Order.rowMajor" if d[0] == "RowMajor" else "Order.colMajor"
    except (OSError, Untranslatable) as ex:
        return Untranslatable(f"Order::default(): {ex}")


STUB_SIG = {
    "Matrix.size": ("def Matrix.size (self_ : Hdr) (len : Nat)", "M Nat"),
    "Matrix.reshape": ("def Matrix.reshape (self_ : Hdr) (len : Nat) (shape : Shape)", "M (Except Error Unit × Hdr)"),
    "Matrix.with_default": ("def Matrix.with_default {α : Type} (es : Nat) (shape : Shape) (dflt : α)", "M (Except Error (Matrix α))"),
    "Matrix.with_value": ("def Matrix.with_value {α : Type} (es : Nat) (shape : Shape) (value : α)", "M (Except Error (Matrix α))"),
    "Matrix.with_initializer": ("def Matrix.with_initializer {α : Type} (es : Nat) (shape : Shape) (initializer : Index → α)",
                                "M (Except Error (Matrix α))"),
}

HEADER = """/-
GENERATED by translate/t8.py from /repo/src/lib.rs (`Matrix::size`, `Matrix::reshape`) and /repo/src/construct.rs
(`with_default`, `with_value`, `with_initializer`) on every run — do not edit.
`es` is `size_of::<T>()`, `len` is `self.data.len()`, `dflt` is `T::default()`; `&mut self` functions return the
header after the call in both outcomes.  `Vec.reserveExact` / `resizeData` are the primitives of
Model/Construct.lean (the capacity-overflow panic of an allocation is a fault); integer arithmetic is checked.
-/
import Matreex.Gen.Core
import Matreex.Gen.Simple
import Matreex.Model.Construct

namespace Matreex.Gen
open Matreex

"""


def run_t8(root, available=None):
    done, failed, out = [], [], []
    dord = default_order(root)
    srcs = {}
    for f, hint, name, lean_name, with_es in JOBS:
        body = None
        try:
            if f not in srcs: srcs[f] = strip_rust_comments(open(f"{root}/{f}").read())
            text = find_fn(srcs[f], hint, name)
            ast = C(lex(text)).sig()
            avail = None if available is None else set(available) | set(done)
            body, sig, rty = Fn(ast, lean_name, with_es, dord, avail).emit()
            # the bridge theorems are stated for these argument lists; a different parameter list is a different function
            want = STUB_SIG[lean_name]
            shape = lambda s: re.sub(r"\((\w+|«\w+») :", "(_ :", s)
            if shape(sig) != shape(want[0]) or rty != want[1]:
                raise Untranslatable(f"signature changed: {sig} : {rty}")
            done.append(lean_name)
        except Untranslatable as ex:
            failed.append((lean_name, str(ex))); body = None
        except Exception as ex:      # a malformed function must not stop the pipeline: report it, emit the stub
            failed.append((lean_name, f"not parsed ({type(ex).__name__}: {ex})")); body = None
        if body is None:
            sig, rty = STUB_SIG[lean_name]
            body = f"{sig} :\n    {rty} :=\n  .error (.panic \"untranslatable\")\n"
        out.append(body)
    return HEADER + "\n".join(out) + "\nend Matreex.Gen\n", done, failed


if __name__ == "__main__":
    root = sys.argv[1] if len(sys.argv) > 1 else "/repo/src"
    text, done, failed = run_t8(root)
    print(text)
    print(done, failed, file=sys.stderr)
