#!/usr/bin/env python3
"""Translator T10 ("multiply"): `Matrix::multiply` of src/arithmetic/mul.rs and
`Matrix::multiplication_like_operation` of src/arithmetic.rs, together with the three helpers they call
(`ensure_multiplication_like_operation_conformable`, `get_nth_major_axis_vector`, `dot_product`)
-> Lean 4 functions in `Gen/T10Gen.lean`, regenerated on every run.

What comes from the Rust text: the position of every `?`, the order of the statements, every condition,
the receivers and arguments of every call, the operands (and their order) of every operator, the loop
bounds and the nesting of the loops, the arms of the `match`, the fields of the returned struct, the
closures of `dot_product`.  What is mapped BY NAME (vocabulary; the arguments always come from the text):

    Vec::with_capacity(n)                       `Vec.reserveExact ES n` (capacity-overflow panic), then `#[]`;
                                                ES = element size of the function's `Result<Matrix<X>>`
    v.resize_with(n, X::default)                `resizeData v n dflt`                  (Model/Construct.lean)
    v.push(e)                                   `Array.push`
    m.set_order(o)                              `Matreex.Matrix.setOrder zstX m o`     (Model/Transpose.lean;
                                                the transposition itself is T5's), X = element type of `m`
    m.data.get_unchecked(a..b)                  `sliceUnchecked m.data a b` (UB = fault), as a list
    o.unwrap_unchecked()                        `unwrapUnchecked o`                     (Model/Mem.lean)
    a.iter().zip(b).map(|(x, y)| E).reduce(|p, q| F)
                                                `dotProduct (fun x y => E) (fun p q => F) a b`  (Model/Mul.lean)
    a.iter().zip(b).map(|(x, y)| E).fold(I, |p, q| F)
                                                `List.foldl (fun p q => F) I (List.zipWith (fun x y => E) a b)`
    x * y  on elements (L, R) / x + y on (U, U) the abstract `mul` / `add`, operands in the order of the text
    x.clone()                                   `x` (values, effect-free `Clone`)
    X::default() / X::default                   `dflt` (X = the output element type)
    Matrix::with_default(s)                     `Matreex.Matrix.withDefault ES s dflt` (Model/Construct.lean)
    m.nrows() m.ncols() s.try_to_axis_shape(o) s.to_axis_shape_unchecked(o) s.size() Shape::new(..)
    Matrix::<X>::check_size(n) / Self::check_size(n) m.major_stride() …
                                                the functions T2 regenerates from the source (Gen/Core.lean,
                                                Gen/Simple.lean); `check_size` gets the element size of the
                                                type the text names (`Self` = the receiver's element type)
    the crate's own helpers                     the T10 translations of their text, in the same file

Accepted statement language (anything else is `Untranslatable`; the function then becomes a stub that
faults, so the file still compiles and the bridge theorems fail):

    EXPR?;   let x = EXPR?;                     `bindErr EXPR (fun x => rest)`
    let x = EXPR;                               typed local (usize, bool, Order, Shape, AxisShape, slice, element,
                                                Option<element>)
    let mut v = Vec::with_capacity(EXPR);       the one growable buffer of the function
    if COND { stmts; return RESULT; }           `if COND then (stmts; RESULT) else rest`   (no `else`)
    m.set_order(ORDER);                         only in the function's outermost block (m = self | the rhs parameter)
    v.resize_with(EXPR, X::default);  v.push(EXPR);
    for i in 0..EXPR { stmts }                  a fold over `List.range EXPR` carrying the buffer
    match ORDER { Order::RowMajor => { stmts } Order::ColMajor => { stmts } }       carrying the buffer
    unsafe { EXPR }                             transparent
    RESULT  :=  Ok(Matrix { order, shape, data }) | Err(Error::X) | Matrix::with_default(SHAPE)
Helpers: `let`s of integers and one tail expression.
"""
import re, sys, os
sys.path.insert(0, os.path.dirname(os.path.abspath(__file__)))
from t2 import lex, find_fn, P, Untranslatable, strip_rust_comments, translate as t2_translate
from t6 import lean_id

USIZE, BOOL, ORDER, SHAPE, AXIS, ERROR, ISIZEMAX, HDRREF = "usize", "bool", "Order", "Shape", "AxisShape", "Error", "isize::MAX", "&Self"
RESERVED = {"mul", "add", "dflt", "op_", "esL", "esR", "esOut", "zstL", "zstR", "self_", "M", "Nat", "List", "Array", "Hdr",
            "pure", "bindErr", "min", "max", "umul", "uadd", "usub", "udiv", "urem", "decide", "Matrix", "Vec", "Shape",
            "AxisShape", "Order", "Error", "Except", "Option", "some", "none", "dotProduct", "resizeData", "sliceUnchecked",
            "unwrapUnchecked", "dot_product", "checkedMul", "okOr", "usizeMax", "isizeMax", "Matreex", "Gen", "Type", "Bool",
            "Unit", "String", "Fault", "Prod", "Int", "id", "Id"}


def check_name(name, what):
    if name in RESERVED or re.fullmatch(r"t\d+", name):
        raise Untranslatable(f"{what} `{name}` collides with a name of the generated code")
    return name


# ------------------------------------------------------------------ parser
class MP(P):
    def ty2(self):
        if self.at("&"):
            self.next()
            if self.at("'"): raise Untranslatable("lifetime")
            if self.at("mut"): self.next()
            return self.ty2()
        if self.at("["):
            self.next(); t = self.ty2(); self.eat("]"); return ("slice", t)
        if self.at("impl") or self.at("dyn"): raise Untranslatable("impl/dyn type")
        name = self.next()[1]
        while self.at("::"):
            self.next(); name = self.next()[1]
        args = []
        if self.at("<"):
            self.eat("<")
            while not self.at(">"):
                args.append(self.ty2())
                if self.at(","): self.next()
            self.eat(">")
        return ("ty", name, args)

    def sig(self):
        """fn NAME<G..>(params) -> RET where … {"""
        self.eat("fn"); name = self.next()[1]; generics = []
        if self.at("<"):
            self.next()
            while not self.at(">"):
                k, g = self.next()
                if k != "id": raise Untranslatable(f"generic parameter list: {g!r}")
                if self.at(":"): raise Untranslatable("bound inside the generic parameter list")
                generics.append(g)
                if self.at(","): self.next()
            self.eat(">")
        self.eat("("); params = []
        while not self.at(")"):
            ref = False
            if self.at("&"):
                self.next(); ref = True
                if self.at("mut"): self.next()
            elif self.at("mut"): self.next()
            k, pname = self.next()
            if k != "id": raise Untranslatable(f"parameter pattern {pname!r}")
            if pname == "self":
                params.append(("self", None))
            else:
                if ref: raise Untranslatable("`&` before a parameter name")
                self.eat(":"); params.append((pname, self.ty2()))
            if self.at(","): self.next()
        self.eat(")")
        ret = None
        if self.at("->"):
            self.next(); ret = self.ty2()
        where = []
        if self.at("where"):
            self.next()
            while not self.at("{"):
                if self.peek()[0] == "eof": raise Untranslatable("where clause without a body")
                where.append(self.next()[1])
        body = self.sblock()
        if self.peek()[0] != "eof": raise Untranslatable("text after the function body")
        return {"name": name, "generics": generics, "params": params, "ret": ret, "where": " ".join(where), "body": body}

    def sblock(self):
        self.eat("{"); sts = []
        while not self.at("}"):
            if self.peek()[0] == "eof": raise Untranslatable("unterminated block")
            sts.append(self.stmt())
        self.eat("}")
        return sts

    def stmt(self):
        v = self.peek()[1]
        if v in ("continue", "break", "while", "loop", "const", "static", "fn", "#"):
            raise Untranslatable(f"`{v}` statement")
        if v == "unsafe" and self.peek(1)[1] == "{":
            # statement-level unsafe block: a value (tail) or a sequence of statements
            save = self.i
            self.next(); sts = self.sblock()
            if len(sts) == 1 and sts[0][0] == "tail" and not self.at(";") and self.at("}"):
                return ("tail", sts[0][1])
            if self.at("."):                    # `unsafe { x }.method()`: parse as an expression instead
                self.i = save
            else:
                if self.at(";"): self.next()
                if any(s[0] == "tail" for s in sts): raise Untranslatable("unsafe block with a discarded value")
                return ("unsafe", sts)
        if v == "for":
            self.next(); k, var = self.next()
            if k != "id": raise Untranslatable("for: pattern instead of a loop variable")
            self.eat("in")
            lo = self.expr(5, True)
            if lo != ("num", 0): raise Untranslatable("for: the range does not start at the literal 0")
            self.eat("..")
            hi = self.expr(0, True)
            return ("for", var, hi, self.sblock())
        if v == "if":
            self.next()
            if self.at("let"): raise Untranslatable("if let")
            c = self.expr(0, True); t = self.sblock()
            if self.at("else"): raise Untranslatable("`if` with an `else` in statement position")
            return ("if", c, t)
        if v == "match":
            self.next(); scrut = self.expr(0, True); self.eat("{"); arms = []
            while not self.at("}"):
                path = [self.next()[1]]
                while self.at("::"):
                    self.next(); path.append(self.next()[1])
                self.eat("=>")
                if not self.at("{"): raise Untranslatable("match arm without a block")
                arms.append((path, self.sblock()))
                if self.at(","): self.next()
            self.eat("}")
            return ("match", scrut, arms)
        if v == "return":
            self.next(); e = self.expr()
            if self.at(";"): self.next()
            return ("return", e)
        if v == "let":
            self.next(); mut = False
            if self.at("mut"): self.next(); mut = True
            k, name = self.next()
            if k != "id": raise Untranslatable("let with a pattern")
            if self.at(":"): raise Untranslatable(f"let {name}: type annotation")
            self.eat("="); e = self.expr(); self.eat(";")
            return ("let", name, mut, e)
        e = self.expr()
        if self.at(";"):
            self.next(); return ("do", e)
        if self.at("=") or self.peek()[1] in ("+", "-", "*") and self.peek(1)[1] == "=":
            raise Untranslatable("assignment statement")
        return ("tail", e)

    def args(self):
        self.eat("("); xs = []
        while not self.at(")"):
            if self.at("|") or self.at("move"):
                xs.append(self.closure())
            else:
                e = self.expr()
                if self.at(".."):
                    self.next()
                    if self.at(")") or self.at(","): raise Untranslatable("half-open range `a..`")
                    e = ("range", e, self.expr())
                xs.append(e)
            if self.at(","): self.next()
            elif not self.at(")"):
                raise Untranslatable(f"argument list: unexpected {self.peek()[1]!r}")
        self.eat(")"); return xs

    def closure(self):
        if self.at("move"): raise Untranslatable("move closure")
        self.eat("|"); pats = []
        while not self.at("|"):
            pats.append(self.pat())
            if self.at(":"): raise Untranslatable("closure parameter with a type annotation")
            if self.at(","): self.next()
        self.eat("|")
        if self.at("{"): raise Untranslatable("closure with a block body")
        return ("closure", pats, self.expr())

    def atom(self, nostruct):
        k, v = self.peek()
        if v == "unsafe":
            self.next(); sts = self.sblock()
            if len(sts) != 1 or sts[0][0] != "tail": raise Untranslatable("unsafe block that is not a single expression")
            return sts[0][1]
        if v in ("if", "match", "{", "loop", "while"): raise Untranslatable(f"`{v}` in expression position")
        if v == "..": raise Untranslatable("range without a lower bound")
        if v in ("|", "||", "move"): raise Untranslatable("closure outside an argument list")
        return super().atom(nostruct)

    def postfix(self, e):
        while True:
            if self.at("["): raise Untranslatable("indexing `x[..]`")
            if self.at("."):
                self.next(); name = self.next()[1]
                if self.at("::"): raise Untranslatable("turbofish on a method")
                if self.at("("):
                    e = ("mcall", e, name, self.args())
                else:
                    e = ("field", e, name)
            elif self.at("?"):
                self.next(); e = ("try", e)
            else:
                return e


def chain(e):
    names, args = [], []
    while e[0] == "mcall":
        names.append(e[2]); args.append(e[3]); e = e[1]
    return e, names[::-1], args[::-1]


# ------------------------------------------------------------------ typed emitter
class Ctx:
    """one function being translated: generics, roles, scope, temporaries"""

    def __init__(self, fnname, generics, helpers):
        self.fnname = fnname; self.generics = generics; self.helpers = helpers
        self.n = 0; self.scope = [{}]; self.depth = 0
        self.selfT = self.rhsT = self.outT = None   # Rust names of the three element types (roles L, R, U)
        self.vec = None                             # Rust name of the growable buffer
        self.op = None                              # Rust name of the closure parameter
        self.rhs_name = None                        # Rust name of the right-hand matrix parameter

    # ---- names
    def fresh(self):
        while True:
            self.n += 1; t = f"t{self.n}"
            if not any(t in s for s in self.scope): return t

    def bind(self, name, ty):
        self.scope[-1][name] = ty

    def lookup(self, name):
        for s in reversed(self.scope):
            if name in s: return s[name]
        return None

    def lname(self, name):
        return "self_" if name == "self" else lean_id(name)

    # ---- types
    def conv(self, t):
        if t[0] == "slice":
            inner = self.conv(t[1])
            if inner[0] != "elem": raise Untranslatable("slice of a non-generic type")
            return ("slice", inner[1])
        _, name, args = t
        if name == "usize" and not args: return USIZE
        if name == "bool" and not args: return BOOL
        if name == "Order" and not args: return ORDER
        if name == "Shape" and not args: return SHAPE
        if name == "AxisShape" and not args: return AXIS
        if name == "Self" and not args and self.selfT: return ("Matrix", self.selfT)
        if name in self.generics and not args: return ("elem", name)
        if name in ("Matrix", "Option", "Result") and len(args) == 1:
            inner = self.conv(args[0])
            if name == "Matrix":
                if inner[0] != "elem": raise Untranslatable("Matrix of a non-generic type")
                return ("Matrix", inner[1])
            return (name, inner)
        raise Untranslatable(f"type {name}")

    def lean_ty(self, t):
        if t == USIZE: return "Nat"
        if t == BOOL: return "Bool"
        if t in (ORDER, SHAPE, AXIS, ERROR): return t
        if t == HDRREF: return "Hdr"
        k = t[0]
        if k == "elem": return t[1]
        if k == "slice": return f"List {t[1]}"
        if k == "Matrix": return f"Matreex.Matrix {t[1]}"
        if k == "Vec": return f"Array {t[1]}"
        if k == "Option": return f"Option ({self.lean_ty(t[1])})"
        if k == "Result": return f"Except Error ({self.lean_ty(t[1])})"
        raise Untranslatable(f"type {t}")

    def es(self, g):
        r = {self.selfT: "esL", self.rhsT: "esR", self.outT: "esOut"}
        if g not in r: raise Untranslatable(f"element size of `{g}` is not a parameter of the generated function")
        return r[g]

    def zst(self, g):
        r = {self.selfT: "zstL", self.rhsT: "zstR"}
        if g not in r: raise Untranslatable(f"`size_of::<{g}>() == 0` is not a parameter of the generated function")
        return r[g]

    # ---- expressions: (lean text, type); monadic steps are appended to `lines`
    def ex(self, e, lines):
        k = e[0]
        if k == "num": return str(e[1]), USIZE
        if k == "path":
            p = e[1]
            if len(p) == 1:
                t = self.lookup(p[0])
                if t is None: raise Untranslatable(f"`{p[0]}` is not a local in scope")
                return self.lname(p[0]), t
            if p[0] == "Order" and len(p) == 2 and p[1] in ("RowMajor", "ColMajor"):
                return ("Order.rowMajor" if p[1] == "RowMajor" else "Order.colMajor"), ORDER
            if p[0] == "Error" and len(p) == 2: return "Error." + p[1][0].lower() + p[1][1:], ERROR
            if p == ["usize", "MAX"]: return "usizeMax", USIZE
            if p == ["isize", "MAX"]: return "isizeMax", ISIZEMAX
            raise Untranslatable("path " + "::".join(map(str, p)))
        if k == "cast":
            a, t = self.ex(e[1], lines)
            if e[2] == ("ty", "usize", []) and t in (ISIZEMAX, USIZE): return a, USIZE
            raise Untranslatable("cast")
        if k == "field":
            r, t = self.ex(e[1], lines)
            if t[0] == "Matrix" and e[2] == "order": return f"{r}.order", ORDER
            if t[0] == "Matrix" and e[2] == "shape": return f"{r}.shape", AXIS
            if t[0] == "Matrix" and e[2] == "data": return f"{r}.data", ("Vec", t[1])
            raise Untranslatable(f"field access .{e[2]}")
        if k == "not":
            a, t = self.ex(e[1], lines)
            if t != BOOL: raise Untranslatable("`!` on a non-bool")
            return f"(!{a})", BOOL
        if k == "bin":
            op = e[1]
            if op in ("&&", "||"):
                a, ta = self.ex(e[2], lines); rl = []; b, tb = self.ex(e[3], rl)
                if rl: raise Untranslatable("effectful right operand of && / ||")
                if (ta, tb) != (BOOL, BOOL): raise Untranslatable(f"`{op}` on non-bools")
                return f"({a} {op} {b})", BOOL
            a, ta = self.ex(e[2], lines); b, tb = self.ex(e[3], lines)
            if op in ("+", "-", "*", "/", "%") and (ta, tb) == (USIZE, USIZE):
                f = {"+": "uadd", "-": "usub", "*": "umul", "/": "udiv", "%": "urem"}[op]
                t = self.fresh(); lines.append(f"let {t} ← {f} {a} {b}"); return t, USIZE
            if op == "*" and (ta, tb) == (("elem", self.selfT), ("elem", self.rhsT)):
                return f"(mul {a} {b})", ("elem", self.outT)
            if op == "+" and (ta, tb) == (("elem", self.outT), ("elem", self.outT)):
                return f"(add {a} {b})", ("elem", self.outT)
            if op in ("==", "!=") and ta == tb and ta in (USIZE, ORDER):
                return f"(decide ({a} {'=' if op == '==' else '≠'} {b}))", BOOL
            if op in ("<", ">", "<=", ">=") and (ta, tb) == (USIZE, USIZE):
                return f"(decide ({a} {op.replace('<=', '≤').replace('>=', '≥')} {b}))", BOOL
            raise Untranslatable(f"operator `{op}` on {ta} and {tb}")
        if k == "mcall": return self.mcall(e, lines)
        if k == "call": return self.call(e, lines)
        if k == "try": raise Untranslatable("`?` that is not the outermost operator of a statement")
        raise Untranslatable(f"expression kind {k}")

    def want(self, e, ty, lines, what):
        a, t = self.ex(e, lines)
        if t != ty: raise Untranslatable(f"{what}: expected {ty}, found {t}")
        return a

    def step(self, lines, text):
        t = self.fresh(); lines.append(f"let {t} ← {text}"); return t

    def mcall(self, e, lines):
        recv, name, args = e[1], e[2], e[3]
        base, names, cargs = chain(e)
        if names[:1] == ["iter"] and len(names) > 1: return self.iter_chain(base, names, cargs, lines)
        r, t = self.ex(recv, lines)
        G = "Matreex.Gen."
        if t[0] == "Matrix":
            hdr = f"{r}.hdr"
            if name in ("nrows", "ncols") and not args: return self.step(lines, f"{G}Matrix.{name} {hdr}"), USIZE
            if name in ("major", "minor") and not args: return f"{r}.shape.{name}", USIZE
            if name in ("major_stride", "minor_stride") and not args:
                return self.step(lines, f"{G}AxisShape.{name} {r}.shape"), USIZE
            if name in ("ensure_multiplication_like_operation_conformable", "is_multiplication_like_operation_conformable") \
                    and len(args) == 1:
                o, to = self.ex(args[0], lines)
                if to[0] != "Matrix": raise Untranslatable(f"{name}: the argument is not a matrix")
                if name.startswith("is_"): return self.step(lines, f"{G}Matrix.{name} {hdr} {o}.hdr"), BOOL
                return self.step(lines, f"{G}Matrix.{name} {hdr} {o}.hdr"), ("Result", HDRREF)
            if name == "get_nth_major_axis_vector" and len(args) == 1:
                n = self.want(args[0], USIZE, lines, name)
                return self.step(lines, f"{G}Matrix.{name} {r} {n}"), ("slice", t[1])
        if t == SHAPE:
            if name == "try_to_axis_shape" and len(args) == 1:
                o = self.want(args[0], ORDER, lines, name)
                return self.step(lines, f"{G}Shape.try_to_axis_shape {r} {o}"), ("Result", AXIS)
            if name == "to_axis_shape_unchecked" and len(args) == 1:
                o = self.want(args[0], ORDER, lines, name)
                return self.step(lines, f"{G}Shape.to_axis_shape_unchecked {r} {o}"), AXIS
            if name == "size" and not args: return self.step(lines, f"{G}Shape.size {r}"), ("Result", USIZE)
        if t == AXIS:
            if name == "size" and not args: return self.step(lines, f"{G}AxisShape.size {r}"), USIZE
            if name in ("major", "minor") and not args: return f"{r}.{name}", USIZE
            if name in ("major_stride", "minor_stride") and not args:
                return self.step(lines, f"{G}AxisShape.{name} {r}"), USIZE
        if t == USIZE:
            if name in ("min", "max") and len(args) == 1:
                return f"({name} {r} {self.want(args[0], USIZE, lines, name)})", USIZE
            if name == "checked_mul" and len(args) == 1:
                return f"(checkedMul {r} {self.want(args[0], USIZE, lines, name)})", ("Option", USIZE)
        if t == ("Option", USIZE) and name == "ok_or" and len(args) == 1:
            return f"(okOr {r} {self.want(args[0], ERROR, lines, name)})", ("Result", USIZE)
        if t[0] == "Option" and name == "unwrap_unchecked" and not args:
            return self.step(lines, f"unwrapUnchecked {r}"), t[1]
        if t[0] == "elem" and name == "clone" and not args: return r, t
        if t[0] == "Vec" and name == "get_unchecked" and len(args) == 1 and args[0][0] == "range":
            a = self.want(args[0][1], USIZE, lines, "range start"); b = self.want(args[0][2], USIZE, lines, "range end")
            return self.step(lines, f"sliceUnchecked {r} {a} {b}") + ".toList", ("slice", t[1])
        raise Untranslatable(f"method {name}/{len(args)} on {t}")

    def closure(self, c, tys, what):
        """`|p, q| E` / `|(p, q)| E` with parameter types `tys` -> (binder names, body text, body type)"""
        if c[0] != "closure": raise Untranslatable(f"{what}: the argument is not a closure")
        pats = c[1]
        if len(pats) == 1 and pats[0][0] == "ptuple": pats = pats[0][1]
        elif len(tys) > 1 and len(pats) == 1: raise Untranslatable(f"{what}: one parameter for a pair")
        if len(pats) != len(tys) or any(p[0] != "pvar" for p in pats) or len({p[1] for p in pats}) != len(pats):
            raise Untranslatable(f"{what}: closure parameters")
        self.scope.append({})
        for p, t in zip(pats, tys): self.bind(check_name(p[1], "closure parameter"), t)
        lines = []; body, bt = self.ex(c[2], lines)
        self.scope.pop()
        if lines: raise Untranslatable(f"{what}: effectful closure body")
        return " ".join(lean_id(p[1]) for p in pats), body, bt

    def iter_chain(self, base, names, args, lines):
        b, tb = self.ex(base, lines)
        if tb[0] != "slice" or args[0]: raise Untranslatable("iter() on something that is not a slice")
        if names[:3] != ["iter", "zip", "map"] or len(names) != 4 or names[3] not in ("reduce", "fold") \
                or len(args[1]) != 1 or len(args[2]) != 1:
            raise Untranslatable("iterator chain is not `a.iter().zip(b).map(|(x, y)| ..).reduce(|p, q| ..)` / `.fold(i, |p, q| ..)`: "
                                 + ".".join(names))
        z = args[1][0]
        if z[0] == "mcall" and z[2] == "iter" and not z[3]: z = z[1]
        zb, tz = self.ex(z, lines)
        if tz[0] != "slice": raise Untranslatable("zip: the argument is not a slice")
        xs, mbody, mt = self.closure(args[2][0], [("elem", tb[1]), ("elem", tz[1])], "map")
        if mt[0] != "elem": raise Untranslatable("map: the closure does not return an element")
        if names[3] == "reduce":
            if len(args[3]) != 1: raise Untranslatable("reduce: one argument expected")
            ps, rbody, rt = self.closure(args[3][0], [mt, mt], "reduce")
            if rt != mt: raise Untranslatable("reduce: the closure changes the type")
            return f"(dotProduct (fun {xs} => {mbody}) (fun {ps} => {rbody}) {b} {zb})", ("Option", mt)
        if len(args[3]) != 2: raise Untranslatable("fold: two arguments expected")
        init, ti = self.ex(args[3][0], lines)
        ps, rbody, rt = self.closure(args[3][1], [ti, mt], "fold")
        if rt != ti: raise Untranslatable("fold: the closure changes the accumulator type")
        return f"(List.foldl (fun {ps} => {rbody}) {init} (List.zipWith (fun {xs} => {mbody}) {b} {zb}))", ti

    def call(self, e, lines):
        p, args = e[1], e[2]
        G = "Matreex.Gen."
        if p == ["Shape", "new"] and len(args) == 2:
            a = self.want(args[0], USIZE, lines, "Shape::new"); b = self.want(args[1], USIZE, lines, "Shape::new")
            return f"({G}Shape.new {a} {b})", SHAPE
        if p[-1] == "check_size" and len(args) == 1:
            if p == ["Self", "check_size"]: g = self.selfT
            elif len(p) == 3 and p[0] == "Matrix" and p[1][0] == "targs" and len(p[1][1]) == 1:
                t = self.conv(p[1][1][0])
                if t[0] != "elem": raise Untranslatable("check_size: turbofish is not an element type")
                g = t[1]
            else: raise Untranslatable("check_size: cannot tell the element type from " + "::".join(map(str, p)))
            a, ta = self.ex(args[0], lines)
            if ta != USIZE: raise Untranslatable(f"check_size: expected usize, found {ta}")
            return self.step(lines, f"{G}Matrix.check_size {self.es(g)} {a}"), ("Result", USIZE)
        if p[0] == "size_of" and len(p) == 2 and p[1][0] == "targs" and not args:
            t = self.conv(p[1][1][0])
            if t[0] != "elem": raise Untranslatable("size_of of a non-generic type")
            return self.es(t[1]), USIZE
        if len(p) == 2 and p[1] == "default" and not args and p[0] == self.outT: return "dflt", ("elem", self.outT)
        if len(p) == 1 and p[0] == "dot_product" and len(args) == 2 and self.lookup("dot_product") is None:
            h = self.helpers.get("dot_product")
            if h is None: raise Untranslatable("dot_product is not translated")
            a, ta = self.ex(args[0], lines); b, tb = self.ex(args[1], lines)
            if (ta, tb) != (("slice", self.selfT), ("slice", self.rhsT)):
                raise Untranslatable(f"dot_product on {ta} and {tb}")
            ret = ("Option", ("elem", self.outT)) if h == "option" else ("elem", self.outT)
            return self.step(lines, f"{G}dot_product mul add dflt {a} {b}"), ret
        if len(p) == 1 and p[0] == self.op and self.op is not None and len(args) == 2:
            a, ta = self.ex(args[0], lines); b, tb = self.ex(args[1], lines)
            if (ta, tb) != (("slice", self.selfT), ("slice", self.rhsT)):
                raise Untranslatable(f"{self.op} on {ta} and {tb}")
            return f"({self.lname(self.op)} {a} {b})", ("elem", self.outT)
        raise Untranslatable("call " + "::".join(x if isinstance(x, str) else "<…>" for x in p))

    # ---- the value a Result-returning function ends in
    def result(self, e, lines):
        if e[0] == "call" and e[1] == ["Ok"] and len(e[2]) == 1 and e[2][0][0] == "struct":
            _, path, fields = e[2][0]
            if path != ["Matrix"] or sorted(f for f, _ in fields) != ["data", "order", "shape"]:
                raise Untranslatable("returned struct is not `Matrix { order, shape, data }`")
            d = dict(fields)
            o = self.want(d["order"], ORDER, lines, "field order"); s = self.want(d["shape"], AXIS, lines, "field shape")
            v = self.want(d["data"], ("Vec", self.outT), lines, "field data")
            return f"pure (Except.ok ({{ order := {o}, shape := {s}, data := {v} }} : Matreex.Matrix {self.outT}))"
        if e[0] == "call" and e[1] == ["Err"] and len(e[2]) == 1:
            return f"pure (Except.error {self.want(e[2][0], ERROR, lines, 'Err')})"
        if e[0] == "call" and e[1] == ["Matrix", "with_default"] and len(e[2]) == 1:
            a = e[2][0]
            if a[0] == "tuple" and len(a[1]) == 2:
                x = self.want(a[1][0], USIZE, lines, "shape tuple"); y = self.want(a[1][1], USIZE, lines, "shape tuple")
                s = f"(Matreex.Gen.Shape.from_tuple ({x}, {y}))"
            else:
                s = self.want(a, SHAPE, lines, "with_default")
            return f"Matreex.Matrix.withDefault esOut {s} dflt"
        raise Untranslatable("the function's result is not `Ok(Matrix { order, shape, data })`, `Err(Error::X)` or "
                             "`Matrix::with_default(shape)`")

    # ---- statements
    def let_local(self, name, ty):
        if ty in (USIZE, BOOL, ORDER, SHAPE, AXIS) or ty[0] in ("slice", "elem") or (ty[0] == "Option" and ty[1][0] == "elem"):
            self.bind(check_name(name, "local"), ty); return
        raise Untranslatable(f"let {name}: a local of type {ty}")

    def simple(self, st, pad, out):
        """statements allowed everywhere; True if handled"""
        k = st[0]
        if k == "let" and st[3][0] != "try":
            name, mut, e = st[1], st[2], st[3]
            if e[0] == "call" and e[1] == ["Vec", "with_capacity"] and len(e[2]) == 1:
                if self.vec is not None and self.lookup(self.vec) is not None:
                    raise Untranslatable("a second growable buffer")
                lines = []; n = self.want(e[2][0], USIZE, lines, "with_capacity")
                out += [pad + l for l in lines]
                out.append(pad + f"Vec.reserveExact {self.es(self.outT)} {n}")
                out.append(pad + f"let {lean_id(check_name(name, 'local'))} : Array {self.outT} := #[]")
                self.vec = name; self.bind(name, ("Vec", self.outT)); return True
            if mut: raise Untranslatable(f"let mut {name}")
            lines = []; a, t = self.ex(e, lines)
            out += [pad + l for l in lines]
            self.let_local(name, t)
            out.append(pad + f"let {lean_id(name)} := {a}")
            return True
        if k == "do" and st[1][0] == "mcall":
            recv, name, args = st[1][1], st[1][2], st[1][3]
            if recv[0] == "path" and len(recv[1]) == 1:
                t = self.lookup(recv[1][0]); r = self.lname(recv[1][0])
                if t is not None and t[0] == "Vec" and recv[1][0] == self.vec:
                    if name == "push" and len(args) == 1:
                        lines = []; a = self.want(args[0], ("elem", t[1]), lines, "push")
                        out += [pad + l for l in lines]; out.append(pad + f"let {r} := {r}.push {a}"); return True
                    if name == "resize_with" and len(args) == 2:
                        lines = []; n = self.want(args[0], USIZE, lines, "resize_with")
                        if args[1] != ("path", [t[1], "default"]) or t[1] != self.outT:
                            raise Untranslatable(f"resize_with: the filler is not `{t[1]}::default`")
                        out += [pad + l for l in lines]; out.append(pad + f"let {r} := resizeData {r} {n} dflt"); return True
                if t is not None and t[0] == "Matrix" and name == "set_order" and len(args) == 1:
                    if self.depth != 0 or recv[1][0] not in ("self", self.rhs_name):
                        raise Untranslatable("set_order outside the outermost block of the function / not on a parameter")
                    lines = []; o = self.want(args[0], ORDER, lines, "set_order")
                    out += [pad + l for l in lines]
                    out.append(pad + f"let {r} ← Matreex.Matrix.setOrder {self.zst(t[1])} {r} {o}"); return True
        return False

    def loop_block(self, sts, ind):
        """a block that carries the buffer: lines ending in `pure <buffer>`"""
        self.scope.append({}); self.depth += 1
        out = []; pad = "  " * ind
        for st in sts:
            if self.simple(st, pad, out): continue
            if st[0] in ("for", "match"): out += self.carry(st, ind); continue
            if st[0] == "unsafe": raise Untranslatable("statement-level unsafe block inside a loop")
            raise Untranslatable(f"statement inside a loop / match arm: {st[0]}" + (" with `?`" if st[0] in ("let", "do") else ""))
        self.depth -= 1; self.scope.pop()
        return out + [pad + f"pure {self.lname(self.vec)}"]

    def carry(self, st, ind):
        pad = "  " * ind; out = []
        if self.vec is None or self.lookup(self.vec) is None: raise Untranslatable(f"`{st[0]}` before the buffer exists")
        v = self.lname(self.vec); vt = self.lean_ty(self.lookup(self.vec))
        if st[0] == "for":
            var = check_name(st[1], "loop variable")
            lines = []; hi = self.want(st[2], USIZE, lines, "loop bound")
            out += [pad + l for l in lines]
            out.append(pad + f"let {v} ← (List.range {hi}).foldlM (fun ({v} : {vt}) ({lean_id(var)} : Nat) => do")
            self.scope.append({var: USIZE})
            out += self.loop_block(st[3], ind + 2)
            self.scope.pop()
            out[-1] += f") {v}"
            return out
        lines = []; s = self.want(st[1], ORDER, lines, "match scrutinee")
        out += [pad + l for l in lines]
        arms = st[2]
        if sorted(a[0][-1] for a in arms) != ["ColMajor", "RowMajor"] or any(a[0][:-1] != ["Order"] for a in arms):
            raise Untranslatable("match arms are not exactly `Order::RowMajor` and `Order::ColMajor`")
        out.append(pad + f"let {v} ← (match {s} with")
        for path, body in arms:
            out.append(pad + f"  | {'.rowMajor' if path[-1] == 'RowMajor' else '.colMajor'} => do")
            out += self.loop_block(body, ind + 3)
        out[-1] += ")"
        return out

    def fn_block(self, sts, ind):
        """statements of a block that ends by producing the function's result"""
        out = []; pad = "  " * ind
        for n, st in enumerate(sts):
            k = st[0]
            if k == "unsafe":
                return out + self.fn_block(st[1] + sts[n + 1:], ind)
            if k in ("let", "do") and st[-1][0] == "try":
                lines = []; a, t = self.ex(st[-1][1], lines)
                if t[0] != "Result": raise Untranslatable("`?` on something that is not a Result")
                out += [pad + l for l in lines]
                if k == "let":
                    if st[2]: raise Untranslatable(f"let mut {st[1]}")
                    self.let_local(st[1], t[1]); binder = lean_id(st[1])
                else: binder = "_"
                out.append(pad + f"bindErr {a} (fun {binder} => do")
                out += self.fn_block(sts[n + 1:], ind + 1)
                out[-1] += ")"
                return out
            if self.simple(st, pad, out): continue
            if k in ("for", "match"): out += self.carry(st, ind); continue
            if k == "if":
                lines = []; c = self.want(st[1], BOOL, lines, "condition")
                if not st[2] or st[2][-1][0] != "return":
                    raise Untranslatable("`if` block that does not end in `return`")
                out += [pad + l for l in lines]
                out.append(pad + f"if {c} then do")
                self.scope.append({}); self.depth += 1; vec = self.vec
                out += self.fn_block(st[2], ind + 2)
                self.depth -= 1; self.scope.pop(); self.vec = vec
                out.append(pad + "else do")
                return out + self.fn_block(sts[n + 1:], ind + 1)
            if k in ("return", "tail"):
                if n != len(sts) - 1: raise Untranslatable("code after the result")
                lines = []; r = self.result(st[1], lines)
                return out + [pad + l for l in lines] + [pad + r]
            raise Untranslatable(f"statement: {k}")
        raise Untranslatable("a block without a result")

    def value_block(self, sts, ind, ret):
        """helpers: `let`s and one tail expression"""
        out = []; pad = "  " * ind
        for n, st in enumerate(sts):
            if st[0] == "let" and not st[2] and st[3][0] != "try":
                if not self.simple(st, pad, out): raise Untranslatable("let")
                continue
            if st[0] in ("tail", "return") and n == len(sts) - 1:
                lines = []; a, t = self.ex(st[1], lines)
                if t != ret: raise Untranslatable(f"the value has type {t}, the signature says {ret}")
                return out + [pad + l for l in lines] + [pad + f"pure {a}"]
            raise Untranslatable(f"statement in a helper: {st[0]}")
        raise Untranslatable("helper without a value")


# ------------------------------------------------------------------ the five functions
def impl_generic(src, hint):
    m = re.search(hint, src)
    if not m: raise Untranslatable(f"impl block {hint!r} not found")
    g = re.match(r"impl<(\w+)>", m.group(0))
    if not g: raise Untranslatable("impl block without a single generic parameter")
    return g.group(1)


def check_generics(gs):
    for g in gs:
        if g in RESERVED or not re.fullmatch(r"[A-Z][A-Za-z0-9]*", g) or g in ("Self", "Matrix", "Vec"):
            raise Untranslatable(f"generic parameter `{g}` collides with a name of the generated code")
    if len(set(gs)) != len(gs): raise Untranslatable("repeated generic parameter")


def translate_mul_like(src, hint, rust_name, lean_name, helpers, with_op):
    T = impl_generic(src, hint)
    f = MP(lex(find_fn(src, hint, rust_name))).sig()
    gens = [T] + f["generics"]
    c = Ctx(rust_name, gens, helpers)
    ps = f["params"]
    if len(ps) != (3 if with_op else 2) or ps[0] != ("self", None): raise Untranslatable("parameter list")
    c.selfT = T
    rt = c.conv(ps[1][1])
    if rt[0] != "Matrix": raise Untranslatable("the second parameter is not a matrix")
    c.rhsT = rt[1]; c.rhs_name = check_name(ps[1][0], "parameter")
    ret = c.conv(f["ret"]) if f["ret"] else None
    if not ret or ret[0] != "Result" or ret[1][0] != "Matrix": raise Untranslatable("return type is not Result<Matrix<_>>")
    c.outT = ret[1][1]
    if len({c.selfT, c.rhsT, c.outT}) != 3: raise Untranslatable("the three element types are not three distinct generics")
    tyvars = [c.selfT, c.rhsT, c.outT]
    check_generics(tyvars)
    c.bind("self", ("Matrix", c.selfT)); c.bind(ps[1][0], rt)
    L, R, U = tyvars
    if with_op:
        opn, opt = ps[2]
        if opt[0] != "ty" or opt[2] or opt[1] not in f["generics"]: raise Untranslatable("the closure parameter's type")
        w = re.sub(r"\s+", "", f["where"])
        if f"{opt[1]}:FnMut(&[{L}],&[{R}])->{U}" not in w and f"{opt[1]}:Fn(&[{L}],&[{R}])->{U}" not in w:
            raise Untranslatable(f"no bound `{opt[1]}: FnMut(&[{L}], &[{R}]) -> {U}` in the where clause")
        c.op = check_name(opn, "parameter")
        c.bind(opn, ("closure",))
        extra = f"({lean_id(opn)} : List {L} → List {R} → {U})"
    else:
        extra = f"(mul : {L} → {R} → {U}) (add : {U} → {U} → {U})"
    lines = c.fn_block(f["body"], 1)
    head = (f"def {lean_name} {{{L} {R} {U} : Type}} (zstL zstR : Bool) (esL esR esOut : Nat)\n"
            f"    (self_ : Matreex.Matrix {L}) ({lean_id(ps[1][0])} : Matreex.Matrix {R}) {extra} (dflt : {U}) :\n"
            f"    M (Except Error (Matreex.Matrix {U})) := do\n")
    return head + "\n".join(lines) + "\n"


def translate_get_nth(src):
    hint = r"impl<T> Matrix<T>\s*\{"
    T = impl_generic(src, hint)
    check_generics([T])
    f = MP(lex(find_fn(src, hint, "get_nth_major_axis_vector"))).sig()
    if f["generics"]: raise Untranslatable("generic parameters")
    c = Ctx("get_nth_major_axis_vector", [T], {}); c.selfT = T
    ps = f["params"]
    if len(ps) != 2 or ps[0] != ("self", None) or c.conv(ps[1][1]) != USIZE: raise Untranslatable("parameter list")
    ret = c.conv(f["ret"]) if f["ret"] else None
    if ret != ("slice", T): raise Untranslatable("return type is not `&[T]`")
    c.bind("self", ("Matrix", T)); c.bind(check_name(ps[1][0], "parameter"), USIZE)
    lines = c.value_block(f["body"], 1, ret)
    return (f"def Matrix.get_nth_major_axis_vector {{{T} : Type}} (self_ : Matreex.Matrix {T}) ({lean_id(ps[1][0])} : Nat) :\n"
            f"    M (List {T}) := do\n" + "\n".join(lines) + "\n")


def translate_dot_product(src):
    f = MP(lex(find_fn(src, None, "dot_product"))).sig()
    gs = f["generics"]; check_generics(gs)
    c = Ctx("dot_product", gs, {})
    ps = f["params"]
    if len(ps) != 2 or any(p[1] is None for p in ps): raise Untranslatable("parameter list")
    ta, tb = c.conv(ps[0][1]), c.conv(ps[1][1])
    ret = c.conv(f["ret"]) if f["ret"] else None
    if ta[0] != "slice" or tb[0] != "slice" or ret is None: raise Untranslatable("signature")
    kind = "option" if ret[0] == "Option" else "plain"
    re_ = ret[1] if kind == "option" else ret
    if re_[0] != "elem": raise Untranslatable("return type")
    c.selfT, c.rhsT, c.outT = ta[1], tb[1], re_[1]
    if len({c.selfT, c.rhsT, c.outT}) != 3: raise Untranslatable("the three element types are not three distinct generics")
    w = re.sub(r"\s+", "", f["where"])
    if f"{c.selfT}:Mul<{c.rhsT},Output={c.outT}>" not in w or f"{c.outT}:Add<Output={c.outT}>" not in w:
        raise Untranslatable("the where clause does not provide `L: Mul<R, Output = U>` and `U: Add<Output = U>`")
    c.bind(check_name(ps[0][0], "parameter"), ta); c.bind(check_name(ps[1][0], "parameter"), tb)
    lines = c.value_block(f["body"], 1, ret)
    L, R, U = c.selfT, c.rhsT, c.outT
    head = (f"def dot_product {{{L} {R} {U} : Type}} (mul : {L} → {R} → {U}) (add : {U} → {U} → {U}) (dflt : {U})\n"
            f"    ({lean_id(ps[0][0])} : List {L}) ({lean_id(ps[1][0])} : List {R}) : M ({c.lean_ty(ret)}) := do\n")
    return head + "\n".join(lines) + "\n", kind


ENSURE = "ensure_multiplication_like_operation_conformable"


def translate_ensure(src):
    mtable = {("is_multiplication_like_operation_conformable", 1): "Matreex.Gen.Matrix.is_multiplication_like_operation_conformable"}
    hint = r"impl<L> Matrix<L>\s*\{"
    return t2_translate(src, hint, ENSURE, "Hdr", "Matrix." + ENSURE, mtable, {})


STUBS = {
    "Matrix." + ENSURE: "def Matrix." + ENSURE + " (self_ : Hdr) (rhs : Hdr) : M (Except Error Hdr) :=\n",
    "Matrix.get_nth_major_axis_vector": "def Matrix.get_nth_major_axis_vector {T : Type} (self_ : Matreex.Matrix T) (n : Nat) :\n    M (List T) :=\n",
    "dot_product": "def dot_product {L R U : Type} (mul : L → R → U) (add : U → U → U) (dflt : U)\n    (lhs : List L) (rhs : List R) : M (Option U) :=\n",
    "Matrix.multiply": "def Matrix.multiply {L R U : Type} (zstL zstR : Bool) (esL esR esOut : Nat)\n    (self_ : Matreex.Matrix L) (rhs : Matreex.Matrix R) (mul : L → R → U) (add : U → U → U) (dflt : U) :\n    M (Except Error (Matreex.Matrix U)) :=\n",
    "Matrix.multiplication_like_operation": "def Matrix.multiplication_like_operation {L R U : Type} (zstL zstR : Bool) (esL esR esOut : Nat)\n    (self_ : Matreex.Matrix L) (rhs : Matreex.Matrix R) (op : List L → List R → U) (dflt : U) :\n    M (Except Error (Matreex.Matrix U)) :=\n",
}

HEADER = """/-
GENERATED by translate/t10.py from /repo/src/arithmetic/mul.rs (`Matrix::multiply`, `dot_product`) and
/repo/src/arithmetic.rs (`multiplication_like_operation`, `ensure_multiplication_like_operation_conformable`,
`get_nth_major_axis_vector`) on every run — do not edit.
Matrices are the model's triples; `zstL` / `zstR` are `size_of::<L>() == 0` / `size_of::<R>() == 0`, `esL` / `esR` /
`esOut` the three element sizes; `mul` / `add` / `dflt` are the abstract `Mul` / `Add` / `Default` of the element
types.  Slices are lists.  Integer arithmetic is checked; the unchecked slice / `unwrap_unchecked` are the partial
primitives of Model/Mem.lean (undefined behaviour is a fault).
-/
import Matreex.Gen.Core
import Matreex.Gen.Simple
import Matreex.Model.Mul

set_option linter.unusedVariables false

namespace Matreex.Gen
open Matreex

"""


def run_t10(root):
    done, failed, out = [], [], []
    srcs = {}

    def src(f):
        if f not in srcs: srcs[f] = strip_rust_comments(open(f"{root}/{f}").read())
        return srcs[f]

    helpers = {}

    def job(lean_name, fn):
        try:
            text = fn()
            done.append(lean_name)
        except Untranslatable as ex:
            failed.append((lean_name, str(ex))); text = None
        except Exception as ex:      # a malformed function must not stop the pipeline: report it, emit the stub
            failed.append((lean_name, f"not parsed ({type(ex).__name__}: {ex})")); text = None
        if text is None:
            text = STUBS[lean_name] + "  .error (.panic \"untranslatable\")\n"
        out.append(text)

    job("Matrix." + ENSURE, lambda: translate_ensure(src("arithmetic.rs")))
    job("Matrix.get_nth_major_axis_vector", lambda: translate_get_nth(src("arithmetic.rs")))

    def dp():
        text, kind = translate_dot_product(src("arithmetic/mul.rs"))
        helpers["dot_product"] = kind
        return text
    job("dot_product", dp)
    if "dot_product" not in helpers: helpers["dot_product"] = "option"      # the stub's type
    job("Matrix.multiply", lambda: translate_mul_like(src("arithmetic/mul.rs"), r"impl<L> Matrix<L>\s*\{", "multiply",
                                                      "Matrix.multiply", helpers, False))
    job("Matrix.multiplication_like_operation",
        lambda: translate_mul_like(src("arithmetic.rs"), r"impl<L> Matrix<L>\s*\{", "multiplication_like_operation",
                                   "Matrix.multiplication_like_operation", {}, True))
    return HEADER + "\n".join(out) + "\nend Matreex.Gen\n", done, failed


if __name__ == "__main__":
    root = sys.argv[1] if len(sys.argv) > 1 else "/repo/src"
    text, done, failed = run_t10(root)
    print(text)
    print(done, failed, file=sys.stderr)
