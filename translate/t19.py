#!/usr/bin/env python3
"""Translator T19 ("the macros"): the three `macro_rules!` definitions of src/macros.rs (`matrix!`, `row_vec!`, `col_vec!`)
-> Lean 4 functions (`Gen/T19Gen.lean`), regenerated on every run.

What is generated (namespace Matreex.Gen.Macros; `es` is `size_of::<T>()`, `clone` is `T::clone`, an effect-free function as
everywhere in the model; the metavariable expressions are VALUES; every function returns `M (Matrix α)`):
    one function per ARM, named after the class of its PATTERN, its parameters the pattern's metavariables in pattern order
    under their Rust names:
        matrix_empty       es clone                                      `[]`
        matrix_fill        es clone (elem : α) (ncols nrows : Nat)       `[[$elem:expr; $ncols:expr]; $nrows:expr]`
        matrix_repeat_row  es clone (elem : List α) (nrows : Nat)        `[[$($elem:expr),+ $(,)?]; $nrows:expr]`
        matrix_rows        es clone (C : Nat) (row : List (List α))      `[$($row:expr),+ $(,)?]`   (`$row : [T; C]`)
        row_vec_empty | col_vec_empty    es clone                        `[]`
        row_vec_repeat | col_vec_repeat  es clone (elem : α) (n : Nat)   `[$elem:expr; $n:expr]`
        row_vec_list | col_vec_list      es clone (elem : List α)        `[$($elem:expr),+ $(,)?]`
    one DISPATCH function per macro, `matrix es clone : MatrixInput α → M (Matrix α)`, `row_vec` / `col_vec es clone :
    VecInput α → M (Matrix α)` (the input types are the vocabulary of Model/MacroPrims.lean): for every form a caller can
    write, the arm macro_rules' FIRST-MATCH rule selects.  The selection is computed by running a matcher for macro patterns
    (literal tokens, delimited groups, `$x:expr`, `$( … ) sep op`) over representative token strings of every form, arm by
    arm in the order of the text.  An arm that comes first and also matches the inputs another arm is meant for (shadowing),
    a form no arm matches, representatives of one form that select different arms: untranslatable.  Arms whose patterns are
    disjoint may stand in any sequence: the generated text then only differs in its comments.

Accepted language (anything else raises `Untranslatable`, is reported in the JSON summary, and the arm's function — or the
dispatch function — becomes a faulting stub of the expected type so that the file compiles and the bridge fails):
    macro    ::= macro_rules! NAME { arm ; arm ; … [;] }            NAME in matrix, row_vec, col_vec; any delimiters
    arm      ::= [ PATTERN ] => { EXPANSION [;] }                   (a trailing `;` in the expansion is what rustc ignores in
                                                                     expression position — lint semicolon_in_expressions_from_macros;
                                                                     it is reported as a note)
    PATTERN  ::= (empty) | [$e:expr; $c:expr]; $r:expr | [$($e:expr),+ $(,)?]; $r:expr | $($e:expr),+ $(,)?
               | $e:expr; $n:expr                                   exactly these token sequences; metavariable names free
                                                                     (distinct); of two arms with the same pattern the FIRST is
                                                                     translated (first match), the other reported as unreachable
    EXPANSION::= CALL | match CALL { Err(x) => PANIC [,] Ok(y) => y [,] }        (the two arms in any sequence)
    CALL     ::= $crate::Matrix::new() | $crate::Matrix::with_value((U, U), V) | $crate::Matrix::from(V)
               | $crate::Matrix::from_row(V) | $crate::Matrix::from_col(V)
    U        ::= $v | integer literal                               (usize)
    V        ::= $v | [SPLICE] | VEC![] | VEC![V; U] | VEC![SPLICE]
    SPLICE   ::= $($v),+ | $($v),* | $($v,)+ | $($v,)*              (`$v` bound under one repetition by the pattern)
    VEC      ::= ::std::vec | std::vec | ::alloc::vec | alloc::vec
    PANIC    ::= [::]std::panic!("{x}") | [::]core::panic!("{x}") | panic!("{x}") | … ("{}", x)
A checker assigns a type to every expression (usize | T | [X; k] | Vec<X> | (usize, usize) | Result<Matrix<T>> | Matrix<T>);
a metavariable has the type its pattern class gives it; a call on the wrong type is untranslatable, never coerced; the
expansion must have type `Matrix<T>`.  A metavariable the expansion does not use stays a parameter (the bridge then fails).

Mapped by name (crate / std vocabulary -> GENERATED functions of the other translators or primitives of the hand-written
model; the arguments always come from the text):
    $crate::Matrix::new()                     T13's `Gen.Matrix.new` (Gen/T13Gen.lean)
    $crate::Matrix::with_value((a, b), v)     T8's `Gen.Matrix.with_value es (Gen.Shape.from_tuple (a, b)) v` (Gen/T8Gen.lean; the
                                              `Into<Shape>` of a pair is T2's `From<(usize, usize)>`, Gen/Simple.lean)
    $crate::Matrix::from(x)                   trait resolution on the argument's type:  x : Vec<[T; k]>  -> T13's
                                              `Gen.Matrix.from_vec_of_arrays k x`;  x : [[T; k]; r]  -> `Gen.Matrix.from_array_of_arrays r k x`
    $crate::Matrix::from_row(x) / from_col(x) x : Vec<T>  -> T13's `Gen.Matrix.from_row x` / `from_col x`
    [$($v),+]                                 the list `v`; its length `v.length` is the array type's constant
    VEC![]                                    the empty list
    VEC![$($v),+]                             the list `v`
    VEC![x; n]                                `Vec.fromElem S c x n` (Model/MacroPrims.lean: allocation of n elements of S bytes — the
                                              capacity-overflow panic —, then n - 1 clones followed by the original); S = `es` for
                                              x : T, `es * k` for x : [T; k]; c = `clone` for T, `List.map clone` for an array
    match r { Err(x) => panic!("{x}"), Ok(y) => y }       `match r with | .error x => Except.error (Fault.panic (Error.name x)) | .ok y => pure y` (as T17)
"""
import re, sys, os, json
sys.path.insert(0, os.path.dirname(os.path.abspath(__file__)))
from t2 import Untranslatable, strip_rust_comments
from t6 import lean_id as quote_kw

MACROS = ("matrix", "row_vec", "col_vec")
RESERVED = set("""es clone α C pure bind fun do let if then else match with M Nat List Array Matrix Vec Except Fault Error
 Shape Order true false Unit MatrixInput VecInput""".split())

# ------------------------------------------------------------------ token trees
TOK = re.compile(r"""(?P<ws>\s+)|(?P<str>"(?:[^"\\]|\\.)*")|(?P<id>[A-Za-z_][A-Za-z0-9_]*)|(?P<num>\d[\d_]*(?:usize)?)
                     |(?P<op>::|=>|->|==|!=|<=|>=|&&|\|\||[-+*/%<>=!&|.,;:$?#@^~'(){}\[\]])""", re.X)
OPEN = {"(": ")", "[": "]", "{": "}"}


def tokenize(src):
    out, i = [], 0
    while i < len(src):
        m = TOK.match(src, i)
        if not m: raise Untranslatable(f"lexer: unexpected {src[i:i + 20]!r}")
        i = m.end()
        if m.lastgroup != "ws": out.append((m.lastgroup, m.group(m.lastgroup)))
    return out


def trees(toks):
    """token trees: ("t", kind, text) | ("g", open delimiter, [trees])"""
    def go(i, close):
        out = []
        while i < len(toks):
            k, v = toks[i]
            if k == "op" and v in OPEN:
                inner, i = go(i + 1, OPEN[v]); out.append(("g", v, inner)); continue
            if k == "op" and v in OPEN.values():
                if v != close: raise Untranslatable(f"unbalanced delimiter {v!r}")
                return out, i + 1
            out.append(("t", k, v)); i += 1
        if close is not None: raise Untranslatable(f"missing {close!r}")
        return out, i
    return go(0, None)[0]


def show(tts):
    out = []
    for t in tts:
        if t[0] == "g": out.append(t[1] + (" " + show(t[2]) + " " if t[1] == "{" else show(t[2])) + OPEN[t[1]])
        else: out.append(t[2])
    s = " ".join(out)
    s = re.sub(r"\$ ", "$", s)
    s = re.sub(r"(\w) \(", r"\1(", s)
    s = re.sub(r" ([,;?+*)\]]|:(?!:))", r"\1", s)
    s = re.sub(r"([(\[]) ", r"\1", s)
    s = re.sub(r":: ", "::", s); s = re.sub(r"([\w\]]) ::", r"\1::", s); s = re.sub(r" !", "!", s); s = re.sub(r"! ", "!", s)
    return re.sub(r"(?<!:): ", ":", s)


def is_tok(t, v):
    return t is not None and t[0] == "t" and t[2] == v


# ------------------------------------------------------------------ macro definitions
def macro_arms(tts, name):
    """[(pattern trees, expansion trees)] of `macro_rules! name { … }` in the order of the text"""
    found = []
    for i in range(len(tts) - 3):
        if is_tok(tts[i], "macro_rules") and is_tok(tts[i + 1], "!") and is_tok(tts[i + 2], name) and tts[i + 3][0] == "g":
            found.append(tts[i + 3][2])
    if not found: raise Untranslatable(f"macro_rules! {name} not found")
    if len(found) > 1: raise Untranslatable(f"{len(found)} definitions of macro_rules! {name}")
    body, arms, i = found[0], [], 0
    while i < len(body):
        if i + 2 >= len(body) or body[i][0] != "g" or not is_tok(body[i + 1], "=>") or body[i + 2][0] != "g":
            raise Untranslatable(f"{name}: arm {len(arms) + 1} is not `(pattern) => {{ expansion }}`")
        arms.append((body[i][2], body[i + 2][2])); i += 3
        if i < len(body):
            if not is_tok(body[i], ";"): raise Untranslatable(f"{name}: `;` expected after arm {len(arms)}")
            i += 1
    return arms


# ------------------------------------------------------------------ patterns
def parse_pattern(tts):
    """items: ("lit", text) | ("grp", open, items) | ("var", name, fragment) | ("rep", items, separator | None, op)"""
    out, i = [], 0
    while i < len(tts):
        t = tts[i]
        if is_tok(t, "$"):
            nxt = tts[i + 1] if i + 1 < len(tts) else None
            if nxt is not None and nxt[0] == "g" and nxt[1] == "(":
                inner = parse_pattern(nxt[2]); i += 2
                sep = None
                if i < len(tts) and tts[i][0] == "t" and tts[i][2] not in ("+", "*", "?"):
                    sep = tts[i][2]; i += 1
                if i >= len(tts) or tts[i][0] != "t" or tts[i][2] not in ("+", "*", "?"):
                    raise Untranslatable("pattern: repetition without `+`, `*` or `?`")
                out.append(("rep", inner, sep, tts[i][2])); i += 1; continue
            if (nxt is not None and nxt[0] == "t" and nxt[1] == "id" and i + 3 < len(tts) and is_tok(tts[i + 2], ":")
                    and tts[i + 3][0] == "t" and tts[i + 3][1] == "id"):
                out.append(("var", nxt[2], tts[i + 3][2])); i += 4; continue
            raise Untranslatable("pattern: `$` not followed by `name:fragment` or `( … )`")
        if t[0] == "g": out.append(("grp", t[1], parse_pattern(t[2])))
        else: out.append(("lit", t[2]))
        i += 1
    return out


def pattern_vars(items, depth=0):
    out = []
    for it in items:
        if it[0] == "var": out.append((it[1], it[2], depth))
        elif it[0] == "grp": out += pattern_vars(it[2], depth)
        elif it[0] == "rep": out += pattern_vars(it[1], depth + 1)
    return out


def canon(items, names):
    out = []
    for it in items:
        if it[0] == "var": out.append(("var", names.index(it[1]), it[2]))
        elif it[0] == "grp": out.append(("grp", it[1], canon(it[2], names)))
        elif it[0] == "rep": out.append(("rep", canon(it[1], names), it[2], it[3]))
        else: out.append(it)
    return out


def _v(k): return ("var", k, "expr")
_LIST = [("rep", [_v(0)], ",", "+"), ("rep", [("lit", ",")], None, "?")]
CLASSES = {
    "empty": [],
    "fill": [("grp", "[", [_v(0), ("lit", ";"), _v(1)]), ("lit", ";"), _v(2)],
    "repeat_row": [("grp", "[", _LIST), ("lit", ";"), _v(1)],
    "list": _LIST,
    "repeat": [_v(0), ("lit", ";"), _v(1)],
}
PATTERN_TEXT = {"empty": "[]", "fill": "[[$elem:expr; $ncols:expr]; $nrows:expr]", "repeat_row": "[[$($elem:expr),+ $(,)?]; $nrows:expr]",
                "list": "[$($x:expr),+ $(,)?]", "repeat": "[$elem:expr; $n:expr]"}
# the classes a macro is expected to have, the suffix of the Lean name, and the types the class gives its metavariables
T, USIZE = ("T",), ("usize",)
def ARR(x, n): return ("arr", x, n)
def VEC(x): return ("vec", x)
def SEQ(x): return ("seq", x)            # a metavariable under one repetition: the sequence of its matches
ROW = ARR(T, "C")
FORMS = {
    "matrix": [("empty", "empty", []), ("fill", "fill", [T, USIZE, USIZE]), ("repeat_row", "repeat_row", [SEQ(T), USIZE]),
               ("list", "rows", [SEQ(ROW)])],
    "row_vec": [("empty", "empty", []), ("repeat", "repeat", [T, USIZE]), ("list", "list", [SEQ(T)])],
    "col_vec": [("empty", "empty", []), ("repeat", "repeat", [T, USIZE]), ("list", "list", [SEQ(T)])],
}
DEFAULT_NAMES = {"fill": ["elem", "ncols", "nrows"], "repeat_row": ["elem", "nrows"], "rows": ["row"], "repeat": ["elem", "n"],
                 "list": ["elem"], "empty": []}


def classify(items):
    vs = pattern_vars(items)
    names = [v[0] for v in vs]
    if len(set(names)) != len(names): raise Untranslatable("pattern: a metavariable is bound twice")
    c = canon(items, names)
    for cls, want in CLASSES.items():
        if c == want: return cls, names
    raise Untranslatable("pattern `[" + "…" + "]` is none of the accepted forms")


# ------------------------------------------------------------------ macro_rules matching (first match)
STOP = {",", ";", "=>"}


def match_items(items, i, tts, j):
    """the set of positions j' such that items[i:] matches tts[j:j']"""
    if i == len(items): return {j}
    it = items[i]
    ends = set()
    if it[0] == "lit":
        if j < len(tts) and tts[j][0] == "t" and tts[j][2] == it[1]: ends |= match_items(items, i + 1, tts, j + 1)
    elif it[0] == "grp":
        if j < len(tts) and tts[j][0] == "g" and tts[j][1] == it[1] and len(tts[j][2]) in match_items(it[2], 0, tts[j][2], 0):
            ends |= match_items(items, i + 1, tts, j + 1)
    elif it[0] == "var":
        if it[2] != "expr": raise Untranslatable(f"fragment specifier `{it[2]}`")
        k = j
        while k < len(tts) and not (tts[k][0] == "t" and tts[k][2] in STOP): k += 1
        if k > j: ends |= match_items(items, i + 1, tts, k)          # an expression: the longest run up to `,` `;` `=>`
    elif it[0] == "rep":
        for p in rep_positions(it[1], it[2], it[3], tts, j): ends |= match_items(items, i + 1, tts, p)
    return ends


def rep_positions(inner, sep, op, tts, j):
    """the positions the input can be at after as many repetitions of `inner` (separated by `sep`) as `op` allows"""
    res = {j} if op in ("*", "?") else set()
    cur, count = {j}, 0
    while cur:
        nxt = set()
        for p in cur:
            q = p
            if count > 0 and sep is not None:
                if q < len(tts) and is_tok(tts[q], sep): q += 1
                else: continue
            nxt |= {e for e in match_items(inner, 0, tts, q) if e > p}
        count += 1
        res |= nxt
        if op == "?": break
        cur = nxt
    return res


def arm_matches(items, tts):
    return len(tts) in match_items(items, 0, tts, 0)


REPRESENTATIVES = {
    "matrix": {
        "empty": [""],
        "fill": ["[x; 3]; 2", "[0; 3]; 2", "[[a, b]; n]; m", "[f(a, b); g(c)]; h(d, e)", "[x + 1; n * 2]; m - 1"],
        "repeat_row": ["[x]; 2", "[x,]; 2", "[x, y]; n", "[1, 2, 3]; 2", "[x, y, z,]; n", "[[a; 2], [b; 2]]; 3", "[f(a, b), (c, d)]; g(n)"],
        "list": ["[x, y]", "[x, y],", "[1, 2, 3], [4, 5, 6]", "[x], [y], [z],", "[x; 3]", "[x; 3], [y; 3]", "r", "r, s", "r, s,",
                 "f(a, b), g(c)", "[[a, b]; 2]", "[[a; 2]; 2], [[b; 2]; 2]"],
    },
    "vec": {
        "empty": [""],
        "repeat": ["x; 3", "0; 3", "[a, b]; n", "f(a, b); g(c)", "x + 1; n * 2"],
        "list": ["x", "x,", "x, y", "1, 2, 3", "x, y, z,", "[a; 2], [b; 2]", "f(a, b)", "[a; 2]"],
    },
}


def first_match(arms_items, text):
    tts = trees(tokenize(text))
    for k, items in enumerate(arms_items):
        if items is not None and arm_matches(items, tts): return k
    return None


# ------------------------------------------------------------------ expansions
def parse_expansion(tts):
    p = X(tts); e = p.expr()
    semi = False
    if p.at(";"):
        p.i += 1; semi = True
    if p.i != len(tts): raise Untranslatable("expansion: more than one expression")
    return e, semi


class X:
    def __init__(self, tts): self.t, self.i = tts, 0
    def peek(self, k=0): return self.t[self.i + k] if self.i + k < len(self.t) else None
    def at(self, v, k=0): return is_tok(self.peek(k), v)
    def eat(self, v):
        if not self.at(v): raise Untranslatable(f"expansion: expected `{v}`, got `{show([self.peek()]) if self.peek() else 'end'}`")
        self.i += 1
    def end(self): return self.i >= len(self.t)

    def path(self):
        """[::] a :: b :: c    |   $crate :: a :: b"""
        segs = []
        if self.at("::"):
            self.i += 1; segs.append("")
        while True:
            if self.at("$") and is_tok(self.peek(1), "crate"):
                self.i += 2; segs.append("$crate")
            else:
                t = self.peek()
                if t is None or t[0] != "t" or t[1] != "id": raise Untranslatable("expansion: path segment expected")
                segs.append(t[2]); self.i += 1
            if self.at("::"): self.i += 1
            else: break
        return segs

    def expr(self):
        t = self.peek()
        if t is None: raise Untranslatable("expansion: expression expected")
        if is_tok(t, "match"): return self.match_()
        if is_tok(t, "$"):
            n = self.peek(1)
            if n is not None and n[0] == "t" and n[1] == "id" and n[2] != "crate":
                self.i += 2; return ("mv", n[2])
            if n is not None and n[0] == "g": raise Untranslatable("expansion: repetition outside `[ … ]`")
        if t[0] == "t" and t[1] == "num":
            self.i += 1; return ("num", int(t[2].replace("_", "").replace("usize", "")))
        if t[0] == "g" and t[1] == "(":
            self.i += 1
            parts = split_top(t[2], ",")
            if len(parts) == 3 and not parts[2]: parts = parts[:2]
            if len(parts) != 2: raise Untranslatable("expansion: parenthesised expression that is not a pair")
            return ("tuple", [sub_expr(p) for p in parts])
        if t[0] == "g" and t[1] == "[":
            self.i += 1; return ("array",) + seq_body(t[2], "array literal")
        if t[0] == "g": raise Untranslatable("expansion: block expression")
        nxt = self.peek(1)
        if t[0] == "t" and t[1] == "id" and not (is_tok(nxt, "::") or is_tok(nxt, "!") or (nxt is not None and nxt[0] == "g")):
            self.i += 1; return ("ident", t[2])                  # a bare identifier (the `matrix` of `Ok(matrix) => matrix`)
        segs = self.path()
        if self.at("!"):
            self.i += 1; g = self.peek()
            if g is None or g[0] != "g": raise Untranslatable("expansion: macro call without arguments")
            self.i += 1
            return ("macro", segs, g[2])
        g = self.peek()
        if g is None or g[0] != "g" or g[1] != "(": raise Untranslatable("expansion: `" + "::".join(segs) + "` is not called")
        self.i += 1
        parts = split_top(g[2], ",")
        if parts and not parts[-1]: parts = parts[:-1]
        if any(not p for p in parts): raise Untranslatable("expansion: empty argument")
        return ("call", segs, [sub_expr(p) for p in parts])

    def match_(self):
        self.eat("match")
        j = self.i
        while j < len(self.t) and not (self.t[j][0] == "g" and self.t[j][1] == "{"): j += 1
        if j >= len(self.t): raise Untranslatable("expansion: match without arms")
        scrut = sub_expr(self.t[self.i:j]); body = self.t[j][2]; self.i = j + 1
        arms, k = [], 0
        while k < len(body):
            t = body[k]
            if not (t[0] == "t" and t[2] in ("Ok", "Err") and k + 2 < len(body) and body[k + 1][0] == "g" and body[k + 1][1] == "("
                    and len(body[k + 1][2]) == 1 and body[k + 1][2][0][0] == "t" and body[k + 1][2][0][1] == "id"
                    and is_tok(body[k + 2], "=>")):
                raise Untranslatable("expansion: match arm that is not `Err(x) => …` / `Ok(y) => …`")
            ctor, binder = t[2], body[k + 1][2][0][2]
            k += 3; s = k
            while k < len(body) and not is_tok(body[k], ","): k += 1
            arms.append((ctor, binder, sub_expr(body[s:k])))
            if k < len(body): k += 1
        return ("match", scrut, arms)


def sub_expr(tts):
    p = X(tts); e = p.expr()
    if not p.end(): raise Untranslatable(f"expansion: unexpected `{show(tts[p.i:])}` after an expression")
    return e


def split_top(tts, sep):
    parts, cur = [], []
    for t in tts:
        if is_tok(t, sep): parts.append(cur); cur = []
        else: cur.append(t)
    parts.append(cur)
    return parts if tts else []


def splice(tts):
    """`$($v),+`-like transcription of one metavariable -> its name, or None"""
    if len(tts) >= 3 and is_tok(tts[0], "$") and tts[1][0] == "g" and tts[1][1] == "(":
        inner, rest = tts[1][2], tts[2:]
        with_sep = len(inner) == 3 and is_tok(inner[2], ",")
        if (len(inner) == 2 or with_sep) and is_tok(inner[0], "$") and inner[1][0] == "t" and inner[1][1] == "id":
            ops = [t[2] for t in rest if t[0] == "t"]
            if len(ops) == len(rest) and ((not with_sep and ops in ([",", "+"], [",", "*"])) or (with_sep and ops in (["+"], ["*"]))):
                return inner[1][2]
        raise Untranslatable("expansion: repetition that is not `$($v),+`")
    return None


def seq_body(tts, what):
    """the inside of `[ … ]`: ("empty",) | ("splice", name) | ("rep", x, n)"""
    if not tts: return ("empty",)
    s = splice(tts)
    if s is not None: return ("splice", s)
    parts = split_top(tts, ";")
    if len(parts) == 2 and parts[0] and parts[1]: return ("rep", sub_expr(parts[0]), sub_expr(parts[1]))
    raise Untranslatable(f"expansion: {what} that is neither empty, nor `x; n`, nor one repetition `$($v),+`")


# ------------------------------------------------------------------ checker + emitter
MATRIX, RESULT, SHAPE2 = ("Matrix",), ("Result",), ("pair",)
VEC_PATHS = (["", "std", "vec"], ["std", "vec"], ["", "alloc", "vec"], ["alloc", "vec"])
PANIC_PATHS = (["", "std", "panic"], ["std", "panic"], ["", "core", "panic"], ["core", "panic"], ["panic"])


def lean_ty(t):
    if t == T: return "α"
    if t == USIZE: return "Nat"
    if t[0] in ("arr", "vec", "seq"): return f"List {lean_ty(t[1])}" if t[1] in (T, USIZE) else f"List ({lean_ty(t[1])})"
    raise Untranslatable("type")


def size_of(t):
    if t == T: return "es"
    if t[0] == "arr":
        s = size_of(t[1]); return f"({s} * {t[2]})"
    raise Untranslatable("vec![x; n]: the size of x's type is not known")


def clone_of(t):
    if t == T: return "clone"
    if t[0] == "arr": return f"(List.map {clone_of(t[1])})"
    raise Untranslatable("vec![x; n]: x's type has no known Clone")


class Arm:
    def __init__(self, env):
        self.env = env            # metavariable -> type
        self.lines, self.n, self.used = [], 0, set()

    def fresh(self):
        self.n += 1; return f"t{self.n}"

    def eff(self, call, ty):
        t = self.fresh(); self.lines.append(f"let {t} ← {call}"); return t, ty

    def mv(self, name, want_seq):
        if name not in self.env: raise Untranslatable(f"`${name}` is not bound by the pattern")
        ty = self.env[name]
        if (ty[0] == "seq") != want_seq:
            raise Untranslatable(f"`${name}` is used at a repetition depth other than the pattern's")
        self.used.add(name)
        return quote_kw(name), ty

    def ex(self, e, want=None):
        k = e[0]
        if k == "mv": return self.mv(e[1], False)
        if k == "num": return str(e[1]), USIZE
        if k == "tuple":
            vs = [self.ex(x) for x in e[1]]
            if [t for _, t in vs] != [USIZE, USIZE]: raise Untranslatable("a pair whose components are not both usize")
            return f"({vs[0][0]}, {vs[1][0]})", SHAPE2
        if k == "array":
            if e[1] == "splice":
                v, t = self.mv(e[2], True)
                return v, ARR(t[1], f"{v}.length")
            raise Untranslatable("array literal that is not `[$($v),+]`")
        if k == "macro":
            if e[1] in VEC_PATHS: return self.vec(seq_body(e[2], "vec!"), want)
            raise Untranslatable("macro call " + "::".join(e[1]) + "!")
        if k == "call": return self.call(e)
        if k == "match": raise Untranslatable("`match` outside the result position")
        raise Untranslatable(f"expression kind {k}")

    def vec(self, body, want):
        if body[0] == "empty":
            if want is None or want[0] != "vec": raise Untranslatable("vec![]: the element type is not determined")
            return f"([] : {lean_ty(want)})", want
        if body[0] == "splice":
            v, t = self.mv(body[1], True); return v, VEC(t[1])
        x, tx = self.ex(body[1]); n, tn = self.ex(body[2])
        if tn != USIZE: raise Untranslatable("vec![x; n]: n is not usize")
        return self.eff(f"Vec.fromElem {size_of(tx)} {clone_of(tx)} {x} {n}", VEC(tx))

    def call(self, e):
        segs, args = e[1], e[2]
        if len(segs) != 3 or segs[:2] != ["$crate", "Matrix"]: raise Untranslatable("call " + "::".join(segs))
        fn = segs[2]
        if fn == "new" and not args: return self.eff("(Matreex.Gen.Matrix.new : M (Matrix α))", MATRIX)
        if fn == "with_value" and len(args) == 2:
            s, ts = self.ex(args[0]); v, tv = self.ex(args[1])
            if ts != SHAPE2: raise Untranslatable("with_value: the shape argument is not a pair of usize")
            if tv != T: raise Untranslatable("with_value: the value is not of the element type")
            return self.eff(f"Matreex.Gen.Matrix.with_value es (Matreex.Gen.Shape.from_tuple {s}) {v}", RESULT)
        if fn in ("from_row", "from_col") and len(args) == 1:
            v, tv = self.ex(args[0], VEC(T))
            if tv != VEC(T): raise Untranslatable(f"{fn}: the argument is not a Vec<T>")
            return self.eff(f"Matreex.Gen.Matrix.{fn} {v}", MATRIX)
        if fn == "from" and len(args) == 1:
            v, tv = self.ex(args[0])
            if tv[0] == "vec" and tv[1][0] == "arr" and tv[1][1] == T:
                return self.eff(f"Matreex.Gen.Matrix.from_vec_of_arrays {tv[1][2]} {v}", MATRIX)
            if tv[0] == "arr" and tv[1][0] == "arr" and tv[1][1] == T:
                return self.eff(f"Matreex.Gen.Matrix.from_array_of_arrays {tv[2]} {tv[1][2]} {v}", MATRIX)
            raise Untranslatable("Matrix::from: no `From` impl of the vocabulary for the argument's type")
        raise Untranslatable(f"call $crate::Matrix::{fn}/{len(args)}")

    def panic_arm(self, body, binder):
        if body[0] != "macro" or body[1] not in PANIC_PATHS: return False
        a = body[2]
        if len(a) == 1 and a[0][0] == "t" and a[0][1] == "str" and a[0][2] == '"{' + binder + '}"': return True
        if (len(a) == 3 and a[0][0] == "t" and a[0][2] == '"{}"' and is_tok(a[1], ",") and a[2][0] == "t" and a[2][2] == binder): return True
        return False

    def result(self, e):
        if e[0] != "match":
            v, t = self.ex(e)
            if t != MATRIX: raise Untranslatable("the expansion is not a Matrix<T>")
            return self.lines + [f"pure {v}"]
        s, ts = self.ex(e[1])
        if ts != RESULT: raise Untranslatable("match on something that is not a Result of the vocabulary")
        arms = e[2]
        if sorted(a[0] for a in arms) != ["Err", "Ok"]: raise Untranslatable("match on a Result: the arms are not Err(x) and Ok(y), each once")
        out = self.lines + [f"match {s} with"]
        for ctor, b, body in arms:
            if b in RESERVED or re.fullmatch(r"t\d+", b) or b in self.env: raise Untranslatable(f"binder `{b}` collides with a name of the generated code")
            if ctor == "Err":
                if not self.panic_arm(body, b): raise Untranslatable("the Err arm is not a panic displaying the error")
                out += [f"| .error {quote_kw(b)} => do", f"  Except.error (Fault.panic (Error.name {quote_kw(b)}))"]
            else:
                if body != ("ident", b): raise Untranslatable("the Ok arm does not return the matrix it binds")
                out += [f"| .ok {quote_kw(b)} => do", f"  pure {quote_kw(b)}"]
        return out


def signature(lean, suffix, names, types):
    bs = []
    for n, t in zip(names, types):
        if n in RESERVED or re.fullmatch(r"t\d+", n): raise Untranslatable(f"metavariable `${n}` collides with a name of the generated code")
        if t == SEQ(ROW): bs.append("(C : Nat)")
        bs.append(f"({quote_kw(n)} : {lean_ty(t)})")
    return f"def {lean} {{α : Type}} (es : Nat) (clone : α → α)" + "".join(" " + b for b in bs) + " :\n    M (Matrix α) :="


def translate_arm(macro, lean, suffix, types, names, exp_tts, notes):
    e, semi = parse_expansion(exp_tts)
    if semi: notes.append(f"{macro}!: the expansion of arm `{suffix}` ends in `;` (ignored by rustc in expression position; lint semicolon_in_expressions_from_macros)")
    arm = Arm(dict(zip(names, types)))
    body = arm.result(e)
    unused = [n for n in names if n not in arm.used]
    if unused: notes.append(f"{macro}!: arm `{suffix}` does not use " + ", ".join("$" + n for n in unused))
    return signature(lean, suffix, names, types) + " do\n" + "\n".join("  " + l for l in body) + "\n"


def stub(lean, suffix, types):
    return signature(lean, suffix, DEFAULT_NAMES[suffix], types) + "\n  .error (.panic \"untranslatable\")\n"


DISPATCH = {
    "matrix": ("MatrixInput", [("empty", ".empty", ""), ("fill", ".fill elem ncols nrows", " elem ncols nrows"),
                               ("repeat_row", ".repeatRow elems nrows", " elems nrows"), ("list", ".rows C rows", " C rows")]),
    "vec": ("VecInput", [("empty", ".empty", ""), ("repeat", ".repeat elem n", " elem n"), ("list", ".list elems", " elems")]),
}

HEADER = """/-
GENERATED by translate/t19.py from /repo/src/macros.rs (`matrix!`, `row_vec!`, `col_vec!`) on every run — do not edit.
One function per arm (named after the class of its pattern; parameters = the pattern's metavariables in pattern order), built
from the functions generated by T8 (`with_value`), T13 (`new`, `from_row`, `from_col`, the `From` conversions) and T2
(`From<(usize, usize)> for Shape`); `es` is `size_of::<T>()`, `clone` is `T::clone`; `Vec.fromElem` (Model/MacroPrims.lean) is
`vec![x; n]`.  One dispatch function per macro: for every form a caller can write (`MatrixInput` / `VecInput` of
Model/MacroPrims.lean), the arm that macro_rules' first-match rule selects (computed by matching representative token strings
against the patterns in the order of the text).
-/
import Matreex.Gen.Core
import Matreex.Gen.Simple
import Matreex.Gen.T8Gen
import Matreex.Gen.T13Gen
import Matreex.Model.MacroPrims

set_option linter.unusedVariables false

namespace Matreex.Gen.Macros
open Matreex

"""


def run_t19(root):
    out, done, failed, notes, order = [], [], [], [], {}
    try:
        tts = trees(tokenize(strip_rust_comments(open(f"{root}/macros.rs").read())))
    except (OSError, Untranslatable) as ex:
        tts = None; failed.append(("Macros", f"macros.rs: {ex}"))
    for macro in MACROS:
        forms = FORMS[macro]
        arms, arm_items, arm_class = [], [], []
        if tts is not None:
            try:
                arms = macro_arms(tts, macro)
            except Untranslatable as ex:
                failed.append((f"Macros.{macro}", str(ex)))
        by_class = {}
        for k, (pat, exp) in enumerate(arms):
            try:
                items = parse_pattern(pat)
            except Untranslatable as ex:
                failed.append((f"Macros.{macro}.arm{k + 1}", str(ex))); arm_items.append(None); arm_class.append(None); continue
            arm_items.append(items)
            try:
                cls, names = classify(items)
            except Untranslatable as ex:
                failed.append((f"Macros.{macro}.arm{k + 1}", f"pattern `[{show(pat)}]`: {ex}")); arm_class.append(None); continue
            arm_class.append(cls)
            by_class.setdefault(cls, []).append((k, names, exp))
        order[macro] = [(c or "?") for c in arm_class]
        out.append(f"/-! ### `{macro}!` — arms in the order of the text: " + ", ".join(f"{k + 1} {c or '?'}" for k, c in enumerate(arm_class)) + " -/\n")
        for cls, suffix, types in forms:
            lean = f"{macro}_{suffix}"
            try:
                cands = by_class.get(cls, [])
                if not cands: raise Untranslatable(f"{macro}!: no arm with the pattern {PATTERN_TEXT[cls]}")
                k, names, exp = cands[0]                     # first match: a later arm with the same pattern is never selected
                for k2, _, _ in cands[1:]:
                    notes.append(f"{macro}!: arm {k2 + 1} is unreachable (arm {k + 1} has the same pattern {PATTERN_TEXT[cls]} and comes first)")
                text = translate_arm(macro, lean, suffix, types, names, exp, notes)
                out.append(f"/-- arm {k + 1} of `{macro}!`: `[{show(arms[k][0])}] => {{ {show(exp)} }}` -/\n" + text)
                done.append("Macros." + lean)
            except Untranslatable as ex:
                failed.append(("Macros." + lean, str(ex))); out.append(stub(lean, suffix, types))
            except Exception as ex:
                failed.append(("Macros." + lean, f"not parsed ({type(ex).__name__}: {ex})")); out.append(stub(lean, suffix, types))
        for k, c in enumerate(arm_class):
            if c is not None and c not in [f[0] for f in forms]:
                failed.append((f"Macros.{macro}.arm{k + 1}", f"{macro}! is not expected to have an arm with the pattern {PATTERN_TEXT[c]}"))
        # dispatch: macro_rules' first match, on representatives of every form
        kind = "matrix" if macro == "matrix" else "vec"
        ity, cases = DISPATCH[kind]
        lines, bad = [], []
        for cls, pat, args in cases:
            suffix = [f[1] for f in forms if f[0] == cls][0]
            chosen = set()
            for text in REPRESENTATIVES[kind][cls]:
                try: chosen.add(first_match(arm_items, text))
                except Untranslatable as ex: chosen.add(("?", str(ex)))
            why = None
            if len(chosen) != 1: why = f"inputs of the form {PATTERN_TEXT[cls]} are not all matched first by the same arm ({sorted(map(str, chosen))})"
            else:
                k = chosen.pop()
                if k is None: why = f"no arm matches inputs of the form {PATTERN_TEXT[cls]}"
                elif not isinstance(k, int): why = k[1]
                elif arm_class[k] != cls: why = (f"arm {k + 1} ({arm_class[k] or 'unclassified pattern'}) comes first and matches the inputs of the form "
                                                  f"{PATTERN_TEXT[cls]} (shadowing)")
            if why is None:
                lines.append(f"  | {pat} => {macro}_{suffix} es clone{args}      -- first match: arm {k + 1}")
            else:
                bad.append(why); lines.append(f"  | {pat} => .error (.panic \"untranslatable\")")
        out.append(f"/-- `{macro}![…]`: the arm selected for every form of input -/\ndef {macro} {{α : Type}} (es : Nat) (clone : α → α) : {ity} α → M (Matrix α)\n"
                   + "\n".join(lines) + "\n")
        if bad: failed.append((f"Macros.{macro}", "; ".join(bad)))
        else: done.append(f"Macros.{macro}")
    run_t19.notes, run_t19.order = notes, order
    return HEADER + "\n".join(out) + "\nend Matreex.Gen.Macros\n", done, failed


if __name__ == "__main__":
    root = sys.argv[1] if len(sys.argv) > 1 else "/repo/src"
    text, done, failed = run_t19(root)
    if len(sys.argv) > 2:
        changed = not os.path.exists(sys.argv[2]) or open(sys.argv[2]).read() != text
        if changed: open(sys.argv[2], "w").write(text)
        print(json.dumps({"translated": done, "untranslated": failed, "arm_order": run_t19.order, "notes": run_t19.notes, "changed": changed}, indent=1))
    else:
        print(text)
        print(json.dumps({"translated": done, "untranslated": failed, "arm_order": run_t19.order, "notes": run_t19.notes}, indent=1), file=sys.stderr)
