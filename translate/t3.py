#!/usr/bin/env python3
"""Translator T3 ("kernels"): the unsafe pointer kernels of src/swap.rs -> Lean 4 functions on the
element array (`Gen/Kernels.lean`), regenerated on every run.

Accepted statement language (anything else is reported, never guessed):

    if COND { return Err(Error::X); }        guard: the call returns the error, the data is untouched
    if COND { return Ok(self); }             early exit
    let base = self.data.as_mut_ptr();       the buffer pointer (offset 0)
    let v = EXPR;                            integer expression (checked arithmetic, as in T2)
    let p = base.add(EXPR);                  a pointer: represented by its offset from the buffer start
    unsafe { ... }                           transparent
    for i in 0..EXPR { ... }                 a fold over 0, 1, …, EXPR-1 carrying the element array
    ptr::swap(p, q);                         `ptrSwap` (UB outside the buffer)
    ptr::swap_nonoverlapping(p, q, n);       `swapNonoverlapping` (UB outside the buffer or on overlap)
    Ok(self)                                 tail

Expressions are translated by T2's expression emitter (`+ - *` panic on overflow).  `self.major()`,
`self.minor()`, `self.major_stride()`, `self.minor_stride()` on the matrix are the axis shape's
(the delegation itself is translated and proved in Gen/Simple.lean / BridgeSimple.lean).
"""
import re, sys, os
sys.path.insert(0, os.path.dirname(os.path.abspath(__file__)))
from t2 import lex, find_fn, P, Emit, Untranslatable, strip_rust_comments

KERNEL_JOBS = [
    # (file, rust fn, lean name)
    ("swap.rs", "swap_major_axis_vectors", "Matrix.swap_major_axis_vectors"),
    ("swap.rs", "swap_minor_axis_vectors", "Matrix.swap_minor_axis_vectors"),
]

MTABLE = {("major_stride", 0): "AxisShape.major_stride", ("minor_stride", 0): "AxisShape.minor_stride"}


class K(P):
    """statement-level parser for kernels; expressions are T2's"""

    def kfn(self):
        self.eat("fn"); name = self.next()[1]
        self.eat("("); params = []
        while not self.at(")"):
            if self.at("&"): self.next()
            if self.at("mut"): self.next()
            pname = self.next()[1]
            if self.at(":"):
                self.eat(":"); ty = self.ty()
                if ty != ("ty", "usize", []):
                    raise Untranslatable(f"parameter {pname}: only usize parameters")
                params.append(pname)
            elif pname != "self":
                raise Untranslatable(f"parameter {pname}")
            if self.at(","): self.next()
        self.eat(")")
        if self.at("->"):
            self.eat("->"); ret = self.ty()
            if ret != ("ty", "Result", [("ty", "Self", [])]):
                raise Untranslatable("return type is not Result<&mut Self>")
        return name, params, self.kblock()

    def kblock(self):
        self.eat("{"); stmts = []
        while not self.at("}"):
            stmts.append(self.kstmt())
        self.eat("}")
        return stmts

    def kstmt(self):
        if self.at("unsafe"):
            self.next(); return ("unsafe", self.kblock())
        if self.at("for"):
            self.next(); var = self.next()[1]; self.eat("in")
            lo = self.expr(5, True)
            if lo != ("num", 0): raise Untranslatable("for: range does not start at 0")
            self.eat("..")
            hi = self.expr(0, True)
            return ("for", var, hi, self.kblock())
        if self.at("if"):
            self.next(); c = self.expr(0, True)
            self.eat("{"); self.eat("return"); e = self.expr()
            if self.at(";"): self.next()
            self.eat("}")
            if self.at("else"): raise Untranslatable("if … else in a kernel")
            return ("ret_if", c, e)
        if self.at("let"):
            self.next()
            if self.at("mut"): raise Untranslatable("let mut in a kernel")
            name = self.next()[1]
            if self.at(":"):
                self.next(); self.ty()
            self.eat("="); e = self.expr(); self.eat(";")
            return ("let", name, e)
        e = self.expr()
        if self.at(";"):
            self.next(); return ("do", e)
        return ("tail", e)


def is_ok_self(e):
    return e[0] == "call" and e[1] == ["Ok"] and e[2] == [("path", ["self"])]


def err_of(e):
    if e[0] == "call" and e[1] == ["Err"] and e[2][0][0] == "path" and e[2][0][1][0] == "Error":
        n = e[2][0][1][1]
        return "Error." + n[0].lower() + n[1:]
    return None


class KEmit:
    def __init__(self, fnname):
        self.em = Emit(fnname, "Hdr", MTABLE, {})
        self.ptrs = {}          # pointer variable -> Lean name of its offset

    def ex(self, e, lines):
        return self.em.ex(e, lines)

    def stmts(self, sts, ind, in_loop):
        """lines of a `do` block; returns list of strings"""
        out = []
        pad = "  " * ind
        for n, st in enumerate(sts):
            k = st[0]
            if k == "unsafe":
                # transparent: splice the inner statements in front of the rest
                return out + self.stmts(st[1] + sts[n + 1:], ind, in_loop)
            if k == "ret_if":
                if in_loop: raise Untranslatable("return inside a loop")
                lines = []; c = self.ex(st[1], lines)
                err = err_of(st[2])
                ret = f"(Except.error {err}, data)" if err else "(Except.ok (), data)" if is_ok_self(st[2]) else None
                if ret is None: raise Untranslatable("early return of something else than Err(Error::…) / Ok(self)")
                out += [pad + l for l in lines]
                out.append(pad + f"if {c} then pure {ret} else do")
                rest = self.stmts(sts[n + 1:], ind + 1, in_loop)
                return out + rest
            if k == "let":
                name, e = st[1], st[2]
                if e == ("mcall", ("field", ("path", ["self"]), "data"), "as_mut_ptr", []):
                    self.ptrs[name] = "0"; continue
                if e[0] == "mcall" and e[2] == "add" and e[1][0] == "path" and e[1][1][0] in self.ptrs and len(e[3]) == 1:
                    lines = []; off = self.ex(e[3][0], lines)
                    out += [pad + "let " + l[4:] if l.startswith("let ") else pad + l for l in lines]
                    b = self.ptrs[e[1][1][0]]
                    if b == "0":
                        out.append(pad + f"let {name}_off := {off}")
                    else:
                        out.append(pad + f"let {name}_off ← uadd {b} {off}")
                    self.ptrs[name] = f"{name}_off"; continue
                lines = []; v = self.ex(e, lines)
                out += [pad + l for l in lines]
                out.append(pad + f"let {name} := {v}")
                continue
            if k == "for":
                if in_loop: raise Untranslatable("nested loop")
                lines = []; hi = self.ex(st[2], lines)
                out += [pad + l for l in lines]
                out.append(pad + f"let data ← (List.range {hi}).foldlM (fun (data : Array α) ({st[1]} : Nat) => do")
                body = self.stmts(st[3], ind + 2, True)
                out += body
                out.append("  " * (ind + 2) + "pure data) data")
                continue
            if k == "do":
                e = st[1]
                if e[0] == "call" and e[1] == ["ptr", "swap"] and len(e[2]) == 2:
                    x, y = (self.ptr(a) for a in e[2])
                    out.append(pad + f"let data ← ptrSwap data {x} {y}"); continue
                if e[0] == "call" and e[1] == ["ptr", "swap_nonoverlapping"] and len(e[2]) == 3:
                    x, y = self.ptr(e[2][0]), self.ptr(e[2][1])
                    lines = []; c = self.ex(e[2][2], lines)
                    out += [pad + l for l in lines]
                    out.append(pad + f"let data ← swapNonoverlapping es data {x} {y} {c}"); continue
                raise Untranslatable(f"statement {e[0]} {e[1] if len(e) > 1 else ''}")
            if k == "tail":
                if in_loop or not is_ok_self(st[1]) or n != len(sts) - 1:
                    raise Untranslatable("tail expression is not a final Ok(self)")
                out.append(pad + "pure (Except.ok (), data)")
                return out
            raise Untranslatable(f"statement kind {k}")
        if not in_loop:
            raise Untranslatable("kernel does not end in Ok(self)")
        return out

    def ptr(self, e):
        if e[0] == "path" and len(e[1]) == 1 and e[1][0] in self.ptrs:
            return self.ptrs[e[1][0]]
        raise Untranslatable("pointer argument is not a pointer variable of the kernel")


def translate_kernel(src, name, lean_name):
    text = find_fn(src, None, name)
    # the matrix's extents / strides are the axis shape's (delegation translated in Gen/Simple.lean)
    text = re.sub(r"self\s*\.\s*(major_stride|minor_stride|major|minor)\s*\(\s*\)", r"self.shape.\1()", text)
    fname, params, body = K(lex(text)).kfn()
    ke = KEmit(name)
    lines = ke.stmts(body, 1, False)
    ps = " ".join(f"({p} : Nat)" for p in params)
    head = f"def {lean_name} {{α : Type}} (es : Nat) (self_ : Hdr) (data : Array α) {ps} :\n    M (Except Error Unit × Array α) := do\n"
    return head + "\n".join(lines) + "\n"


HEADER = """/-
GENERATED by translate/t3.py from /repo/src/swap.rs on every run — do not edit.
The unsafe kernels as functions on the element array: `data` is the buffer, pointers are offsets
from its start, `ptr::swap` / `ptr::swap_nonoverlapping` are the partial primitives of
Model/Mem.lean (undefined behaviour is a fault).  The result is (what the call returns, the buffer).
-/
import Matreex.Gen.Core
import Matreex.Model.Mem

namespace Matreex.Gen
open Matreex

"""


def run_kernels(root):
    out, done, failed = [], [], []
    for f, name, lean_name in KERNEL_JOBS:
        try:
            src = strip_rust_comments(open(f"{root}/{f}").read())
            out.append(translate_kernel(src, name, lean_name))
            done.append(lean_name)
        except (Untranslatable, ValueError, IndexError, OSError) as ex:
            failed.append((lean_name, str(ex)))
            # keep the file compiling: the bridge lemma about this kernel will fail instead
            out.append(f"def {lean_name} {{α : Type}} (es : Nat) (self_ : Hdr) (data : Array α) (m n : Nat) :\n    M (Except Error Unit × Array α) := .error (.panic \"untranslatable\")\n")
    return HEADER + "\n".join(out) + "\nend Matreex.Gen\n", done, failed


if __name__ == "__main__":
    root = sys.argv[1] if len(sys.argv) > 1 else "/repo/src"
    text, done, failed = run_kernels(root)
    print(text)
    print(done, failed, file=sys.stderr)
