#!/usr/bin/env python3
"""Translator T11 ("index"): the `MatrixIndex` machinery of src/index.rs, the `Index` / `IndexMut` operators of
`Matrix`, and `Matrix::swap` / `swap_rows` / `swap_cols` of src/swap.rs -> Lean 4 functions (`Gen/T11Gen.lean`),
regenerated on every run.

What is generated
    MatrixIndex.<K>.<m>      for K in AxisIndex | WrappingIndex | AsIndex (the blanket impl `for I where I: AsIndex`)
                             and m in is_out_of_bounds | ensure_in_bounds | get | get_mut | get_unchecked |
                             get_unchecked_mut | index | index_mut.  TRAIT RESOLUTION IS DONE ON THE TEXT: the body is
                             the one written in `impl MatrixIndex<T> for K` if the impl has the method, else the
                             trait's provided body (with `Self` = K); a required method that the impl lacks is
                             untranslatable.  (`AxisIndex::is_out_of_bounds` is T2's `Gen.AxisIndex.is_out_of_bounds`.)
    AxisIndex.from_index_acc `AxisIndex::from_index` re-translated with an `I: AsIndex` ARGUMENT THAT IS CALLER CODE: an
                             accessor state machine whose every `row()` / `col()` call is performed where the text
                             performs it, in the text's evaluation order, and recorded.
    Matrix.is_empty          from src/lib.rs
    Matrix.get | get_mut | get_unchecked | get_unchecked_mut | index | index_mut     (generic over `I: MatrixIndex<T>`:
                             the index argument is the dictionary `MIdx` of its six accessors)
    Matrix.swap | swap_rows | swap_cols                                           (functions on header + element array)
    MatrixIndex.<K>.ops      glue (not from the text): the dictionary of kind K = its six generated accessors

Representation: a matrix is what indexing can see of it, its header `Hdr` and the length `len` of its element vector
(`data : Array α` in the three swaps, which move elements); a reference to an element / a `*mut T` into the buffer is
its offset; `Result<T>` is `Except Error T` as a value inside the fault monad `M`; `Result<&Self>` / `Result<&mut Self>`
carry `Unit`.  A function that has an `I: AsIndex` value in scope threads `st : σ × List AccCall` (accessor state, calls
made so far) and returns `(value, st)`; the swaps thread `data` and return `(value, data)` in BOTH outcomes.

Mapped by name (std / crate vocabulary -> existing definitions; arguments always from the text):
    V.data.get_unchecked(i) / get_unchecked_mut(i)   `refUnchecked len i`              (Model/Mem.lean, UB outside the buffer)
    V.data.is_empty() / V.data.len()                 `decide (len = 0)` / `len`
    ptr::swap(x, y)                                  `ptrSwap data x y`                (Model/Mem.lean)
    e as *mut T / *const T                           transparent (a pointer is its offset)
    panic!("{e}") / panic!("{}", e)   e : Error      the fault `panic (Error.name e)`
    X.row() / X.col()   on X : I: AsIndex            `accRow` / `accCol` (one recorded accessor call, header of the file)
    AxisIndex::from_wrapping_index, A.to_flattened(S), AxisIndex::is_out_of_bounds, S.major_stride() / minor_stride(),
    V.nrows() / V.ncols()                            T2's functions of Gen/Core.lean (translated from the same sources)
    V.major() / V.minor()                            `Hdr.major` / `Hdr.minor` (as T2; delegation proved in BridgeSimple)
    V.swap_major_axis_vectors(a, b) / swap_minor_…   T3's kernels of Gen/Kernels.lean

Accepted statement language (anything else raises `Untranslatable`, is reported, and the function becomes a faulting
stub of the right type so that the file compiles and the bridge fails):
    block   ::= { stmt* tail }
    stmt    ::= let x = EXPR;  |  let x = EXPR?;  |  let x = EXPR? as *mut T;  |  EXPR?;  |  EXPR;  |  unsafe { … }
              | let PAT = if … / match … ;        (value blocks; no `?` / `return` inside)
              | if COND { return E; }             (read as `if COND { E } else { rest }`, T2's rule)
    tail    ::= EXPR | if COND block else block | unsafe block
              | match ORDER { Order::RowMajor => E, Order::ColMajor => E }
              | match RESULT { Err(x) => E, Ok(y) => E }
    EXPR    ::= integers, locals, parameters, fields (.order .shape .major .minor .row .col .data), tuples, `Self { .. }`,
                + - * / % (checked), comparisons, ! && ||, Ok(E), Err(Error::X), Order::X, the vocabulary above,
                trait-method calls R.m(V) with R of a known index kind (resolved on the text as described) and V a matrix,
                V.m(I) for the Matrix-level wrappers.
`?` and early `return` are only accepted in the function's own statement sequence (including the branches of a tail
`if` / `match`).  Locals keep their Rust names (Lean keywords are quoted; names the generated code binds itself are
untranslatable).
"""
import re, sys, os
sys.path.insert(0, os.path.dirname(os.path.abspath(__file__)))
from t2 import lex, P, Untranslatable, strip_rust_comments

KINDS = ("AxisIndex", "WrappingIndex", "AsIndex")
METHODS = ("is_out_of_bounds", "ensure_in_bounds", "get", "get_mut", "get_unchecked", "get_unchecked_mut", "index", "index_mut")
OPS = ("get", "get_mut", "get_unchecked", "get_unchecked_mut", "index", "index_mut")
RESULT_REF, RESULT_UNIT = ("Result", "ref"), ("Result", "unit")
RET_FALLBACK = {"is_out_of_bounds": "bool", "ensure_in_bounds": RESULT_UNIT, "get": RESULT_REF, "get_mut": RESULT_REF,
                "get_unchecked": "ref", "get_unchecked_mut": "ref", "index": "ref", "index_mut": "ref"}
LEAN_KEYWORDS = {"at", "end", "from", "fun", "have", "show", "open", "in", "do", "then", "else", "if", "let", "match", "with",
                 "by", "where", "def", "theorem", "instance", "structure", "namespace", "section", "variable", "universe",
                 "export", "import", "return", "for", "unless", "try", "catch", "finally", "mut", "macro", "syntax", "class",
                 "inductive", "deriving", "extends", "private", "protected", "partial", "unsafe", "noncomputable", "Type",
                 "Prop", "Sort", "using", "calc", "exact", "termination_by", "decreasing_by", "local", "notation", "infix",
                 "prefix", "postfix", "abbrev", "axiom", "example", "attribute", "set_option", "mutual", "nomatch", "nofun",
                 "obtain", "suffices", "meta", "public", "module"}
RESERVED = {"st", "acc", "data", "len", "self_", "es", "err_", "pure", "decide", "M", "Nat", "Hdr", "α", "σ", "accRow", "accCol",
            "refUnchecked", "ptrSwap", "castUsize", "uadd", "usub", "umul", "udiv", "urem", "true", "false", "MIdx", "Except",
            "Error", "Order", "AxisIndex", "AxisShape", "WrappingIndex", "Matrix", "MatrixIndex", "Fault", "Accessor", "AccCall"}


def lean_id(name):
    if name in RESERVED or re.fullmatch(r"t\d+", name):
        raise Untranslatable(f"local name {name!r} is one the generated code binds itself")
    return f"«{name}»" if name in LEAN_KEYWORDS else name


def ind(lines, by="  "):
    return [by + l for l in lines]


# ------------------------------------------------------------------ items
def cut_tests(src):
    i = src.find("#[cfg(test)]")
    return src if i < 0 else src[:i]


def block_after(src, rx, what):
    """text of the `{ … }` block whose header matches rx"""
    m = re.search(rx, src)
    if not m: raise Untranslatable(f"{what} not found")
    i = src.index("{", m.end() - 1) if src[m.end() - 1] == "{" else src.index("{", m.end())
    depth, j = 1, i + 1
    while depth:
        depth += (src[j] == "{") - (src[j] == "}")
        j += 1
    return src[m.start():i], src[i:j]


def fns_in(block):
    """the `fn` items directly inside a `{ … }` block: name -> (text from `fn` to the end of the body, has_body)"""
    out, depth, i = {}, 0, 0
    rx = re.compile(r"\bfn\s+(\w+)")
    while i < len(block):
        ch = block[i]
        if ch == "{": depth += 1; i += 1; continue
        if ch == "}": depth -= 1; i += 1; continue
        m = rx.match(block, i) if depth == 1 and (i == 0 or not (block[i - 1].isalnum() or block[i - 1] == "_")) else None
        if not m: i += 1; continue
        j, par = m.end(), 0
        while True:
            c = block[j]
            par += (c in "([") - (c in ")]")
            if par == 0 and c in "{;": break
            j += 1
        if block[j] == ";":
            out.setdefault(m.group(1), (block[m.start():j + 1], False)); i = j + 1; continue
        d, k = 1, j + 1
        while d:
            d += (block[k] == "{") - (block[k] == "}")
            k += 1
        if m.group(1) in out: raise Untranslatable(f"two items named {m.group(1)} in one block")
        out[m.group(1)] = (block[m.start():k], True); i = k
    return out


def demacro(text):
    text = re.sub(r'panic!\(\s*"\{(\w+)\}"\s*\)', r"__panic_display(\1)", text)
    return re.sub(r'panic!\(\s*"\{\}"\s*,', r"__panic_display(", text)


# ------------------------------------------------------------------ parser
class Q(P):
    """T2's expression parser with raw-pointer types, `unsafe { .. }`, `match` arms with one binder, and a block
    grammar that keeps block-like statements"""

    def ty(self):
        if self.at("*"):
            self.next()
            if not (self.at("mut") or self.at("const")): raise Untranslatable("pointer type")
            self.next(); self.ty(); return ("ptr",)
        return super().ty()

    def qfn(self):
        self.eat("fn"); name = self.next()[1]; generics = []
        if self.at("<"):
            self.next()
            while not self.at(">"):
                k, g = self.next()
                if k != "id": raise Untranslatable("generic parameter list")
                generics.append(g)
                if self.at(","): self.next()
            self.eat(">")
        self.eat("("); params = []
        while not self.at(")"):
            if self.at("&"): self.next()
            if self.at("mut"): self.next()
            k, pname = self.next()
            if k != "id": raise Untranslatable(f"parameter {pname!r}")
            ty = None
            if self.at(":"):
                self.eat(":"); ty = self.ty()
            params.append((pname, ty))
            if self.at(","): self.next()
        self.eat(")")
        ret = None
        if self.at("->"):
            self.eat("->"); ret = self.ty()
        where = []
        if self.at("where"):
            while not self.at("{") and not self.at(";") and self.peek()[0] != "eof": where.append(self.next()[1])
        body = None
        if self.at("{"):
            body = self.block()
        elif self.at(";"):
            self.next()
        if self.peek()[0] != "eof": raise Untranslatable("text after the function body")
        return {"name": name, "generics": generics, "params": params, "ret": ret, "where": " ".join(where), "body": body}

    def block(self):
        self.eat("{"); stmts = []; tail = None
        while not self.at("}"):
            if tail is not None: raise Untranslatable("an expression without `;` in the middle of a block")
            if self.at("let"):
                self.next(); pat = self.pat()
                if self.at(":"):
                    self.next(); self.ty()
                self.eat("="); e = self.expr(); self.eat(";")
                stmts.append(("let", pat, e))
            elif self.at("if") and self._early_return_ahead():
                self.next(); c = self.expr(0, True)
                self.eat("{"); self.eat("return"); e = self.expr()
                if self.at(";"): self.next()
                self.eat("}")
                rest = self._rest_of_block()
                return ("block", stmts, ("if", c, ("block", [], e), rest))
            elif self.at("return"):
                self.next(); e = self.expr()
                if self.at(";"): self.next()
                if not self.at("}"): raise Untranslatable("code after return")
                tail = e
            else:
                e = self.expr()
                if self.at(";"):
                    self.next(); stmts.append(("expr", e))
                elif self.at("}"):
                    tail = e
                elif e[0] in ("unsafe", "block"):
                    stmts.append(("expr", e))
                else:
                    raise Untranslatable("an expression without `;` in the middle of a block")
        self.eat("}")
        return ("block", stmts, tail)

    def atom(self, nostruct):
        v = self.peek()[1]
        if v == "unsafe":
            self.next()
            if not self.at("{"): raise Untranslatable("`unsafe` without a block")
            return ("unsafe", self.block())
        if v == "match":
            self.next(); scrut = self.expr(0, True); self.eat("{"); arms = []
            while not self.at("}"):
                k, first = self.next()
                if k != "id": raise Untranslatable(f"match pattern {first!r}")
                path = [first]
                while self.at("::"):
                    self.next(); path.append(self.next()[1])
                binder = None
                if self.at("("):
                    self.next(); k, binder = self.next()
                    if k != "id": raise Untranslatable("match pattern with a nested pattern")
                    self.eat(")")
                self.eat("=>"); arms.append((path, binder, self.expr()))
                if self.at(","): self.next()
            self.eat("}")
            return ("match", scrut, arms)
        if v in ("return", "continue", "break", "while", "loop", "for", "let", "const", "static", "fn", "#", "|", "move"):
            raise Untranslatable(f"`{v}` in expression position")
        return super().atom(nostruct)


# ------------------------------------------------------------------ types
LEAN_OF = {"usize": "Nat", "isize": "Int", "bool": "Bool", "ref": "Nat", "unit": "Unit", "Order": "Order",
           "AxisShape": "AxisShape", "AxisIndex": "AxisIndex", "WrappingIndex": "WrappingIndex", "Error": "Error"}


def lean_of(t):
    if isinstance(t, tuple) and t[0] == "Result": return f"Except Error {lean_of(t[1])}"
    if isinstance(t, tuple) and t[0] == "tuple": return "(" + " × ".join(lean_of(x) for x in t[1]) + ")"
    if t not in LEAN_OF: raise Untranslatable(f"type {t}")
    return LEAN_OF[t]


def ret_type(ty, self_ret):
    """Rust return type -> checker type; `&Self` / `&mut Self` carry nothing (`unit`) unless self_ret says otherwise"""
    if ty is None: return "unit"
    if ty[0] == "ty":
        n = ty[1]
        if n == "Result" and len(ty[2]) == 1: return ("Result", ret_type(ty[2][0], self_ret))
        if n == "Output": return "ref"
        if n == "Self": return self_ret
        if n in ("usize", "bool", "AxisIndex"): return n
    raise Untranslatable(f"return type {ty}")


def same(a, b):
    """type agreement up to the polymorphic payload of `Err(..)`"""
    if a == "never" or b == "never": return True
    if isinstance(a, tuple) and isinstance(b, tuple) and a[0] == b[0] == "Result":
        return a[1] is None or b[1] is None or a[1] == b[1]
    return a == b


# ------------------------------------------------------------------ emitter
class Em:
    def __init__(self, tr, fname, self_ty, ret, state):
        self.tr, self.fname, self.self_ty, self.ret, self.state = tr, fname, self_ty, ret, state
        self.env = {}          # rust name -> (type, lean term)
        self.lens = {}         # lean term of a matrix header -> lean term of its length
        self.n = 0
        self.uses_es = False

    def fresh(self):
        self.n += 1; return f"t{self.n}"

    def ret_line(self, t):
        return f"pure ({t}, {self.state})" if self.state else f"pure {t}"

    def bindm(self, L, rhs, stateful=False):
        t = self.fresh()
        L.append(f"let ({t}, st) ← {rhs}" if stateful else f"let {t} ← {rhs}")
        return t

    # ---- expressions: returns (lean term, type); monadic steps are appended to L in evaluation order
    def ex(self, e, L):
        k = e[0]
        if k == "num": return str(e[1]), "usize"
        if k in ("unsafe", "block"):
            b = e[1] if k == "unsafe" else e
            if b[1] or b[2] is None: raise Untranslatable("a block with statements in expression position")
            return self.ex(b[2], L)
        if k == "cast":
            t, ty = self.ex(e[1], L)
            if e[2] == ("ptr",) and ty == "ref": return t, "ref"
            if e[2] == ("ty", "usize", []) and ty == "isize": return f"(castUsize {t})", "usize"
            if e[2] == ("ty", "usize", []) and ty == "usize": return t, "usize"
            raise Untranslatable(f"cast of {ty} to {e[2]}")
        if k == "path":
            p = e[1]
            if len(p) == 1:
                if p[0] in self.env:
                    ty, t = self.env[p[0]]; return t, ty
                if p[0] in ("true", "false"): return p[0], "bool"
                raise Untranslatable(f"unknown name {p[0]}")
            if p[0] == "Order" and p[1] in ("RowMajor", "ColMajor") and len(p) == 2:
                return ("Order.rowMajor" if p[1] == "RowMajor" else "Order.colMajor"), "Order"
            if p[0] == "Error" and len(p) == 2: return "Error." + p[1][0].lower() + p[1][1:], "Error"
            if p == ["usize", "MAX"]: return "usizeMax", "usize"
            raise Untranslatable(f"path {'::'.join(map(str, p))}")
        if k == "field":
            t, ty = self.ex(e[1], L); f = e[2]
            if ty == "Matrix" and f == "order": return f"{t}.order", "Order"
            if ty == "Matrix" and f == "shape": return f"{t}.shape", "AxisShape"
            if ty == "Matrix" and f == "data": return self.lens[t], "Vec"
            if ty in ("AxisIndex", "AxisShape") and f in ("major", "minor"): return f"{t}.{f}", "usize"
            if ty == "WrappingIndex" and f in ("row", "col"): return f"{t}.{f}", "isize"
            raise Untranslatable(f"field .{f} of {ty}")
        if k == "tuple":
            parts = [self.ex(x, L) for x in e[1]]
            return "(" + ", ".join(p[0] for p in parts) + ")", ("tuple", [p[1] for p in parts])
        if k == "struct":
            name = e[1][-1]
            if name == "Self": name = self.self_ty
            if name != "AxisIndex": raise Untranslatable(f"struct literal {name}")
            fs = [(f, self.ex(v, L)) for f, v in e[2]]
            if sorted(f for f, _ in fs) != ["major", "minor"] or any(v[1] != "usize" for _, v in fs):
                raise Untranslatable("AxisIndex literal: fields")
            return "({ " + ", ".join(f"{f} := {v[0]}" for f, v in fs) + " } : AxisIndex)", "AxisIndex"
        if k == "not":
            t, ty = self.ex(e[1], L)
            if ty != "bool": raise Untranslatable("`!` on a non-bool")
            return f"(!{t})", "bool"
        if k == "bin":
            op = e[1]
            if op in ("&&", "||"):
                a, aty = self.ex(e[2], L); rl = []; b, bty = self.ex(e[3], rl)
                if rl: raise Untranslatable("effectful right operand of && / ||")
                if aty != "bool" or bty != "bool": raise Untranslatable(f"`{op}` on non-bools")
                return f"({a} {op} {b})", "bool"
            (a, aty), (b, bty) = self.ex(e[2], L), self.ex(e[3], L)
            if op in ("+", "-", "*", "/", "%"):
                if aty != "usize" or bty != "usize": raise Untranslatable(f"`{op}` on {aty}, {bty}")
                f = {"+": "uadd", "-": "usub", "*": "umul", "/": "udiv", "%": "urem"}[op]
                return self.bindm(L, f"{f} {a} {b}"), "usize"
            if aty != bty or aty not in ("usize", "isize", "bool", "Order", "AxisShape", "AxisIndex"):
                raise Untranslatable(f"`{op}` on {aty}, {bty}")
            if op in ("==", "!="): return f"(decide ({a} {'=' if op == '==' else '≠'} {b}))", "bool"
            if op in ("<", ">", "<=", ">=") and aty in ("usize", "isize"):
                return f"(decide ({a} {op.replace('<=', '≤').replace('>=', '≥')} {b}))", "bool"
            raise Untranslatable(f"operator {op}")
        if k == "try": raise Untranslatable("`?` outside statement position")
        if k == "neg": raise Untranslatable("unary minus")
        if k == "mcall": return self.mcall(e, L)
        if k == "call": return self.call(e, L)
        raise Untranslatable(f"expression kind {k} in expression position")

    def matrix_arg(self, args, L, what):
        if len(args) != 1: raise Untranslatable(f"{what}: one argument expected")
        a, aty = self.ex(args[0], L)
        if aty != "Matrix": raise Untranslatable(f"{what}: the argument is not a matrix")
        return a

    def mcall(self, e, L):
        r, rty = self.ex(e[1], L); name, args = e[2], e[3]
        if rty in KINDS and name in METHODS:
            a = self.matrix_arg(args, L, f"{rty}::{name}")
            lean, ty = self.tr.kind_method(rty, name)
            if rty == "AsIndex":
                if self.state != "st": raise Untranslatable("accessor call outside an accessor-threading function")
                return self.bindm(L, f"{lean} {r} st {a} {self.lens[a]}", True), ty
            if (rty, name) == ("AxisIndex", "is_out_of_bounds"): return self.bindm(L, f"{lean} {r} {a}"), ty
            return self.bindm(L, f"{lean} {r} {a} {self.lens[a]}"), ty
        if rty == "MIdx" and name in OPS:
            a = self.matrix_arg(args, L, f"MatrixIndex::{name}")
            return self.bindm(L, f"{r}.{name} {a} {self.lens[a]}"), RET_FALLBACK[name]
        if rty == "AsIndex" and name in ("row", "col") and not args:
            if self.state != "st": raise Untranslatable("accessor call outside an accessor-threading function")
            t = self.fresh(); L.append(f"let ({t}, st) := acc{name.capitalize()} {r} st"); return t, "usize"
        if rty == "Matrix":
            if name in ("major", "minor") and not args: return f"{r}.{name}", "usize"
            if name in ("major_stride", "minor_stride") and not args: return self.bindm(L, f"AxisShape.{name} {r}.shape"), "usize"
            if name in ("nrows", "ncols") and not args: return self.bindm(L, f"Matrix.{name} {r}"), "usize"
            if name == "is_empty" and not args:
                lean = self.tr.matrix_fn("is_empty")
                return self.bindm(L, f"{lean} {r} {self.lens[r]}"), "bool"
            if name in OPS and len(args) == 1:
                a, aty = self.ex(args[0], L)
                if aty != "MIdx": raise Untranslatable(f"Matrix::{name}: the argument is not a generic `MatrixIndex`")
                lean = self.tr.matrix_fn(name)
                return self.bindm(L, f"{lean} {r} {self.lens[r]} {a}"), RET_FALLBACK[name]
            if name in ("swap_major_axis_vectors", "swap_minor_axis_vectors") and len(args) == 2:
                if self.state != "data" or r != "self_": raise Untranslatable(f"{name} outside a buffer-threading function")
                (a, aty), (b, bty) = self.ex(args[0], L), self.ex(args[1], L)
                if aty != "usize" or bty != "usize": raise Untranslatable(f"{name}: arguments")
                self.uses_es = True
                t = self.fresh(); L.append(f"let ({t}, data) ← Matrix.{name} es {r} data {a} {b}"); return t, RESULT_UNIT
            raise Untranslatable(f"method {name}/{len(args)} on a matrix")
        if rty == "Vec":
            if name in ("get_unchecked", "get_unchecked_mut") and len(args) == 1:
                a, aty = self.ex(args[0], L)
                if aty != "usize": raise Untranslatable(f"slice::{name}: the index is not a usize")
                return self.bindm(L, f"refUnchecked {r} {a}"), "ref"
            if name == "is_empty" and not args: return f"(decide ({r} = 0))", "bool"
            if name == "len" and not args: return r, "usize"
            raise Untranslatable(f"method {name}/{len(args)} on the element vector")
        if rty == "AxisIndex" and name == "to_flattened" and len(args) == 1:
            a, aty = self.ex(args[0], L)
            if aty != "AxisShape": raise Untranslatable("to_flattened: argument")
            return self.bindm(L, f"AxisIndex.to_flattened {r} {a}"), "usize"
        if rty == "AxisShape" and name in ("major", "minor") and not args: return f"{r}.{name}", "usize"
        if rty == "AxisShape" and name in ("major_stride", "minor_stride") and not args:
            return self.bindm(L, f"AxisShape.{name} {r}"), "usize"
        raise Untranslatable(f"method {name}/{len(args)} on {rty}")

    def call(self, e, L):
        p, args = e[1], e[2]
        if p == ["Ok"] and len(args) == 1:
            if args[0] == ("path", ["self"]):
                if self.ret != RESULT_UNIT: raise Untranslatable("`Ok(self)` in a function that does not return `Result<&Self>`")
                return "(Except.ok ())", RESULT_UNIT
            t, ty = self.ex(args[0], L); return f"(Except.ok {t})", ("Result", ty)
        if p == ["Err"] and len(args) == 1:
            t, ty = self.ex(args[0], L)
            if ty != "Error": raise Untranslatable("`Err` of a non-Error")
            return f"(Except.error {t})", ("Result", None)
        if p == ["__panic_display"] and len(args) == 1:
            t, ty = self.ex(args[0], L)
            if ty != "Error": raise Untranslatable("panic! displaying a non-Error")
            return f"Except.error (Fault.panic (Error.name {t}))", "never"
        if p == ["AxisIndex", "from_index"] and len(args) == 2:
            (a, aty), (o, oty) = self.ex(args[0], L), self.ex(args[1], L)
            if aty != "AsIndex" or oty != "Order": raise Untranslatable(f"from_index on {aty}, {oty}")
            if self.state != "st": raise Untranslatable("accessor call outside an accessor-threading function")
            lean = self.tr.from_index_acc()
            return self.bindm(L, f"{lean} {a} st {o}", True), "AxisIndex"
        if p == ["AxisIndex", "from_wrapping_index"] and len(args) == 3:
            xs = [self.ex(a, L) for a in args]
            if [x[1] for x in xs] != ["WrappingIndex", "Order", "AxisShape"]: raise Untranslatable("from_wrapping_index: arguments")
            return self.bindm(L, "AxisIndex.from_wrapping_index " + " ".join(x[0] for x in xs)), "AxisIndex"
        if p == ["ptr", "swap"] and len(args) == 2:
            if self.state != "data": raise Untranslatable("ptr::swap outside a buffer-threading function")
            (x, xty), (y, yty) = self.ex(args[0], L), self.ex(args[1], L)
            if xty != "ref" or yty != "ref": raise Untranslatable("ptr::swap: the arguments are not pointers into the buffer")
            L.append(f"let data ← ptrSwap data {x} {y}"); return "()", "unit"
        raise Untranslatable(f"call {'::'.join(map(str, p))}")

    # ---- statements
    def bind_pat(self, pat, ty):
        if pat[0] == "pvar":
            n = lean_id(pat[1]); self.env[pat[1]] = (ty, n); return n
        if not (isinstance(ty, tuple) and ty[0] == "tuple" and len(ty[1]) == len(pat[1])): raise Untranslatable("tuple pattern")
        return "(" + ", ".join(self.bind_pat(p, t) for p, t in zip(pat[1], ty[1])) + ")"

    def blk(self, b, fn_tail):
        saved = dict(self.env)
        try:
            return self.seq(list(b[1]), b[2], fn_tail)
        finally:
            self.env = saved

    def seq(self, stmts, tail, fn_tail):
        out = []
        for n, st in enumerate(stmts):
            e = st[2] if st[0] == "let" else st[1]
            if st[0] == "expr" and e[0] in ("unsafe", "block"):
                b = e[1] if e[0] == "unsafe" else e
                for s in b[1]:
                    if s[0] == "let" and any(v in self.env for v in pat_vars(s[1])): raise Untranslatable("a nested block rebinds a name")
                spliced = list(b[1]) + ([("expr", b[2])] if b[2] is not None else [])
                return out + self.seq(spliced + stmts[n + 1:], tail, fn_tail)
            core = e
            while core[0] == "cast" and core[2] == ("ptr",): core = core[1]
            if core[0] == "try":
                if not fn_tail: raise Untranslatable("`?` inside a value block")
                L = []; t, ty = self.ex(core[1], L)
                if not (isinstance(ty, tuple) and ty[0] == "Result") or ty[1] is None: raise Untranslatable("`?` on a non-Result")
                if not (isinstance(self.ret, tuple) and self.ret[0] == "Result"): raise Untranslatable("`?` in a function that does not return a Result")
                if core is not e and ty[1] != "ref": raise Untranslatable("pointer cast of a non-reference")
                out += L
                binder = "_"
                if st[0] == "let":
                    if st[1][0] != "pvar": raise Untranslatable("`let PATTERN = …?`")
                    binder = self.bind_pat(st[1], ty[1])
                out.append(f"match {t} with")
                out.append("| .error err_ => " + self.ret_line("(Except.error err_)"))
                out.append(f"| .ok {binder} => do")
                return out + ind(self.seq(stmts[n + 1:], tail, fn_tail))
            if st[0] == "let":
                if e[0] in ("if", "match"):
                    lines, ty = self.tail(e, False)
                    pat = self.bind_pat(st[1], ty)
                    lhs = f"({pat}, {self.state})" if self.state else pat
                    out.append(f"let {lhs} ← (" + lines[0]); out += ind(lines[1:]); out[-1] += ")"
                else:
                    L = []; t, ty = self.ex(e, L); out += L
                    if ty in ("never", "Matrix", "Vec", "MIdx", "AsIndex", "unit"): raise Untranslatable(f"`let` of a {ty}")
                    out.append(f"let {self.bind_pat(st[1], ty)} := {t}")
            else:
                L = []; t, ty = self.ex(e, L); out += L
                if ty == "never": return out + [t]
        if tail is None: raise Untranslatable("a block without a value")
        lines, ty = self.tail(tail, fn_tail)
        if fn_tail and not same(ty, self.ret): raise Untranslatable(f"the block's value has type {ty}, the function returns {self.ret}")
        self.last_ty = ty
        return out + lines

    def tail(self, e, fn_tail):
        """(lines of an `M` computation, type of its value)"""
        while e[0] in ("unsafe", "block"):
            b = e[1] if e[0] == "unsafe" else e
            if b[1]:
                lines = self.blk(b, fn_tail); return lines, self.last_ty
            if b[2] is None: raise Untranslatable("empty block")
            e = b[2]
        if e[0] == "if":
            L = []; c, cty = self.ex(e[1], L)
            if cty != "bool": raise Untranslatable("`if` on a non-bool")
            a = self.blk(e[2], fn_tail); aty = self.last_ty
            b = self.blk(e[3], fn_tail); bty = self.last_ty
            if not same(aty, bty): raise Untranslatable("the branches of an `if` have different types")
            self.last_ty = bty if aty == "never" or (isinstance(aty, tuple) and aty[0] == "Result" and aty[1] is None) else aty
            return L + [f"if {c} then do"] + ind(a) + ["else do"] + ind(b), self.last_ty
        if e[0] == "match":
            L = []; s, sty = self.ex(e[1], L)
            out, tys = L + [f"match {s} with"], []
            if sty == "Order":
                if sorted(a[0][-1] for a in e[2]) != ["ColMajor", "RowMajor"] or any(a[1] or a[0][0] not in ("Order", "Self") for a in e[2]):
                    raise Untranslatable("match on an Order: arms")
                for path, _, body in e[2]:
                    out.append("| .rowMajor => do" if path[-1] == "RowMajor" else "| .colMajor => do")
                    out += ind(self.blk(("block", [], body), fn_tail)); tys.append(self.last_ty)
            elif isinstance(sty, tuple) and sty[0] == "Result" and sty[1] is not None:
                if sorted(a[0][-1] for a in e[2]) != ["Err", "Ok"] or any(len(a[0]) != 1 or not a[1] for a in e[2]):
                    raise Untranslatable("match on a Result: arms")
                for path, binder, body in e[2]:
                    saved = dict(self.env)
                    b = self.bind_pat(("pvar", binder), "Error" if path[0] == "Err" else sty[1])
                    out.append(f"| .error {b} => do" if path[0] == "Err" else f"| .ok {b} => do")
                    out += ind(self.blk(("block", [], body), fn_tail)); tys.append(self.last_ty)
                    self.env = saved
            else:
                raise Untranslatable(f"match on {sty}")
            if not same(tys[0], tys[1]): raise Untranslatable("the arms of a `match` have different types")
            self.last_ty = tys[1] if tys[0] == "never" else tys[0]
            return out, self.last_ty
        L = []; t, ty = self.ex(e, L)
        self.last_ty = ty
        if ty == "never": return L + [t], ty
        if ty in ("Matrix", "Vec", "MIdx", "AsIndex"): raise Untranslatable(f"a block whose value is a {ty}")
        return L + [self.ret_line(t)], ty


def pat_vars(p):
    return [p[1]] if p[0] == "pvar" else [v for x in p[1] for v in pat_vars(x)]


# ------------------------------------------------------------------ the translation unit
class Tr:
    def __init__(self, root):
        self.root = root
        self.defs, self.done, self.failed = [], [], []
        self.status = {}                 # lean name -> "busy" | (lean name, ret type)
        idx = demacro(cut_tests(strip_rust_comments(open(f"{root}/index.rs").read())))
        self.idx = idx
        self.trait = self.items(idx, r"unsafe\s+trait\s+MatrixIndex\s*<\s*T\s*>", "trait MatrixIndex")
        self.impls = {
            "AsIndex": self.items(idx, r"unsafe\s+impl\s*<\s*T\s*,\s*I\s*>\s*MatrixIndex\s*<\s*T\s*>\s*for\s+I\s+where\s+I\s*:\s*AsIndex\s*,?\s*\{", "impl MatrixIndex for I: AsIndex"),
            "WrappingIndex": self.items(idx, r"unsafe\s+impl\s*<\s*T\s*>\s*MatrixIndex\s*<\s*T\s*>\s*for\s+WrappingIndex\s*\{", "impl MatrixIndex for WrappingIndex"),
            "AxisIndex": self.items(idx, r"unsafe\s+impl\s*<\s*T\s*>\s*MatrixIndex\s*<\s*T\s*>\s*for\s+AxisIndex\s*\{", "impl MatrixIndex for AxisIndex"),
        }

    def items(self, src, rx, what):
        try:
            return fns_in(block_after(src, rx, what)[1])
        except (Untranslatable, ValueError, IndexError) as ex:
            self.failed.append((what, str(ex))); return {}

    # ---- one definition, memoised; failures become faulting stubs of the right type
    def define(self, lean, ret_fallback, sig_of, build):
        if lean in self.status:
            if self.status[lean] == "busy": raise Untranslatable(f"{lean} is recursive")
            return self.status[lean]
        self.status[lean] = "busy"
        try:
            text, ret = build()
            self.done.append(lean)
        except (Untranslatable, ValueError, IndexError, KeyError, OSError) as ex:
            self.failed.append((lean, str(ex) or type(ex).__name__)); ret = ret_fallback
            text = sig_of(ret) + ' :=\n  .error (.panic "untranslatable")\n'
        self.defs.append(text)
        self.status[lean] = (lean, ret)
        return lean, ret

    # ---- trait methods, resolved on the text
    def kind_method(self, K, m):
        if (K, m) == ("AxisIndex", "is_out_of_bounds"): return "AxisIndex.is_out_of_bounds", "bool"
        lean = f"MatrixIndex.{K}.{m}"

        def sig_of(ret, mat="matrix"):
            if K == "AsIndex":
                return (f"def {lean} {{σ : Type}} (acc : Accessor σ) (st : σ × List AccCall) ({mat} : Hdr) (len : Nat) :\n"
                        f"    M ({lean_of(ret)} × σ × List AccCall)")
            return f"def {lean} (self_ : {K}) ({mat} : Hdr) (len : Nat) :\n    M ({lean_of(ret)})"

        def build():
            own = self.impls[K].get(m)
            if own and own[1]: text, origin = own[0], f"impl MatrixIndex<T> for {K}"
            elif m in self.trait and self.trait[m][1]: text, origin = self.trait[m][0], "the trait's provided body"
            else: raise Untranslatable(f"`{m}` is neither implemented for {K} nor provided by the trait")
            f = Q(lex(text)).qfn()
            ret = ret_type(f["ret"], "unit")
            if ret != RET_FALLBACK[m]: raise Untranslatable(f"{m}: return type {ret}")
            ps = f["params"]
            if len(ps) != 2 or ps[0] != ("self", None) or ps[1][1] != ("ty", "Matrix", [("ty", "T", [])]):
                raise Untranslatable(f"{m}: parameters are not (self, NAME: &Matrix<T>)")
            em = Em(self, m, K, ret, "st" if K == "AsIndex" else None)
            mat = lean_id(ps[1][0])
            em.env["self"] = (K, "acc" if K == "AsIndex" else "self_")
            em.env[ps[1][0]] = ("Matrix", mat); em.lens[mat] = "len"
            lines = em.blk(f["body"], True)
            return f"/-- {K}::{m} — from {origin} -/\n" + sig_of(ret, mat) + " := do\n" + "\n".join(ind(lines)) + "\n", ret

        return self.define(lean, RET_FALLBACK[m], sig_of, build)

    def from_index_acc(self):
        lean = "AxisIndex.from_index_acc"

        def sig_of(ret, order="order"):
            return (f"def {lean} {{σ : Type}} (acc : Accessor σ) (st : σ × List AccCall) ({order} : Order) :\n"
                    f"    M ({lean_of(ret)} × σ × List AccCall)")

        def build():
            fns = fns_in(block_after(self.idx, r"impl\s+AxisIndex\s*\{", "impl AxisIndex")[1])
            if "from_index" not in fns: raise Untranslatable("AxisIndex::from_index not found")
            f = Q(lex(fns["from_index"][0])).qfn()
            ps = f["params"]
            if not (len(ps) == 2 and ps[0][1] and ps[0][1][0] == "ty" and ps[0][1][1] in f["generics"] and not ps[0][1][2]
                    and re.search(r"\b" + ps[0][1][1] + r" : AsIndex\b", f["where"]) and ps[1][1] == ("ty", "Order", [])):
                raise Untranslatable("from_index: parameters are not (NAME: &I, NAME: Order) with I: AsIndex")
            if ret_type(f["ret"], "AxisIndex") != "AxisIndex": raise Untranslatable("from_index: return type")
            em = Em(self, "from_index", "AxisIndex", "AxisIndex", "st")
            em.env[ps[0][0]] = ("AsIndex", "acc")
            o = lean_id(ps[1][0]); em.env[ps[1][0]] = ("Order", o)
            lines = em.blk(f["body"], True)
            return ("/-- AxisIndex::from_index on caller code: every `row()` / `col()` is one recorded accessor call -/\n"
                    + sig_of("AxisIndex", o) + " := do\n" + "\n".join(ind(lines)) + "\n"), "AxisIndex"

        return self.define(lean, "AxisIndex", sig_of, build)[0]

    # ---- Matrix-level functions
    MATRIX_JOBS = {
        # name: (file, regex of the impl header, expected return)
        "is_empty": ("lib.rs", r"impl\s*<\s*T\s*>\s*Matrix\s*<\s*T\s*>\s*\{", "bool"),
        "get": ("index.rs", r"impl\s*<\s*T\s*>\s*Matrix\s*<\s*T\s*>\s*\{", RESULT_REF),
        "get_mut": ("index.rs", r"impl\s*<\s*T\s*>\s*Matrix\s*<\s*T\s*>\s*\{", RESULT_REF),
        "get_unchecked": ("index.rs", r"impl\s*<\s*T\s*>\s*Matrix\s*<\s*T\s*>\s*\{", "ref"),
        "get_unchecked_mut": ("index.rs", r"impl\s*<\s*T\s*>\s*Matrix\s*<\s*T\s*>\s*\{", "ref"),
        "index": ("index.rs", r"impl\s*<\s*T\s*,\s*I\s*>\s*std\s*::\s*ops\s*::\s*Index\s*<\s*I\s*>\s*for\s+Matrix\s*<\s*T\s*>", "ref"),
        "index_mut": ("index.rs", r"impl\s*<\s*T\s*,\s*I\s*>\s*std\s*::\s*ops\s*::\s*IndexMut\s*<\s*I\s*>\s*for\s+Matrix\s*<\s*T\s*>", "ref"),
        "swap": ("swap.rs", r"impl\s*<\s*T\s*>\s*Matrix\s*<\s*T\s*>\s*\{", RESULT_UNIT),
        "swap_rows": ("swap.rs", r"impl\s*<\s*T\s*>\s*Matrix\s*<\s*T\s*>\s*\{", RESULT_UNIT),
        "swap_cols": ("swap.rs", r"impl\s*<\s*T\s*>\s*Matrix\s*<\s*T\s*>\s*\{", RESULT_UNIT),
    }
    FALLBACK_PARAMS = {"swap": "(i : MIdx) (j : MIdx)", "swap_rows": "(m : Nat) (n : Nat)", "swap_cols": "(m : Nat) (n : Nat)",
                       "is_empty": ""}

    def matrix_fn(self, name):
        file, rx, expect = self.MATRIX_JOBS[name]
        lean = f"Matrix.{name}"
        buffer = expect == RESULT_UNIT
        es = name in ("swap_rows", "swap_cols")

        def sig_of(ret, params=None):
            if params is None: params = self.FALLBACK_PARAMS.get(name, "(index : MIdx)")
            if buffer:
                return (f"def {lean} {{α : Type}} {'(es : Nat) ' if es else ''}(self_ : Hdr) (data : Array α) {params} :\n"
                        f"    M ({lean_of(ret)} × Array α)")
            return f"def {lean} (self_ : Hdr) (len : Nat) {params} :\n    M ({lean_of(ret)})".replace(")  :", ") :")

        def build():
            src = self.idx if file == "index.rs" else demacro(cut_tests(strip_rust_comments(open(f"{self.root}/{file}").read())))
            header, block = block_after(src, rx, f"the impl block of Matrix::{name}")
            fns = fns_in(block)
            if name not in fns or not fns[name][1]: raise Untranslatable(f"fn {name} not found in its impl block")
            f = Q(lex(fns[name][0])).qfn()
            ret = ret_type(f["ret"], "unit")
            if ret != expect: raise Untranslatable(f"{name}: return type {ret}")
            ps = f["params"]
            if not ps or ps[0] != ("self", None): raise Untranslatable(f"{name}: no self parameter")
            em = Em(self, name, "Matrix", ret, "data" if buffer else None)
            em.env["self"] = ("Matrix", "self_"); em.lens["self_"] = "data.size" if buffer else "len"
            bounds = re.sub(r"\s+", " ", header) + " " + f["where"]
            params = []
            for pn, pt in ps[1:]:
                n = lean_id(pn)
                if pt == ("ty", "usize", []):
                    em.env[pn] = ("usize", n); params.append(f"({n} : Nat)")
                elif pt and pt[0] == "ty" and not pt[2] and re.search(r"\b" + re.escape(pt[1]) + r" ?: ?MatrixIndex\b", bounds):
                    em.env[pn] = ("MIdx", n); params.append(f"({n} : MIdx)")
                else:
                    raise Untranslatable(f"{name}: parameter {pn}")
            lines = em.blk(f["body"], True)
            if em.uses_es and not es: raise Untranslatable(f"{name}: needs the element size")
            return (f"/-- Matrix::{name} ({file}) -/\n" + sig_of(ret, " ".join(params)) + " := do\n" + "\n".join(ind(lines)) + "\n"), ret

        return self.define(lean, expect, sig_of, build)[0]

    def ops(self, K):
        fields = []
        for m in OPS:
            lean, _ = self.kind_method(K, m)
            if K == "AsIndex": fields.append(f"    {m} := fun h len => ({lean} acc (s, []) h len).map (·.1)")
            else: fields.append(f"    {m} := {lean} i")
        head = (f"def MatrixIndex.AsIndex.ops {{σ : Type}} (acc : Accessor σ) (s : σ) : MIdx :=" if K == "AsIndex"
                else f"def MatrixIndex.{K}.ops (i : {K}) : MIdx :=")
        self.defs.append(f"/-- glue: the dictionary of an index of kind {K} -/\n{head}\n  {{\n" + ",\n".join(fields) + " }\n")


HEADER = """/-
GENERATED by translate/t11.py from /repo/src/index.rs (`MatrixIndex` and its three impls, `Matrix::get…`, `Index` /
`IndexMut`), /repo/src/lib.rs (`is_empty`) and /repo/src/swap.rs (`swap`, `swap_rows`, `swap_cols`) on every run — do
not edit.  Trait methods are resolved on the text (impl body, else the trait's provided body).  A matrix is its header
and the length `len` of its element vector (its `data` in the swaps); references and raw pointers are offsets.
-/
import Matreex.Gen.Core
import Matreex.Gen.Kernels
import Matreex.Model.Index
import Matreex.Model.Mem

namespace Matreex.Gen
open Matreex
set_option linter.unusedVariables false

/-- `X.row()` on caller code `X: AsIndex`: one call of the accessor's `row`, recorded -/
def accRow {σ : Type} (acc : Accessor σ) (st : σ × List AccCall) : Nat × σ × List AccCall :=
  ((acc.row st.1).1, (acc.row st.1).2, st.2 ++ [AccCall.row])
/-- `X.col()` on caller code `X: AsIndex` -/
def accCol {σ : Type} (acc : Accessor σ) (st : σ × List AccCall) : Nat × σ × List AccCall :=
  ((acc.col st.1).1, (acc.col st.1).2, st.2 ++ [AccCall.col])

/-- a generic argument `I: MatrixIndex<T>`: its accessors, each applied to (header, length of the element vector) -/
structure MIdx where
  get : Hdr → Nat → M (Except Error Nat)
  get_mut : Hdr → Nat → M (Except Error Nat)
  get_unchecked : Hdr → Nat → M Nat
  get_unchecked_mut : Hdr → Nat → M Nat
  index : Hdr → Nat → M Nat
  index_mut : Hdr → Nat → M Nat

"""


def run_t11(root):
    try:
        tr = Tr(root)
    except OSError as ex:
        return HEADER + "end Matreex.Gen\n", [], [("T11", str(ex))]
    for K in KINDS:
        for m in METHODS:
            tr.kind_method(K, m)
        tr.ops(K)
    for name in Tr.MATRIX_JOBS:
        tr.matrix_fn(name)
    return HEADER + "\n".join(tr.defs) + "\nend Matreex.Gen\n", tr.done, tr.failed


if __name__ == "__main__":
    root = sys.argv[1] if len(sys.argv) > 1 else "/repo/src"
    text, done, failed = run_t11(root)
    print(text)
    print(done, failed, file=sys.stderr)
