#!/usr/bin/env python3
"""Translator T13 ("row-wise conversions"): the conversions of src/convert.rs

    Matrix::from_row / Matrix::from_col
    From<[[T; C]; R]> / From<Vec<[T; C]>> / From<&[[T; C]]>
    TryFrom<[Vec<T>; C]> / TryFrom<Vec<Vec<T>>> / TryFrom<&[Vec<T>]>
    FromIterator<V> (V: IntoIterator<Item = T>)
    (and `Matrix::new` of src/construct.rs, which `from_iter` returns for zero rows)

-> Lean 4 functions (`Gen/T13Gen.lean`), regenerated on every run.  A sequence of rows (`Vec<Vec<T>>`,
`[Vec<T>; C]`, `&[Vec<T>]`, `[[T; C]; R]`, `Vec<[T; C]>`, `&[[T; C]]`, an `IntoIterator` of `IntoIterator`s) is a
`List (List α)`, a row / an `Into<Vec<T>>` argument a `List α`, a `Vec<T>` under construction an `Array α`,
const generics are `Nat` parameters, `es` is `size_of::<T>()`.

What comes from the Rust text: every statement — which operand each `let` is computed from (`value.len()`, the
const generic, the first row's length and its default), the operands and the order of `Shape::new`, which
conversion (`try_to_axis_shape` / `to_axis_shape_unchecked`) with which order, what `check_size` is asked about,
the position of the two `?` relative to the allocation and to the loop, the allocation's operand, the loop (what
is iterated, which `let mut` locals it carries), the test inside the loop and its position relative to
`extend`, what is returned or panicked with and where, the operands of the checked `-` and `+=`, the
assignments, the fields the result is assembled from.

What is mapped BY NAME to existing vocabulary (arguments from the text, never a whole function):

    X.len()  X.is_empty()                    `List.length` / `Array.size` (a sequence of rows, a row, a vector)
    ROWS.first()                             `List.head?`
    OPT.map_or(D, |x| E)                     `(Option.map (fun x => E) OPT).getD D`   (E effect-free)
    ROWS.into_iter() / .iter()               the sequence itself;   ROW.into_iter() / .iter(): the row's elements
    ROWS.flatten() (after into_iter/iter)    `List.flatten`
    ELEMS.cloned() / .copied()               identity (an effect-free `Clone`, as in the model)
    ELEMS.take(n)                            `List.take n`
    ELEMS.collect()   P.into()               `List.toArray`  (P a parameter of a type `R: Into<Vec<T>>`); no
                                             allocation fault: the elements already exist in memory (as in the model)
    Vec::with_capacity(n)                    `Vec.reserveExact es n` (Model/Construct.lean: the capacity-overflow
                                             panic is a fault), then `#[]`;   Vec::new(): `#[]`
    v.extend(X)  v.extend_from_slice(X)      `v ++ X.toArray`  (growth of a vector is not a fault of the model)
    v.push(x)                                `Array.push`;   v.shrink_to_fit(): nothing (capacity is not modelled)
    let Some(x) = IT.next() else { .. };     `match IT with | [] => .. | x :: IT => ..`
    for x in XS { .. }                       `forEachM` (Model/ForPrims.lean) over the list, carrying the `let mut`
                                             locals the body assigns; `return` is `LoopStep.done`, falling through
                                             `LoopStep.next`
    panic!("{}", Error::X)                   the fault `.panic Error.x.name`
    Shape::new  try_to_axis_shape  to_axis_shape_unchecked  AxisShape::size  check_size
                                             the functions T2 regenerates (Gen/Core.lean, Gen/Simple.lean)
    Order::default()  AxisShape::default()   the `#[default]` variant read from src/order.rs / the all-zero value of
                                             the derived `Default`, fields read from src/shape.rs
    Self::new()                              `Gen.Matrix.new`, translated here from src/construct.rs
    + - * / %                                checked (`uadd usub umul udiv urem`: overflow / zero divisor = panic)

Accepted statement language (anything else raises `Untranslatable`, is reported in the JSON summary, and a stub of
the right type that faults is emitted, so that the file compiles and the bridge theorem fails):

    let [mut] x [: usize | bool | Order | Shape | AxisShape | Vec<T>] = EXPR;      `mut`: usize, bool, Vec<T>, rows
    let x = EXPR?;   EXPR?;                  early `Err` (only in a function returning `Result<Self>`, not in a loop)
    let Some(x) = IT.next() else { ..diverges.. };
    x = EXPR;   x += EXPR;  x -= EXPR;  x *= EXPR;                                  x a `let mut` local
    v.extend(..); v.extend_from_slice(..); v.push(..); v.shrink_to_fit();           v a `let mut` vector
    if COND { .. } [else { .. }]             a branch ending in `return` / `panic!` leaves; otherwise the rest of the
                                             block follows the branch (emitted after both branches)
    for x in XS { .. }                       XS a sequence of rows (x: a row) or a row (x: an element); no nesting
    return RESULT;   RESULT (tail)           RESULT ::= Self { order, shape, data } | Self::new()         (-> Self)
                                                      | Ok(<that>) | Err(Error::X)                       (-> Result<Self>)
    panic!("{}", Error::X);
  expressions: integers, locals, const generics, usize::MAX, + - * / %, == != < > <= >=, ! && ||, a.min(b) a.max(b),
    Order::RowMajor / ColMajor, and the vocabulary above.  A checker assigns a type to every expression; an
    operation on the wrong type is untranslatable.
Signatures are checked against the parameter kind the bridge theorem is stated for.
"""
import re, sys, os
sys.path.insert(0, os.path.dirname(os.path.abspath(__file__)))
from t2 import find_fn, P, Untranslatable, strip_rust_comments
from t8 import LEAN_KEYWORDS, lean_id, default_order

TOK = re.compile(r"""
    (?P<ws>\s+|//[^\n]*|/\*.*?\*/)
  | (?P<str>"(?:[^"\\]|\\.)*")
  | (?P<num>\d[\d_]*)
  | (?P<id>[A-Za-z_][A-Za-z0-9_]*)
  | (?P<op>::|->|=>|==|!=|>=|<=|&&|\|\||\.\.|[-+*/%<>=!&|.,;:(){}\[\]?'#])
""", re.X | re.S)


def lex(src):
    out, i = [], 0
    while i < len(src):
        m = TOK.match(src, i)
        if not m: raise Untranslatable(f"lexer: unexpected {src[i:i+20]!r}")
        i = m.end()
        if m.lastgroup != "ws": out.append((m.lastgroup, m.group(m.lastgroup)))
    return out


USIZE, BOOL, ORDER, SHAPE, ASHAPE, ELEM, VEC, ROW, ROWS, ELEMS, INTOVEC, MATRIX = \
    "usize", "bool", "Order", "Shape", "AxisShape", "T", "Vec<T>", "row", "rows", "elements", "impl Into<Vec<T>>", "Matrix<T>"
LEAN_OF = {USIZE: "Nat", BOOL: "Bool", ORDER: "Order", SHAPE: "Shape", ASHAPE: "AxisShape", ELEM: "α", VEC: "Array α",
           ROW: "List α", ROWS: "List (List α)", ELEMS: "List α", MATRIX: "Matrix α"}
T_ = ("ty", "T", [])


def RESULT(t): return ("Result", t)
def OPTION(t): return ("Option", t)


def tname(t): return t if isinstance(t, str) else f"{t[0]}<{tname(t[1])}>"


RESERVED = set("""es s_ r_ err_ α pure bind decide uadd usub umul udiv urem min max fun do let if then else match with M Nat
 List Array Hdr AxisShape Shape Order Index Error Except Matrix Vec usizeMax isizeMax Gen Matreex true false Unit
 forEachM LoopStep throw Fault some none""".split())
MUTATING = {"extend", "extend_from_slice", "push", "shrink_to_fit", "reserve", "reserve_exact", "clear", "truncate",
            "pop", "insert", "remove", "swap_remove", "append", "resize", "resize_with", "next", "drain", "retain",
            "dedup", "sort", "reverse", "set_len"}


def check_name(name, what):
    if name in RESERVED or re.fullmatch(r"t\d+", name):
        raise Untranslatable(f"{what} `{name}` collides with a name of the generated code")


# ------------------------------------------------------------------ parser
class D(P):
    """signature + statement-level parser; expressions are T2's, plus closures in argument lists"""

    def pty(self):
        if self.at("&"):
            self.next()
            if self.at("mut"): raise Untranslatable("a `&mut` type")
            if self.at("'"): raise Untranslatable("a lifetime")
            return ("ref", self.pty())
        if self.at("["):
            self.next(); inner = self.pty()
            if self.at(";"):
                self.next(); k, n = self.next()
                if k not in ("id", "num"): raise Untranslatable("array length")
                self.eat("]"); return ("array", inner, n)
            self.eat("]"); return ("slice", inner)
        k, name = self.next()
        if k != "id": raise Untranslatable(f"type: unexpected {name!r}")
        args = []
        if self.at("<"):
            self.next()
            while not self.at(">"):
                if self.peek()[0] == "id" and self.peek(1)[1] == "=":
                    an = self.next()[1]; self.next(); args.append(("assoc", an, self.pty()))
                else:
                    args.append(self.pty())
                if self.at(","): self.next()
                elif not self.at(">"): raise Untranslatable(f"type arguments: unexpected {self.peek()[1]!r}")
            self.eat(">")
        return ("ty", name, args)

    def sig(self):
        self.eat("fn"); name = self.next()[1]
        generics = []
        if self.at("<"):
            self.next()
            while not self.at(">"):
                k, g = self.next()
                if k != "id" or not (self.at(",") or self.at(">")):
                    raise Untranslatable("generic parameter list is not a list of plain type names")
                generics.append(g)
                if self.at(","): self.next()
            self.eat(">")
        self.eat("("); params = []
        while not self.at(")"):
            if self.at("&") or self.at("self"): raise Untranslatable("a receiver")
            mut = self.at("mut")
            if mut: self.next()
            k, pname = self.next()
            if k != "id": raise Untranslatable(f"parameter {pname!r}")
            self.eat(":")
            params.append((pname, self.pty(), mut))
            if self.at(","): self.next()
            elif not self.at(")"): raise Untranslatable(f"parameter list: unexpected {self.peek()[1]!r}")
        self.eat(")"); self.eat("->")
        ret = self.pty()
        bounds = {}
        if self.at("where"):
            self.next()
            while not self.at("{"):
                k, tv = self.next()
                if k != "id": raise Untranslatable(f"where clause: unexpected {tv!r}")
                self.eat(":")
                bounds.setdefault(tv, []).append(self.pty())
                while self.at("+"):
                    self.next(); bounds[tv].append(self.pty())
                if self.at(","): self.next()
                elif not self.at("{"): raise Untranslatable(f"where clause: unexpected {self.peek()[1]!r}")
        body = self.cblock()
        if self.peek()[0] != "eof": raise Untranslatable("text after the function body")
        return {"name": name, "generics": generics, "params": params, "ret": ret, "bounds": bounds, "body": body}

    def cblock(self):
        self.eat("{"); stmts = []
        while not self.at("}"):
            if self.peek()[0] == "eof": raise Untranslatable("unterminated block")
            stmts.append(self.cstmt())
        self.eat("}")
        return stmts

    def cstmt(self):
        k0, v = self.peek()
        if k0 == "id" and v in ("continue", "break", "while", "loop", "match", "const", "static", "fn", "unsafe", "struct",
                                "impl", "use"):
            raise Untranslatable(f"`{v}` statement")
        if v == "#": raise Untranslatable("an attribute")
        if v == "return":
            self.next(); e = self.expr(); self.eat(";")
            return ("return", e)
        if v == "panic" and self.peek(1)[1] == "!":
            self.next(); self.next(); self.eat("(")
            k, fmt = self.next()
            if k != "str": raise Untranslatable("panic!: the first argument is not a string literal")
            args = []
            while self.at(","):
                self.next()
                if self.at(")"): break
                args.append(self.expr())
            self.eat(")")
            if self.at(";"): self.next()
            return ("panic", fmt, args)
        if v == "for":
            self.next(); k, var = self.next()
            if k != "id": raise Untranslatable("for: pattern instead of a loop variable")
            self.eat("in")
            it = self.expr(0, True)
            if self.at(".."): raise Untranslatable("for: a range")
            return ("for", var, it, self.cblock())
        if v == "if":
            self.next()
            if self.at("let"): raise Untranslatable("`if let`")
            c = self.expr(0, True)
            t = self.cblock(); f = None
            if self.at("else"):
                self.next()
                if self.at("if"): f = [self.cstmt()]
                else: f = self.cblock()
            return ("if", c, t, f)
        if v == "let":
            self.next()
            if self.at("Some") and self.peek(1)[1] == "(":
                self.next(); self.eat("(")
                k, name = self.next()
                if k != "id": raise Untranslatable("let Some(..): a pattern inside")
                self.eat(")"); self.eat("="); e = self.expr(0, True)
                self.eat("else"); blk = self.cblock(); self.eat(";")
                return ("letsome", name, e, blk)
            mut = self.at("mut")
            if mut: self.next()
            k, name = self.next()
            if k != "id" or self.at("("): raise Untranslatable("let with a pattern")
            ann = None
            if self.at(":"):
                self.next(); ann = self.pty()
            self.eat("="); e = self.expr(); self.eat(";")
            return ("let", name, e, mut, ann)
        if k0 == "id" and self.peek(1)[1] in ("+", "-", "*", "/", "%") and self.peek(2)[1] == "=" and self.peek(3)[1] != "=":
            name = self.next()[1]; op = self.next()[1]; self.next()
            rhs = self.expr(); self.eat(";")
            return ("opassign", op, ("path", [name]), rhs)
        e = self.expr()
        if self.at(";"):
            self.next(); return ("do", e)
        if self.at("="):
            self.next(); rhs = self.expr(); self.eat(";")
            return ("assign", e, rhs)
        return ("tail", e)

    def args(self):
        self.eat("("); xs = []
        while not self.at(")"):
            if self.at("|"):
                self.next(); ps = []
                while not self.at("|"):
                    k, p = self.next()
                    if k != "id": raise Untranslatable("closure: a pattern parameter")
                    ps.append(p)
                    if self.at(","): self.next()
                self.eat("|")
                if self.at("{"): raise Untranslatable("closure with a block body")
                xs.append(("closure", ps, self.expr()))
            else:
                xs.append(self.expr())
            if self.at(","): self.next()
        self.eat(")"); return xs

    def atom(self, nostruct):
        k, v = self.peek()
        if k == "str": raise Untranslatable("a string literal")
        if v in ("|", "||", "move"): raise Untranslatable("closure expression outside an argument list")
        if v in ("unsafe", "loop", "while", "match", "if"): raise Untranslatable(f"`{v}` expression")
        if v == "..": raise Untranslatable("range expression")
        if k == "id" and self.peek(1)[1] == "!": raise Untranslatable(f"macro `{v}!` in an expression")
        return super().atom(nostruct)

    def postfix(self, e):
        while True:
            if self.at("["): raise Untranslatable("indexing `x[..]`")
            if self.at("."):
                self.next(); name = self.next()[1]
                if self.at("::"): raise Untranslatable("turbofish on a method")
                if self.at("("):
                    e = ("mcall", e, name, self.args())
                else:
                    e = ("field", e, name)
            elif self.at("?"):
                self.next(); e = ("try", e)
            else:
                return e


def annot_type(t):
    if t[0] == "ty" and not t[2]:
        return {"usize": USIZE, "bool": BOOL, "Order": ORDER, "Shape": SHAPE, "AxisShape": ASHAPE}.get(t[1])
    if t == ("ty", "Vec", [T_]): return VEC
    return None


def describe(ty, generics, bounds, impl_bounds):
    """(checker type, description) of a parameter type"""
    def row(t):
        if t == ("ty", "Vec", [T_]): return "vec"
        if t[0] == "array" and t[1] == T_: return f"array[{t[2]}]"
        return None
    outer, inner = None, None
    if ty[0] == "array": outer, inner = f"array[{ty[2]}]", ty[1]
    elif ty[0] == "ty" and ty[1] == "Vec" and len(ty[2]) == 1: outer, inner = "vec", ty[2][0]
    elif ty[0] == "ref" and ty[1][0] == "slice": outer, inner = "slice", ty[1][1]
    if outer and row(inner): return ROWS, f"{outer} of {row(inner)}"
    if ty[0] == "ty" and not ty[2] and ty[1] in generics:
        bs = bounds.get(ty[1], [])
        if bs == [("ty", "Into", [("ty", "Vec", [T_])])]: return INTOVEC, "into vec"
        if len(bs) == 1 and bs[0][0] == "ty" and bs[0][1] == "IntoIterator" and len(bs[0][2]) == 1 and bs[0][2][0][:2] == ("assoc", "Item"):
            item = bs[0][2][0][2]
            if item[0] == "ty" and not item[2] and impl_bounds.get(item[1]) == "IntoIterator<Item = T>":
                return ROWS, "iterable of iterables"
    raise Untranslatable("parameter type outside the row-sequence forms")


# ------------------------------------------------------------------ emitter
class Fn:
    def __init__(self, ast, lean_name, with_es, consts, impl_bounds, dord, dashape, available):
        self.ast = ast; self.lean_name = lean_name; self.with_es = with_es; self.consts = consts
        self.impl_bounds = impl_bounds; self.default_order = dord; self.default_ashape = dashape
        self.available = available
        self.n = 0
        self.scope = [{}]          # name -> (type, mutable)
        self.mode = None           # "self" | "result"
        self.loop = None           # None | (pattern, ) while emitting a loop body

    def fresh(self):
        while True:
            self.n += 1; t = f"t{self.n}"
            if self.lookup(t) is None: return t

    def lookup(self, name):
        for s in reversed(self.scope):
            if name in s: return s[name]
        return None

    def bind(self, name, ty, mut=False):
        check_name(name, "local")
        self.scope[-1][name] = (ty, mut)

    def need(self, gen_name):
        if self.available is not None and gen_name not in self.available:
            raise Untranslatable(f"refers to {gen_name}, which was not translated on this run")
        return "Matreex.Gen." + gen_name

    def rty(self):
        return "Matrix α" if self.mode == "self" else "Except Error (Matrix α)"

    # --- expressions
    def ex(self, e, lines):
        k = e[0]
        if k == "num": return str(e[1]), USIZE
        if k == "path":
            p = e[1]
            if len(p) == 1:
                if p[0] in ("true", "false"): return p[0], BOOL
                b = self.lookup(p[0])
                if b is not None: return lean_id(p[0]), b[0]
                if p[0] in self.consts: return p[0], USIZE
                raise Untranslatable(f"`{p[0]}` is not a local in scope")
            if p == ["Order", "RowMajor"]: return "Order.rowMajor", ORDER
            if p == ["Order", "ColMajor"]: return "Order.colMajor", ORDER
            if p == ["usize", "MAX"]: return "usizeMax", USIZE
            raise Untranslatable(f"path {'::'.join(map(str, p))}")
        if k == "field": raise Untranslatable(f"field access .{e[2]}")
        if k == "not":
            a, t = self.ex(e[1], lines)
            if t != BOOL: raise Untranslatable("`!` on a non-bool")
            return f"(!{a})", BOOL
        if k == "bin":
            op = e[1]
            if op in ("&&", "||"):
                a, ta = self.ex(e[2], lines); rl = []; b, tb = self.ex(e[3], rl)
                if rl: raise Untranslatable("effectful right operand of && / ||")
                if (ta, tb) != (BOOL, BOOL): raise Untranslatable(f"`{op}` on non-bools")
                return f"({a} {op} {b})", BOOL
            a, ta = self.ex(e[2], lines); b, tb = self.ex(e[3], lines)
            if op in ("+", "-", "*", "/", "%"):
                if (ta, tb) != (USIZE, USIZE): raise Untranslatable(f"`{op}` on non-integers")
                f = {"+": "uadd", "-": "usub", "*": "umul", "/": "udiv", "%": "urem"}[op]
                t = self.fresh(); lines.append(f"let {t} ← {f} {a} {b}"); return t, USIZE
            if op in ("==", "!="):
                if ta != tb or ta not in (USIZE, ORDER, ASHAPE, SHAPE, BOOL): raise Untranslatable(f"`{op}` on {tname(ta)} and {tname(tb)}")
                return f"(decide ({a} {'=' if op == '==' else '≠'} {b}))", BOOL
            if op in ("<", ">", "<=", ">="):
                if (ta, tb) != (USIZE, USIZE): raise Untranslatable(f"`{op}` on non-integers")
                return f"(decide ({a} {op.replace('<=', '≤').replace('>=', '≥')} {b}))", BOOL
            raise Untranslatable(f"operator {op}")
        if k == "try": raise Untranslatable("`?` outside `let x = …?;` / `…?;`")
        if k == "mcall": return self.mcall(e, lines)
        if k == "call": return self.call(e, lines)
        if k == "struct": return self.struct(e, lines)
        if k == "closure": raise Untranslatable("closure outside `map_or`")
        if k == "cast": raise Untranslatable("`as` cast")
        raise Untranslatable(f"expression kind {k}")

    def typed(self, e, want, lines, what):
        a, t = self.ex(e, lines)
        if t != want: raise Untranslatable(f"{what}: expected {tname(want)}, found {tname(t)}")
        return a

    def eff(self, lines, fn, args, ty):
        t = self.fresh(); lines.append(f"let {t} ← {fn} {' '.join(args)}".rstrip()); return t, ty

    def mcall(self, e, lines):
        recv, name, args = e[1], e[2], e[3]
        r, t = self.ex(recv, lines)
        if isinstance(t, tuple) and t[0] == "Option":
            if name == "map_or" and len(args) == 2 and args[1][0] == "closure":
                d, td = self.ex(args[0], lines)
                ps, body = args[1][1], args[1][2]
                if len(ps) != 1: raise Untranslatable("map_or: the closure does not take one parameter")
                self.scope.append({}); self.bind(ps[0], t[1])
                bl = []; b, tb = self.ex(body, bl)
                self.scope.pop()
                if bl: raise Untranslatable("map_or: a closure body with effects (checked arithmetic, calls)")
                if td != tb or td not in (USIZE, BOOL): raise Untranslatable("map_or: default and closure body of different / unsupported types")
                return f"((Option.map (fun {lean_id(ps[0])} => {b}) {r}).getD {d})", td
            raise Untranslatable(f"method .{name}/{len(args)} on an Option")
        for a in args:
            if a[0] == "closure": raise Untranslatable(f"closure argument of .{name}")
        av = [self.ex(a, lines) for a in args]
        at = [x[1] for x in av]; av = [x[0] for x in av]
        if t == ROWS:
            if name == "len" and not args: return f"{r}.length", USIZE
            if name == "is_empty" and not args: return f"{r}.isEmpty", BOOL
            if name == "first" and not args: return f"{r}.head?", OPTION(ROW)
            if name in ("iter", "into_iter") and not args: return r, ROWS
            if name == "flatten" and not args: return f"{r}.flatten", ELEMS
        if t == ROW:
            if name == "len" and not args: return f"{r}.length", USIZE
            if name == "is_empty" and not args: return f"{r}.isEmpty", BOOL
            if name in ("iter", "into_iter") and not args: return r, ELEMS
        if t == INTOVEC and name == "into" and not args: return f"{r}.toArray", VEC
        if t == ELEMS:
            if name in ("cloned", "copied") and not args: return r, ELEMS
            if name == "take" and at == [USIZE]: return f"({r}.take {av[0]})", ELEMS
            if name == "collect" and not args: return f"{r}.toArray", VEC
        if t == VEC:
            if name == "len" and not args: return f"{r}.size", USIZE
            if name == "is_empty" and not args: return f"{r}.isEmpty", BOOL
        if t == SHAPE:
            if name == "try_to_axis_shape" and at == [ORDER]:
                return self.eff(lines, self.need("Shape.try_to_axis_shape"), [r] + av, RESULT(ASHAPE))
            if name == "to_axis_shape_unchecked" and at == [ORDER]:
                return self.eff(lines, self.need("Shape.to_axis_shape_unchecked"), [r] + av, ASHAPE)
            if name == "size" and not args:
                return self.eff(lines, self.need("Shape.size"), [r], RESULT(USIZE))
        if t == ASHAPE:
            if name in ("major", "minor") and not args: return f"{r}.{name}", USIZE
            if name == "size" and not args:
                return self.eff(lines, self.need("AxisShape.size"), [r], USIZE)
        if t == USIZE and name in ("min", "max") and at == [USIZE]:
            return f"({name} {r} {av[0]})", USIZE
        raise Untranslatable(f"method .{name}/{len(args)} on {tname(t)}")

    def call(self, e, lines):
        p, args = e[1], e[2]
        for a in args:
            if a[0] == "closure": raise Untranslatable("closure argument of a call")
        if p == ["Shape", "new"] and len(args) == 2:
            av = [self.typed(a, USIZE, lines, "argument of Shape::new") for a in args]
            return f"({self.need('Shape.new')} {av[0]} {av[1]})", SHAPE
        if p in (["Self", "check_size"], ["Matrix", ("targs", [T_]), "check_size"], ["Matrix", "check_size"]):
            if not self.with_es: raise Untranslatable("check_size in a function that is not given the element size")
            if len(args) != 1: raise Untranslatable("check_size: one argument expected")
            a = self.typed(args[0], USIZE, lines, "argument of check_size")
            return self.eff(lines, self.need("Matrix.check_size"), ["es", a], RESULT(USIZE))
        if p == ["Vec", "new"] and not args: return "(#[] : Array α)", VEC
        if p == ["Vec", "with_capacity"] and len(args) == 1:
            if not self.with_es: raise Untranslatable("allocation in a function that is not given the element size")
            n = self.typed(args[0], USIZE, lines, "Vec::with_capacity")
            lines.append(f"Vec.reserveExact es {n}")
            return "(#[] : Array α)", VEC
        if p in (["Self", "new"], ["Matrix", "new"]) and not args:
            if self.lean_name == "Matrix.new": raise Untranslatable("`new` calls itself")
            return self.eff(lines, f"({self.need('Matrix.new')} : M (Matrix α))", [], MATRIX)
        if p == ["Order", "default"] and not args:
            if isinstance(self.default_order, Exception): raise self.default_order
            return self.default_order, ORDER
        if p == ["AxisShape", "default"] and not args:
            if isinstance(self.default_ashape, Exception): raise self.default_ashape
            return self.default_ashape, ASHAPE
        raise Untranslatable("call " + "::".join(x if isinstance(x, str) else "<…>" for x in p))

    def struct(self, e, lines):
        if e[1] not in (["Self"], ["Matrix"]): raise Untranslatable("struct literal of another type")
        fields = dict(e[2])
        if sorted(fields) != ["data", "order", "shape"] or len(e[2]) != 3:
            raise Untranslatable("Self { .. }: the fields are not exactly order, shape, data")
        vals = {}
        for f, _ in e[2]:          # evaluation order of the text
            vals[f] = self.typed(fields[f], {"order": ORDER, "shape": ASHAPE, "data": VEC}[f], lines, f"Self {{ {f}: .. }}")
        return f"({{ order := {vals['order']}, shape := {vals['shape']}, data := {vals['data']} }} : Matrix α)", MATRIX

    def ret(self, e, lines):
        """the value of a RESULT expression, of the function's return type"""
        if self.mode == "self":
            return self.typed(e, MATRIX, lines, "result")
        if e[0] == "call" and e[1] == ["Err"] and len(e[2]) == 1:
            x = e[2][0]
            if x[0] == "path" and len(x[1]) == 2 and x[1][0] == "Error" and isinstance(x[1][1], str):
                return f"(Except.error Error.{x[1][1][0].lower() + x[1][1][1:]} : {self.rty()})"
            raise Untranslatable("Err(..) of something that is not `Error::X`")
        if e[0] == "call" and e[1] == ["Ok"] and len(e[2]) == 1:
            return f"(Except.ok {self.typed(e[2][0], MATRIX, lines, 'Ok(..)')} : {self.rty()})"
        raise Untranslatable("a result that is neither Ok(..) nor Err(..)")

    # --- statements
    def mutated(self, sts, acc):
        for st in sts:
            k = st[0]
            if k in ("assign", "opassign"):
                lhs = st[1] if k == "assign" else st[2]
                if lhs[0] == "path" and len(lhs[1]) == 1: acc.add(lhs[1][0])
            elif k == "do":
                e = st[1]
                if e[0] == "try": e = e[1]
                if e[0] == "mcall" and e[1][0] == "path" and len(e[1][1]) == 1 and e[2] in MUTATING: acc.add(e[1][1][0])
            elif k == "if":
                self.mutated(st[2], acc)
                if st[3]: self.mutated(st[3], acc)
            elif k == "for": self.mutated(st[3], acc)
            elif k == "letsome":
                e = st[2]
                if e[0] == "mcall" and e[1][0] == "path" and len(e[1][1]) == 1: acc.add(e[1][1][0])
                self.mutated(st[3], acc)
        return acc

    def vec_stmt(self, e, out, pad):
        if e[0] != "mcall" or e[1][0] != "path" or len(e[1][1]) != 1: return False
        v = e[1][1][0]; b = self.lookup(v)
        if b is None or b[0] != VEC: return False
        if not b[1]: raise Untranslatable(f"`{v}` is not `let mut`")
        name, args = e[2], e[3]; lv = lean_id(v)
        if name in ("extend", "extend_from_slice") and len(args) == 1:
            lines = []; x, t = self.ex(args[0], lines)
            out += [pad + l for l in lines]
            if t in (ROW, ELEMS) and (name == "extend" or t == ROW): out.append(pad + f"let {lv} : Array α := {lv} ++ {x}.toArray")
            elif t == VEC: out.append(pad + f"let {lv} : Array α := {lv} ++ {x}")
            else: raise Untranslatable(f".{name}(..) of {tname(t)}")
            return True
        if name == "push" and len(args) == 1:
            lines = []; x = self.typed(args[0], ELEM, lines, "push")
            out += [pad + l for l in lines]
            out.append(pad + f"let {lv} : Array α := {lv}.push {x}")
            return True
        if name == "shrink_to_fit" and not args:
            return True            # capacity is not modelled
        raise Untranslatable(f"vector method .{name}/{len(args)}")

    @staticmethod
    def diverges(sts):
        return bool(sts) and sts[-1][0] in ("return", "panic")

    def stmts(self, sts, ind, exit_=False):
        """lines of a `do` block.  Inside a loop (`self.loop`) falling off the end is `LoopStep.next`; `exit_`: the block
        must leave (the `else` of a let-else)."""
        out = []; pad = "  " * ind
        for n, st in enumerate(sts):
            k = st[0]; last = n == len(sts) - 1
            if k in ("tail", "return"):
                if not last: raise Untranslatable("code after the result")
                if k == "tail" and (self.loop is not None or exit_): raise Untranslatable("a block that ends in a value")
                lines = []; r = self.ret(st[1], lines)
                out += [pad + l for l in lines]
                out.append(pad + (f"pure (LoopStep.done {r})" if self.loop is not None else f"pure {r}"))
                return out
            if k == "panic":
                if not last: raise Untranslatable("code after panic!")
                fmt, args = st[1], st[2]
                x = args[0] if len(args) == 1 else None
                if fmt != '"{}"' or x is None or x[0] != "path" or len(x[1]) != 2 or x[1][0] != "Error" or not isinstance(x[1][1], str):
                    raise Untranslatable('panic! that is not `panic!("{}", Error::X)`')
                out.append(pad + f"throw (Fault.panic Error.{x[1][1][0].lower() + x[1][1][1:]}.name)")
                return out
            if k == "let":
                name, e, mut, ann = st[1], st[2], st[3], st[4]
                check_name(name, "local")
                if self.loop is not None and name in self.loop[1]: raise Untranslatable(f"let {name}: shadows a variable the loop carries")
                if ann is not None:
                    a0 = annot_type(ann)
                    if a0 is None: raise Untranslatable(f"let {name}: type annotation outside usize / bool / Order / Shape / AxisShape / Vec<T>")
                    ann = a0
                if e[0] == "try":
                    if self.loop is not None: raise Untranslatable("`?` inside a loop")
                    if self.mode != "result": raise Untranslatable("`?` in a function that does not return a Result")
                    if mut: raise Untranslatable(f"let mut {name} = …?")
                    lines = []; a, t = self.ex(e[1], lines)
                    if not (isinstance(t, tuple) and t[0] == "Result"): raise Untranslatable("`?` on a non-Result")
                    if ann not in (None, t[1]): raise Untranslatable(f"let {name}: the annotation is not the type of the value")
                    out += [pad + l for l in lines]
                    out += [pad + f"match {a} with", pad + "| .error err_ => pure (.error err_)", pad + f"| .ok {lean_id(name)} => do"]
                    self.scope.append({}); self.bind(name, t[1])
                    out += self.stmts(sts[n + 1:], ind + 1, exit_)
                    self.scope.pop()
                    return out
                lines = []; a, t = self.ex(e, lines)
                if isinstance(t, tuple) or t in (INTOVEC, MATRIX, ELEMS): raise Untranslatable(f"let {name} = …: a value of a type that cannot be bound ({tname(t)})")
                if mut and t not in (USIZE, BOOL, VEC, ROWS): raise Untranslatable(f"let mut {name}: a mutable {tname(t)}")
                if ann not in (None, t): raise Untranslatable(f"let {name}: the annotation is not the type of the value")
                out += [pad + l for l in lines]
                out.append(pad + f"let {lean_id(name)} : {LEAN_OF[t]} := {a}")
                self.bind(name, t, mut)
                continue
            if k == "letsome":
                name, e, blk = st[1], st[2], st[3]
                check_name(name, "local")
                if not (e[0] == "mcall" and e[2] == "next" and not e[3] and e[1][0] == "path" and len(e[1][1]) == 1):
                    raise Untranslatable("let Some(..) = … else: not `IT.next()` of a local")
                it = e[1][1][0]; b = self.lookup(it)
                if b is None or b[0] != ROWS or not b[1]: raise Untranslatable(f"`{it}` is not a `let mut` sequence of rows")
                if self.loop is not None and (name in self.loop[1] or it not in self.loop[1]):
                    raise Untranslatable("let Some(..) inside a loop on something the loop does not carry")
                if not self.diverges(blk): raise Untranslatable("let-else: the else block does not leave")
                out.append(pad + f"match {lean_id(it)} with")
                out.append(pad + "| [] => do")
                self.scope.append({})
                out += self.stmts(blk, ind + 1, True)
                self.scope.pop()
                out.append(pad + f"| {lean_id(name)} :: {lean_id(it)} => do")
                self.scope.append({}); self.bind(name, ROW)
                out += self.stmts(sts[n + 1:], ind + 1, exit_)
                self.scope.pop()
                return out
            if k == "if":
                lines = []; c = self.typed(st[1], BOOL, lines, "condition")
                rest = sts[n + 1:]
                tb = list(st[2]); fb = list(st[3]) if st[3] is not None else []
                if not self.diverges(tb): tb += rest
                elif False: pass
                if not self.diverges(fb): fb += rest
                out += [pad + l for l in lines]
                out.append(pad + f"if {c} then do")
                self.scope.append({})
                out += self.stmts(tb, ind + 1, exit_)
                self.scope.pop()
                out.append(pad + "else do")
                self.scope.append({})
                out += self.stmts(fb, ind + 1, exit_)
                self.scope.pop()
                return out
            if k in ("assign", "opassign"):
                lhs = st[1] if k == "assign" else st[2]; rhs = st[2] if k == "assign" else st[3]
                if lhs[0] != "path" or len(lhs[1]) != 1: raise Untranslatable("assignment to something that is not a local")
                x = lhs[1][0]; b = self.lookup(x)
                if b is None or not b[1]: raise Untranslatable(f"assignment to `{x}`, which is not a `let mut` local")
                lines = []; a = self.typed(rhs, b[0], lines, f"{x} = …")
                out += [pad + l for l in lines]
                if k == "assign":
                    out.append(pad + f"let {lean_id(x)} : {LEAN_OF[b[0]]} := {a}")
                else:
                    if b[0] != USIZE: raise Untranslatable(f"`{st[1]}=` on a non-integer")
                    f = {"+": "uadd", "-": "usub", "*": "umul", "/": "udiv", "%": "urem"}[st[1]]
                    out.append(pad + f"let {lean_id(x)} ← {f} {lean_id(x)} {a}")
                continue
            if k == "do":
                e = st[1]
                if e[0] == "try":
                    if self.loop is not None: raise Untranslatable("`?` inside a loop")
                    if self.mode != "result": raise Untranslatable("`?` in a function that does not return a Result")
                    lines = []; a, t = self.ex(e[1], lines)
                    if not (isinstance(t, tuple) and t[0] == "Result"): raise Untranslatable("`?` on a non-Result")
                    out += [pad + l for l in lines]
                    out += [pad + f"match {a} with", pad + "| .error err_ => pure (.error err_)", pad + "| .ok _ => do"]
                    self.scope.append({})
                    out += self.stmts(sts[n + 1:], ind + 1, exit_)
                    self.scope.pop()
                    return out
                if self.vec_stmt(e, out, pad): continue
                raise Untranslatable("expression statement that is neither `…?;` nor a vector method")
            if k == "for":
                if self.loop is not None: raise Untranslatable("nested loops")
                var = st[1]; check_name(var, "loop variable")
                lines = []; a, t = self.ex(st[2], lines)
                if t == ROWS: vt = ROW
                elif t in (ROW, ELEMS): vt = ELEM
                else: raise Untranslatable(f"for: iterating over {tname(t)}")
                mut = self.mutated(st[3], set())
                carried = []
                for s in self.scope:
                    for nme, (ty, m) in s.items():
                        if nme in mut and self.lookup(nme) == (ty, m):
                            if not m: raise Untranslatable(f"the loop changes `{nme}`, which is not `let mut`")
                            if nme not in [c[0] for c in carried]: carried.append((nme, ty))
                for nme in mut:
                    if self.lookup(nme) is None: raise Untranslatable(f"the loop changes `{nme}`, which is not a local")
                if var in [c[0] for c in carried]: raise Untranslatable("the loop variable shadows a variable the loop carries")
                if not carried: pat, sty = "()", "Unit"
                elif len(carried) == 1: pat, sty = lean_id(carried[0][0]), LEAN_OF[carried[0][1]]
                else:
                    pat = "(" + ", ".join(lean_id(c[0]) for c in carried) + ")"
                    sty = " × ".join(LEAN_OF[c[1]] for c in carried)
                t0 = self.fresh()
                out += [pad + l for l in lines]
                out.append(pad + f"let {t0} ← forEachM (σ := {sty}) (ρ := {self.rty()}) (fun s_ ({lean_id(var)} : {LEAN_OF[vt]}) => do")
                out.append(pad + f"    let {pat} := s_")
                self.loop = (pat, [c[0] for c in carried])
                self.scope.append({}); self.bind(var, vt)
                out += self.stmts(st[3], ind + 2)
                self.scope.pop()
                self.loop = None
                out[-1] += f") {a} {pat}"
                out.append(pad + f"match {t0} with")
                out.append(pad + "| .done r_ => pure r_")
                out.append(pad + f"| .next {pat} => do")
                out += self.stmts(sts[n + 1:], ind + 1, exit_)
                return out
            raise Untranslatable(f"statement kind {k}")
        if self.loop is not None and not exit_:
            return out + [pad + f"pure (LoopStep.next {self.loop[0]})"]
        raise Untranslatable("the block does not end in a result")

    def emit(self):
        a = self.ast
        r = a["ret"]
        if r == ("ty", "Self", []): self.mode = "self"
        elif r == ("ty", "Result", [("ty", "Self", [])]): self.mode = "result"
        else: raise Untranslatable("return type is neither Self nor Result<Self>")
        params = []; descr = []
        for pn, pt, mut in a["params"]:
            check_name(pn, "parameter")
            ty, d = describe(pt, a["generics"], a["bounds"], self.impl_bounds)
            self.bind(pn, ty, mut and ty == ROWS)
            params.append(f"({lean_id(pn)} : {'List α' if ty == INTOVEC else LEAN_OF[ty]})"); descr.append(d)
        for c in self.consts: check_name(c, "const generic")
        head = "{α : Type}" + (" (es : Nat)" if self.with_es else "") + "".join(f" ({c} : Nat)" for c in self.consts)
        self.scope.append({})
        blines = self.stmts(a["body"], 1)
        sig = f"def {self.lean_name} {head} {' '.join(params)}".rstrip()
        rty = f"M ({self.rty()})"
        return sig + f" :\n    {rty} := do\n" + "\n".join(blines) + "\n", sig, rty, ", ".join(descr)


def default_axis_shape(root):
    """`AxisShape::default()` of the derived `Default`: every (usize) field zero"""
    try:
        src = strip_rust_comments(open(f"{root}/shape.rs").read())
        m = re.search(r"#\[derive\(([^)]*)\)\]\s*pub(?:\(crate\))?\s+struct\s+AxisShape\s*\{(.*?)\}", src, re.S)
        if not m or "Default" not in [x.strip() for x in m.group(1).split(",")]:
            raise Untranslatable("`struct AxisShape` with `#[derive(.., Default, ..)]` not found in shape.rs")
        fields = re.findall(r"(\w+)\s*:\s*(\w+)", m.group(2))
        if sorted(fields) != [("major", "usize"), ("minor", "usize")]:
            raise Untranslatable("`struct AxisShape`: the fields are not major, minor: usize")
        return "({ " + ", ".join(f"{f} := 0" for f, _ in fields) + " } : AxisShape)"
    except (OSError, Untranslatable) as ex:
        return Untranslatable(f"AxisShape::default(): {ex}")


# (file, impl hint, rust fn, lean name, element size parameter, const generics (Lean parameter order), bounds stated in
#  the impl header (they are part of the hint), description of the parameter the bridge theorem is stated for)
JOBS = [
    ("construct.rs", r"impl<T> Matrix<T>\s*\{", "new", "Matrix.new", False, [], {}, ""),
    ("convert.rs", r"impl<T> Matrix<T>\s*\{", "from_row", "Matrix.from_row", False, [], {}, "into vec"),
    ("convert.rs", r"impl<T> Matrix<T>\s*\{", "from_col", "Matrix.from_col", False, [], {}, "into vec"),
    ("convert.rs", r"impl<T, const R: usize, const C: usize> From<\[\[T; C\]; R\]> for Matrix<T>\s*\{", "from",
     "Matrix.from_array_of_arrays", False, ["R", "C"], {}, "array[R] of array[C]"),
    ("convert.rs", r"impl<T, const C: usize> From<Vec<\[T; C\]>> for Matrix<T>\s*\{", "from",
     "Matrix.from_vec_of_arrays", False, ["C"], {}, "vec of array[C]"),
    ("convert.rs", r"impl<T: Clone, const C: usize> From<&\[\[T; C\]\]> for Matrix<T>\s*\{", "from",
     "Matrix.from_slice_of_arrays", False, ["C"], {}, "slice of array[C]"),
    ("convert.rs", r"impl<T, const C: usize> TryFrom<\[Vec<T>; C\]> for Matrix<T>\s*\{", "try_from",
     "Matrix.try_from_array_of_vecs", True, ["C"], {}, "array[C] of vec"),
    ("convert.rs", r"impl<T> TryFrom<Vec<Vec<T>>> for Matrix<T>\s*\{", "try_from",
     "Matrix.try_from_vec_of_vecs", True, [], {}, "vec of vec"),
    ("convert.rs", r"impl<T: Clone> TryFrom<&\[Vec<T>\]> for Matrix<T>\s*\{", "try_from",
     "Matrix.try_from_slice_of_vecs", True, [], {}, "slice of vec"),
    ("convert.rs", r"impl<T, V> FromIterator<V> for Matrix<T>\s*where\s*V: IntoIterator<Item = T>,?\s*\{", "from_iter",
     "Matrix.from_iter", False, [], {"V": "IntoIterator<Item = T>"}, "iterable of iterables"),
]

STUB_SIG = {
    "Matrix.new": ("def Matrix.new {α : Type}", "M (Matrix α)"),
    "Matrix.from_row": ("def Matrix.from_row {α : Type} (row : List α)", "M (Matrix α)"),
    "Matrix.from_col": ("def Matrix.from_col {α : Type} (col : List α)", "M (Matrix α)"),
    "Matrix.from_array_of_arrays": ("def Matrix.from_array_of_arrays {α : Type} (R : Nat) (C : Nat) (value : List (List α))", "M (Matrix α)"),
    "Matrix.from_vec_of_arrays": ("def Matrix.from_vec_of_arrays {α : Type} (C : Nat) (value : List (List α))", "M (Matrix α)"),
    "Matrix.from_slice_of_arrays": ("def Matrix.from_slice_of_arrays {α : Type} (C : Nat) (value : List (List α))", "M (Matrix α)"),
    "Matrix.try_from_array_of_vecs": ("def Matrix.try_from_array_of_vecs {α : Type} (es : Nat) (C : Nat) (value : List (List α))",
                                      "M (Except Error (Matrix α))"),
    "Matrix.try_from_vec_of_vecs": ("def Matrix.try_from_vec_of_vecs {α : Type} (es : Nat) (value : List (List α))",
                                    "M (Except Error (Matrix α))"),
    "Matrix.try_from_slice_of_vecs": ("def Matrix.try_from_slice_of_vecs {α : Type} (es : Nat) (value : List (List α))",
                                      "M (Except Error (Matrix α))"),
    "Matrix.from_iter": ("def Matrix.from_iter {α : Type} (iter : List (List α))", "M (Matrix α)"),
}

HEADER = """/-
GENERATED by translate/t13.py from /repo/src/convert.rs (`from_row`, `from_col`, the `From` / `TryFrom` conversions
from sequences of rows, `FromIterator`) and /repo/src/construct.rs (`Matrix::new`) on every run — do not edit.
A sequence of rows is a `List (List α)`, a row a `List α`, a `Vec<T>` under construction an `Array α`; const generics
are `Nat` parameters; `es` is `size_of::<T>()`.  `forEachM` (Model/ForPrims.lean) is `for x in xs { .. }` with early
`return` (`LoopStep.done`); `Vec.reserveExact` is the primitive of Model/Construct.lean (the capacity-overflow panic of
an allocation is a fault); integer arithmetic is checked.
-/
import Matreex.Gen.Core
import Matreex.Gen.Simple
import Matreex.Model.Construct
import Matreex.Model.ForPrims

set_option linter.unusedVariables false

namespace Matreex.Gen
open Matreex

"""


def run_t13(root, available=None):
    done, failed, out = [], [], []
    dord = default_order(root); dash = default_axis_shape(root)
    srcs = {}
    for f, hint, name, lean_name, with_es, consts, impl_bounds, want_descr in JOBS:
        body = None
        try:
            if f not in srcs: srcs[f] = strip_rust_comments(open(f"{root}/{f}").read())
            text = find_fn(srcs[f], hint, name)
            ast = D(lex(text)).sig()
            avail = None if available is None else set(available) | set(done)
            body, sig, rty, descr = Fn(ast, lean_name, with_es, consts, impl_bounds, dord, dash, avail).emit()
            want = STUB_SIG[lean_name]
            shape = lambda s: re.sub(r"\((\w+|«\w+») :", "(_ :", s)
            if shape(sig) != shape(want[0]) or rty != want[1] or descr != want_descr:
                raise Untranslatable(f"signature changed: {sig} : {rty} [{descr}]")
            done.append(lean_name)
        except Untranslatable as ex:
            failed.append((lean_name, str(ex))); body = None
        except Exception as ex:      # a malformed function must not stop the pipeline: report it, emit the stub
            failed.append((lean_name, f"not parsed ({type(ex).__name__}: {ex})")); body = None
        if body is None:
            sig, rty = STUB_SIG[lean_name]
            body = f"{sig} :\n    {rty} :=\n  .error (.panic \"untranslatable\")\n"
        out.append(body)
    return HEADER + "\n".join(out) + "\nend Matreex.Gen\n", done, failed


if __name__ == "__main__":
    root = sys.argv[1] if len(sys.argv) > 1 else "/repo/src"
    text, done, failed = run_t13(root)
    print(text)
    print(done, failed, file=sys.stderr)
