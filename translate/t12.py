#!/usr/bin/env python3
"""Translator T12 ("outer views and element iterators"): the iterator-returning methods of src/iter.rs

    iter_rows / iter_cols                                         (0..self.nrows()).map(|n| match self.order { .. })
    iter_nth_row / iter_nth_col / iter_nth_row_mut / iter_nth_col_mut     match self.order { .. => self.iter_nth_*_axis_vector[_mut](n) }
    iter_elements / iter_elements_mut / into_iter_elements        self.data.iter() / iter_mut() / into_iter()
    iter_elements_with_index / iter_elements_mut_with_index / into_iter_elements_with_index
                                                                  self.data.iter().enumerate().map(|(index, element)| { .. })

-> Lean 4 functions `Matrix α → [Nat →] M (..)` (`Gen/T12Gen.lean`), regenerated on every run.  An iterator is
represented by the list of the items it yields (consumed from either end; a fault raised while an item is
produced is the fault of the whole walk, as in `Model/Iter.lean`).

What comes from the Rust text: the receiver and the parameters, the declared return type (nesting of
`impl ..Iterator<Item = ..>`, `Result<..>`, `(Index, &T)`), both bounds of the range, the closure's pattern
variables, every `let`, the scrutinee and BOTH arms of every `match` on the order (which callee each arm
calls, with which argument), every `if`, the adaptors of a chain and their order and arguments, every argument
of `Index::from_flattened`, the components of the item tuple and their order, all integer arithmetic (checked).

What is mapped BY NAME to existing vocabulary (never a whole function):

    self.data.iter() / .iter_mut() / .into_iter()       `self_.data.toList`: the elements in memory order
                                                        (`Matrix.iterElements` of Model/Iter.lean is this list)
    (A..B)                                              `List.range' A (B - A)`
    W.enumerate()                                       `enumerateW W` = `(List.range W.length).zip W`
    W.map(|PAT| BODY)                                   `W.mapM (fun PAT => do BODY)`
    W.rev() / W.skip(k) / W.take(k)                     `List.reverse` / `List.drop k` / `List.take k`
    self.iter_nth_{major,minor}_axis_vector_unchecked[_mut](n)
                                                        T2 has translated the (skip, step, take) parameters of the
                                                        callee's `self.data.iter().skip(..).step_by(..).take(..)` chain
                                                        (`Gen.Matrix.iter_nth_*` of Gen/Core.lean, T2 checks the chain's
                                                        adaptor names); the chain itself is the model's `view`
                                                        (Model/Iter.lean) on `self_.data.toList` with that triple:
                                                        `chainView`
    self.iter_nth_{major,minor}_axis_vector[_mut](n)    T2's guarded parameters (`Except Error (skip, step, take)`),
                                                        `Ok(chain)` collected with `view`: `chainViewResult`
    self.nrows() / self.ncols()                         T2's `Gen.Matrix.nrows` / `Gen.Matrix.ncols` on the header
    self.major() / self.minor()                         `Hdr.major` / `Hdr.minor` (as in T2)
    Index::from_flattened(k, o, s)                      T2's `Gen.Index.from_flattened`
A callee that T2 did not translate on this run is untranslatable here too.

Accepted statement language (anything else raises `Untranslatable`, is reported in the JSON summary, and a
stub of the right type that faults is emitted, so that the file compiles and the bridge theorem fails):

  signature   fn NAME(&self | &mut self | self [, n: usize]) -> RET
              RET := impl (ExactSizeDoubleEndedIterator | Iterator | DoubleEndedIterator | ExactSizeIterator)<Item = RET>
                   | Result<RET> | &T | &mut T | T | Index | usize | (RET, RET)
  body        { let PAT = EXPR; ...  EXPR }      (also inside closures and match arms; `return EXPR;` at the end)
  EXPR        integers, locals, parameters, + - * / % (checked), == != < > <= >= ! && ||, tuples,
              self.order, self.shape, Order::RowMajor / ColMajor,
              match ORDER-EXPR { Order::RowMajor => EXPR, Order::ColMajor => EXPR }   (both variants, once each)
              if BOOL { .. } else { .. },
              (EXPR..EXPR), closures `|PAT| EXPR` / `move |PAT| EXPR` as the argument of `.map`,
              and the vocabulary above.
A checker assigns a type to every expression (usize, bool, Order, AxisShape, Index, T, tuples, Iter<_>,
Result<_>); a mismatch - in particular a body whose type is not the declared return type - is untranslatable.
"""
import re, sys, os
sys.path.insert(0, os.path.dirname(os.path.abspath(__file__)))
from t2 import lex, find_fn, P, Emit, Untranslatable, strip_rust_comments
import t2

LEAN_KEYWORDS = {"fun", "do", "let", "if", "then", "else", "match", "with", "at", "from", "end", "open", "in", "show",
                 "have", "by", "def", "theorem", "where", "for", "return", "mut", "prefix", "local", "instance"}
RESERVED = {"self_", "pure", "decide", "M", "Nat", "List", "Array", "Hdr", "Matrix", "Order", "Index", "Error",
            "Except", "chainView", "chainViewResult", "enumerateW", "view", "uadd", "usub", "umul", "udiv", "urem",
            "usizeMax", "isizeMax", "α"}
ITER_TRAITS = ("ExactSizeDoubleEndedIterator", "Iterator", "DoubleEndedIterator", "ExactSizeIterator")


def drop_lifetimes(toks):
    out, i = [], 0
    while i < len(toks):
        if toks[i] == ("op", "'") and i + 1 < len(toks) and toks[i + 1][0] == "id":
            i += 2; continue
        out.append(toks[i]); i += 1
    return out


def check_name(name):
    if name in RESERVED or re.fullmatch(r"t\d+", name):
        raise Untranslatable(f"local `{name}` collides with a name of the generated code")
    return name


def lean_id(name):
    return f"«{name}»" if name in LEAN_KEYWORDS else name


# ------------------------------------------------------------------ parser
class F12(P):
    """signature of an iterator-returning method + T2's expressions and blocks, plus `(a..b)`, closures in
    argument lists"""

    def rty(self):
        if self.at("&"):
            self.next()
            if self.at("mut"): self.next()
            k, v = self.next()
            if v != "T": raise Untranslatable(f"reference to `{v}` in the return type")
            return "T"
        if self.at("("):
            self.next(); xs = []
            while not self.at(")"):
                xs.append(self.rty())
                if self.at(","): self.next()
                elif not self.at(")"): raise Untranslatable("return type: tuple")
            self.eat(")")
            return ("Tuple", xs)
        k, v = self.next()
        if v == "impl":
            k, tr = self.next()
            if tr not in ITER_TRAITS: raise Untranslatable(f"return type: impl {tr}")
            self.eat("<"); self.eat("Item"); self.eat("="); item = self.rty(); self.eat(">")
            if self.at("+"): raise Untranslatable("return type: additional bounds")
            return ("Iter", item)
        if v == "Result":
            self.eat("<"); t = self.rty(); self.eat(">")
            return ("Result", t)
        if v in ("T", "Index", "usize"): return v
        raise Untranslatable(f"return type: `{v}`")

    def header(self):
        self.eat("fn"); name = self.next()[1]
        if self.at("<"): raise Untranslatable("generic method")
        self.eat("(")
        recv = "own"
        if self.at("&"):
            self.next(); recv = "ref"
            if self.at("mut"):
                self.next(); recv = "mut"
        elif self.at("mut"):
            self.next()
        self.eat("self")
        params = []
        while self.at(","):
            self.next()
            if self.at(")"): break
            if self.at("mut"): self.next()
            k, pn = self.next()
            if k != "id": raise Untranslatable(f"parameter name {pn!r}")
            self.eat(":")
            k, pt = self.next()
            if pt != "usize": raise Untranslatable(f"parameter `{pn}` of type `{pt}`")
            params.append(pn)
        self.eat(")")
        self.eat("->"); ret = self.rty()
        if self.at("where"): raise Untranslatable("where clause")
        body = self.block()
        if self.peek()[0] != "eof": raise Untranslatable("text after the function body")
        return {"name": name, "recv": recv, "params": params, "ret": ret, "body": body}

    def pat(self):
        if self.at("("):
            self.eat("("); xs = []
            while not self.at(")"):
                xs.append(self.pat())
                if self.at(","): self.next()
                elif not self.at(")"): raise Untranslatable("pattern")
            self.eat(")"); return ("ptuple", xs)
        if self.at("mut"): raise Untranslatable("`mut` binding")
        k, v = self.next()
        if k != "id" or v in ("ref", "box"): raise Untranslatable(f"pattern {v!r}")
        if self.at("::") or self.at("(") or self.at("{") or self.at("@"): raise Untranslatable("pattern form")
        return ("pvar", v)

    def expr(self, minp=0, nostruct=False):
        lhs = super().expr(minp, nostruct)
        if minp == 0 and self.at(".."):
            self.next()
            rhs = super().expr(1, nostruct)
            if self.at(".."): raise Untranslatable("chained range")
            return ("range", lhs, rhs)
        return lhs

    def args(self):
        self.eat("("); xs = []
        while not self.at(")"):
            if self.at("move"):
                self.next()
                if not self.at("|"): raise Untranslatable("closure form")
            if self.at("|"): xs.append(self.closure())
            elif self.at("||"): raise Untranslatable("closure without parameters")
            else: xs.append(self.expr())
            if self.at(","): self.next()
            elif not self.at(")"): raise Untranslatable(f"argument list: unexpected {self.peek()[1]!r}")
        self.eat(")"); return xs

    def closure(self):
        self.eat("|"); pats = []
        while not self.at("|"):
            pats.append(self.pat())
            if self.at(":"): raise Untranslatable("typed closure parameter")
            if self.at(","): self.next()
        self.eat("|")
        if len(pats) != 1: raise Untranslatable("closure with other than one parameter")
        body = self.block() if self.at("{") else ("block", [], self.expr())
        return ("closure", pats[0], body)

    def atom(self, nostruct):
        v = self.peek()[1]
        if v in ("unsafe", "while", "loop", "for", "break", "continue"): raise Untranslatable(f"`{v}`")
        if v in ("|", "||", "move"): raise Untranslatable("closure outside an argument list")
        if v == "..": raise Untranslatable("range without a start")
        return super().atom(nostruct)

    def postfix(self, e):
        while True:
            if self.at("["): raise Untranslatable("indexing `x[..]`")
            if self.at("."):
                self.next(); k, name = self.next()
                if k != "id": raise Untranslatable(f"`.{name}`")
                if self.at("::"): raise Untranslatable("turbofish on a method")
                e = ("mcall", e, name, self.args()) if self.at("(") else ("field", e, name)
            elif self.at("?"):
                raise Untranslatable("`?`")
            else:
                return e


# ------------------------------------------------------------------ checker
SELF = ("path", ["self"])
HDR_USIZE = ("major", "minor")


def show(t):
    if isinstance(t, str): return t
    if t[0] == "Tuple": return "(" + ", ".join(show(x) for x in t[1]) + ")"
    return f"{t[0]}<{show(t[1])}>"


class Check:
    def __init__(self, recv, views, guarded, mtable, ftable):
        self.recv, self.views, self.guarded, self.mtable, self.ftable = recv, views, guarded, mtable, ftable

    def bind(self, pat, t, env):
        if pat[0] == "pvar":
            if pat[1] != "_": check_name(pat[1])
            env[pat[1]] = t; return
        if not (isinstance(t, tuple) and t[0] == "Tuple" and len(t[1]) == len(pat[1])):
            raise Untranslatable(f"tuple pattern against {show(t)}")
        for p, x in zip(pat[1], t[1]): self.bind(p, x, env)

    def block(self, b, env):
        env = dict(env)
        for st in b[1]:
            if st[0] != "let": raise Untranslatable("expression statement")
            self.bind(st[1], self.ty(st[2], env), env)
        if b[2] is None: raise Untranslatable("block without a value")
        return self.ty(b[2], env)

    def want(self, e, env, t, what):
        got = self.ty(e, env)
        if got != t: raise Untranslatable(f"{what}: expected {show(t)}, found {show(got)}")

    def ty(self, e, env):
        k = e[0]
        if k == "num": return "usize"
        if k == "path":
            p = e[1]
            if len(p) == 1:
                if p[0] == "self": return "Self"
                if p[0] in env: return env[p[0]]
                raise Untranslatable(f"unknown name `{p[0]}`")
            if p[0] == "Order" and len(p) == 2 and p[1] in ("RowMajor", "ColMajor"): return "Order"
            raise Untranslatable(f"path {'::'.join(map(str, p))}")
        if k == "field":
            if e[1] == SELF:
                if e[2] == "order": return "Order"
                if e[2] == "shape": return "AxisShape"
                if e[2] == "data": return "Data"
                raise Untranslatable(f"field self.{e[2]}")
            t = self.ty(e[1], env)
            if t == "Index" and e[2] in ("row", "col"): return "usize"
            if t == "AxisShape" and e[2] in ("major", "minor"): return "usize"
            raise Untranslatable(f"field .{e[2]} of {show(t)}")
        if k == "tuple":
            return ("Tuple", [self.ty(x, env) for x in e[1]])
        if k == "not":
            self.want(e[1], env, "bool", "operand of !"); return "bool"
        if k == "bin":
            op = e[1]
            a, b = self.ty(e[2], env), self.ty(e[3], env)
            if op in ("&&", "||"):
                if a == b == "bool": return "bool"
            elif op in ("+", "-", "*", "/", "%"):
                if a == b == "usize": return "usize"
            elif op in ("==", "!="):
                if a == b and a in ("usize", "Order", "bool", "AxisShape", "Index"): return "bool"
            elif a == b == "usize": return "bool"
            raise Untranslatable(f"operator {op} on {show(a)}, {show(b)}")
        if k == "range":
            self.want(e[1], env, "usize", "start of the range"); self.want(e[2], env, "usize", "end of the range")
            return ("Iter", "usize")
        if k == "mcall":
            recv, name, args = e[1], e[2], e[3]
            rt = self.ty(recv, env)
            if rt == "Data":
                if args or name not in ("iter", "iter_mut", "into_iter"): raise Untranslatable(f"self.data.{name}/{len(args)}")
                if name == "iter_mut" and self.recv != "mut": raise Untranslatable("iter_mut() without `&mut self`")
                if name == "into_iter" and self.recv != "own": raise Untranslatable("into_iter() without owning `self`")
                return ("Iter", "T")
            if rt == "Self":
                if name in HDR_USIZE and not args: return "usize"
                if (name, len(args)) in self.mtable and name in ("nrows", "ncols") and not args: return "usize"
                if name in self.views or name in self.guarded:
                    if len(args) != 1: raise Untranslatable(f"self.{name}/{len(args)}")
                    if name.endswith("_mut") and self.recv != "mut": raise Untranslatable(f"{name} without `&mut self`")
                    self.want(args[0], env, "usize", f"argument of {name}")
                    return ("Iter", "T") if name in self.views else ("Result", ("Iter", "T"))
                raise Untranslatable(f"method self.{name}/{len(args)} (not translated by T2, or outside the vocabulary)")
            if isinstance(rt, tuple) and rt[0] == "Iter":
                if name in ("enumerate", "rev") and not args:
                    return ("Iter", ("Tuple", ["usize", rt[1]])) if name == "enumerate" else rt
                if name in ("skip", "take") and len(args) == 1:
                    self.want(args[0], env, "usize", f"argument of {name}"); return rt
                if name == "map" and len(args) == 1 and args[0][0] == "closure":
                    env2 = dict(env); self.bind(args[0][1], rt[1], env2)
                    return ("Iter", self.block(args[0][2], env2))
                raise Untranslatable(f"iterator method {name}/{len(args)}")
            raise Untranslatable(f"method {name}/{len(args)} on {show(rt)}")
        if k == "call":
            p = e[1]
            if len(p) == 2 and tuple(p) == ("Index", "from_flattened") and ("Index", "from_flattened") in self.ftable:
                if len(e[2]) != 3: raise Untranslatable("Index::from_flattened: arity")
                for a, t in zip(e[2], ("usize", "Order", "AxisShape")): self.want(a, env, t, "argument of Index::from_flattened")
                return "Index"
            raise Untranslatable(f"call {'::'.join(map(str, p))}")
        if k == "match":
            self.want(e[1], env, "Order", "scrutinee")
            seen, t = [], None
            for path, body in e[2]:
                if not (len(path) == 2 and path[0] == "Order" and path[1] in ("RowMajor", "ColMajor")):
                    raise Untranslatable(f"match arm {'::'.join(path)}")
                seen.append(path[1])
                bt = self.ty(body, env)
                if t is not None and bt != t: raise Untranslatable(f"match arms of types {show(t)} and {show(bt)}")
                t = bt
            if sorted(seen) != ["ColMajor", "RowMajor"]: raise Untranslatable("match does not list both orders once each")
            return t
        if k == "if":
            self.want(e[1], env, "bool", "condition")
            a, b = self.block(e[2], env), self.block(e[3], env)
            if a != b: raise Untranslatable(f"branches of types {show(a)} and {show(b)}")
            return a
        if k == "block":
            return self.block(e, env)
        if k == "closure": raise Untranslatable("closure outside `.map(..)`")
        raise Untranslatable(f"expression kind {k}")


# ------------------------------------------------------------------ emitter
class Emit12(Emit):
    """T2's emitter (checked arithmetic, lets, `if`, `match` on the order, calls resolved through T2's tables), with
    `self` = the header of the matrix, plus the iterator vocabulary"""

    def __init__(self, fnname, views, guarded, mtable, ftable):
        super().__init__(fnname, "Hdr", mtable, ftable)
        self.views, self.guarded = views, guarded

    def lpat(self, p):
        if p[0] == "pvar": return lean_id(p[1])
        return "(" + ", ".join(self.lpat(x) for x in p[1]) + ")"

    def pat(self, p):
        return self.lpat(p)

    def ex(self, e, lines):
        k = e[0]
        if e == SELF: return "self_.hdr"
        if k == "path" and len(e[1]) == 1: return lean_id(e[1][0])
        if k == "field" and e[1] == SELF and e[2] == "data":
            raise Untranslatable("self.data outside iter() / iter_mut() / into_iter()")
        if k == "range":
            a, b = self.ex(e[1], lines), self.ex(e[2], lines)
            return f"(List.range' {a} ({b} - {a}))"
        if k == "mcall":
            recv, name, args = e[1], e[2], e[3]
            if recv[0] == "field" and recv[1] == SELF and recv[2] == "data" and name in ("iter", "iter_mut", "into_iter"):
                return "self_.data.toList"
            if recv == SELF and (name in self.views or name in self.guarded):
                a = self.ex(args[0], lines)
                t = self.fresh(); lines.append(f"let {t} ← {self.mtable[(name, 1)]} self_.hdr {a}")
                u = self.fresh()
                lines.append(f"let {u} ← {'chainView' if name in self.views else 'chainViewResult'} self_.data.toList {t}")
                return u
            if name in ("enumerate", "rev") and not args:
                w = self.ex(recv, lines)
                return f"(enumerateW {w})" if name == "enumerate" else f"(List.reverse {w})"
            if name in ("skip", "take") and len(args) == 1 and args[0][0] != "closure":
                w = self.ex(recv, lines); a = self.ex(args[0], lines)
                return f"(List.{'drop' if name == 'skip' else 'take'} {a} {w})"
            if name == "map" and len(args) == 1 and args[0][0] == "closure":
                w = self.ex(recv, lines)
                _, pat, body = args[0]
                t = self.fresh()
                lines.append(f"let {t} ← List.mapM (fun {self.lpat(pat)} => {self.block(body)}) {w}")
                return t
        if k == "closure": raise Untranslatable("closure outside `.map(..)`")
        return super().ex(e, lines)


LEAN_RET = {"T": "α", "usize": "Nat", "Index": "Index"}


def lean_ret(t):
    if isinstance(t, str): return LEAN_RET[t]
    if t[0] == "Tuple": return "(" + " × ".join(lean_ret(x) for x in t[1]) + ")"
    if t[0] == "Iter": return f"(List {lean_ret(t[1])})"
    if t[0] == "Result": return f"(Except Error {lean_ret(t[1])})"
    raise Untranslatable(f"type {t}")


# (rust fn, lean name, parameters, type) - the signature every bridge theorem is stated against
ROWS = ("Iter", ("Iter", "T")); NTH = ("Result", ("Iter", "T")); ELEMS = ("Iter", "T"); WITH = ("Iter", ("Tuple", ["Index", "T"]))
JOBS = [
    ("iter_rows", "Matrix.iter_rows", 0, ROWS),
    ("iter_cols", "Matrix.iter_cols", 0, ROWS),
    ("iter_nth_row", "Matrix.iter_nth_row", 1, NTH),
    ("iter_nth_col", "Matrix.iter_nth_col", 1, NTH),
    ("iter_nth_row_mut", "Matrix.iter_nth_row_mut", 1, NTH),
    ("iter_nth_col_mut", "Matrix.iter_nth_col_mut", 1, NTH),
    ("iter_elements", "Matrix.iter_elements", 0, ELEMS),
    ("iter_elements_mut", "Matrix.iter_elements_mut", 0, ELEMS),
    ("into_iter_elements", "Matrix.into_iter_elements", 0, ELEMS),
    ("iter_elements_with_index", "Matrix.iter_elements_with_index", 0, WITH),
    ("iter_elements_mut_with_index", "Matrix.iter_elements_mut_with_index", 0, WITH),
    ("into_iter_elements_with_index", "Matrix.into_iter_elements_with_index", 0, WITH),
]

HEADER = """/-
GENERATED by translate/t12.py from /repo/src/iter.rs on every run — do not edit.
The outer views (`iter_rows`, `iter_cols`), the checked single views (`iter_nth_row` / `_col` [`_mut`]) and the
element iterators of `Matrix<T>` as functions from the matrix to the list of items the iterator yields.  Range
bounds, closures, `match`es on the order, callees and their arguments, adaptor chains and the index computation
come from the Rust text; `self.data.iter()` is `self_.data.toList`; the callee's
`self.data.iter().skip(..).step_by(..).take(..)` chain is the model's `view` applied to the (skip, step, take)
triple that T2 regenerates from the callee's text (`Gen/Core.lean`).
-/
import Matreex.Gen.Core
import Matreex.Model.Matrix
import Matreex.Model.Iter

set_option linter.unusedVariables false

namespace Matreex.Gen
open Matreex

/-- `.enumerate()` on a walk: every item paired with its position, position first -/
def enumerateW {β : Type} (l : List β) : List (Nat × β) := (List.range l.length).zip l

/-- the chain `data.iter().skip(skip).step_by(step).take(take)` with the parameter triple T2 regenerates from the
callee: the model's `view` (`step_by(0)` panics) -/
def chainView {β : Type} (l : List β) (p : Nat × Nat × Nat) : M (List β) := view l p.1 p.2.1 p.2.2

/-- the checked callee: `Err(e)` is passed on, `Ok(chain)` is the chain -/
def chainViewResult {β : Type} (l : List β) (r : Except Error (Nat × Nat × Nat)) : M (Except Error (List β)) :=
  match r with
  | .error e => pure (.error e)
  | .ok p => do let v ← chainView l p; pure (.ok v)

"""


def signature(lean_name, nparams, t, names=None):
    names = names or ["n"][:nparams]
    ps = "".join(f" ({lean_id(p)} : Nat)" for p in names)
    return f"def {lean_name} {{α : Type}} (self_ : Matreex.Matrix α){ps} : M {lean_ret(t)}"


def translate_fn(src, name, lean_name, nparams, want, views, guarded, mtable, ftable):
    m = re.compile(r"\bfn\s+" + re.escape(name) + r"\s*(<[^>]*>)?\s*\(").search(src)
    if not m: raise Untranslatable(f"fn {name} not found")
    impls = [mm for mm in re.finditer(r"\bimpl\s*<\s*T\s*>\s*Matrix\s*<\s*T\s*>\s*\{", src) if mm.start() < m.start()]
    if not impls: raise Untranslatable(f"fn {name}: enclosing `impl<T> Matrix<T>` not found")
    text = find_fn(src[m.start():], None, name)
    ast = F12(drop_lifetimes(lex(text))).header()
    if len(ast["params"]) != nparams: raise Untranslatable(f"{name}: {len(ast['params'])} parameters")
    if ast["ret"] != want: raise Untranslatable(f"{name}: declared return type {show(ast['ret'])}, expected {show(want)}")
    env = {}
    for p in ast["params"]: env[check_name(p)] = "usize"
    got = Check(ast["recv"], views, guarded, mtable, ftable).block(ast["body"], env)
    if got != want: raise Untranslatable(f"{name}: the body has type {show(got)}, declared {show(want)}")
    body = Emit12(name, views, guarded, mtable, ftable).block(ast["body"])
    return signature(lean_name, nparams, want, ast["params"]) + f" :=\n  {body}\n"


def run_t12(root, tables=None):
    """tables = (mtable, ftable) as T2 left them after its own run (which callees exist in Gen/Core.lean)"""
    out, done, failed = [], [], []
    if tables is None:
        t2.run(root)
        tables = t2.run.tables
    mtable, ftable = tables
    views = {n for n, ln, kind in t2.VIEW_JOBS if kind == "triple" and mtable.get((n, 1)) == ln}
    guarded = {n for n, ln, kind in t2.VIEW_JOBS if kind == "guarded" and mtable.get((n, 1)) == ln}
    try:
        src = strip_rust_comments(open(f"{root}/iter.rs").read())
    except OSError:
        src = ""
    for name, lean_name, nparams, want in JOBS:
        try:
            out.append(translate_fn(src, name, lean_name, nparams, want, views, guarded, mtable, ftable))
            done.append(lean_name)
        except Untranslatable as ex:
            failed.append((lean_name, str(ex)))
            out.append(signature(lean_name, nparams, want) + " :=\n  .error (.panic \"untranslatable\")\n")
        except Exception as ex:      # a malformed function must not stop the pipeline: report it, emit the stub
            failed.append((lean_name, f"not parsed ({type(ex).__name__}: {ex})"))
            out.append(signature(lean_name, nparams, want) + " :=\n  .error (.panic \"untranslatable\")\n")
    return HEADER + "\n".join(out) + "\nend Matreex.Gen\n", done, failed


if __name__ == "__main__":
    root = sys.argv[1] if len(sys.argv) > 1 else "/repo/src"
    text, done, failed = run_t12(root)
    print(text)
    print(done, failed, file=sys.stderr)
