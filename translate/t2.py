#!/usr/bin/env python3
"""Translator T2: a small, closed subset of Rust (loop-free pure integer functions of
matreex: index.rs / shape.rs / order.rs / lib.rs::check_size / arithmetic.rs predicates) -> Lean 4
definitions in a checked-arithmetic monad (`M = Except Fault`): `+ - *` panic on overflow,
`/ %` panic on a zero divisor (debug-build semantics).  Anything outside the subset is reported,
never guessed."""
import re, sys, json

class Untranslatable(Exception):
    pass

# ------------------------------------------------------------------ lexer
TOK = re.compile(r"""
    (?P<ws>\s+|//[^\n]*|/\*.*?\*/)
  | (?P<num>\d[\d_]*)
  | (?P<id>[A-Za-z_][A-Za-z0-9_]*)
  | (?P<op>::|->|=>|==|!=|>=|<=|&&|\|\||\.\.|[-+*/%<>=!&|.,;:(){}\[\]?'#])
""", re.X | re.S)

def lex(src):
    out, i = [], 0
    while i < len(src):
        m = TOK.match(src, i)
        if not m:
            raise Untranslatable(f"lexer: unexpected {src[i:i+20]!r}")
        i = m.end()
        if m.lastgroup != "ws":
            out.append((m.lastgroup, m.group(m.lastgroup)))
    return out

# ------------------------------------------------------------------ locate items
def find_fn(src, impl_hint, name):
    """text of `fn name(...) -> ... { ... }`; impl_hint (regex or None) narrows to one impl block"""
    start = 0
    if impl_hint:
        m = re.search(impl_hint, src)
        if not m:
            raise Untranslatable(f"impl block {impl_hint!r} not found")
        start = m.end()
    m = re.compile(r"fn\s+" + re.escape(name) + r"\s*(<[^>]*>)?\s*\(").search(src, start)
    if not m:
        raise Untranslatable(f"fn {name} not found")
    i = src.index("{", m.end())
    depth, j = 1, i + 1
    while depth:
        depth += (src[j] == "{") - (src[j] == "}")
        j += 1
    return src[m.start():j]

# ------------------------------------------------------------------ parser (Pratt)
class P:
    def __init__(self, toks):
        self.t, self.i = toks, 0
    def peek(self, k=0):
        return self.t[self.i + k] if self.i + k < len(self.t) else ("eof", "")
    def next(self):
        tok = self.peek(); self.i += 1; return tok
    def eat(self, v):
        if self.peek()[1] != v:
            raise Untranslatable(f"expected {v!r}, got {self.peek()[1]!r}")
        self.i += 1
    def at(self, v):
        return self.peek()[1] == v

    # fn name<..>(params) -> ret { block }
    def fn(self):
        self.eat("fn"); name = self.next()[1]
        if self.at("<"):
            while not self.at(">"): self.next()
            self.eat(">")
        self.eat("("); params = []
        while not self.at(")"):
            if self.at("&"): self.next()
            if self.at("mut"): self.next()
            pname = self.next()[1]
            ty = None
            if self.at(":"):
                self.eat(":"); ty = self.ty()
            params.append((pname, ty))
            if self.at(","): self.next()
        self.eat(")")
        ret = None
        if self.at("->"):
            self.eat("->"); ret = self.ty()
        if self.at("where"):
            while not self.at("{"): self.next()
        body = self.block()
        return {"name": name, "params": params, "ret": ret, "body": body}

    def ty(self):
        if self.at("&"):
            self.next()
            if self.at("mut"): self.next()
            return self.ty()
        if self.at("("):
            self.eat("("); xs = []
            while not self.at(")"):
                xs.append(self.ty())
                if self.at(","): self.next()
            self.eat(")"); return ("tuple", xs)
        name = self.next()[1]
        while self.at("::"):
            self.next(); name = self.next()[1]
        args = []
        if self.at("<"):
            self.eat("<")
            while not self.at(">"):
                args.append(self.ty())
                if self.at(","): self.next()
            self.eat(">")
        return ("ty", name, args)

    def block(self):
        self.eat("{"); stmts = []; tail = None
        while not self.at("}"):
            if self.at("let"):
                self.next(); pat = self.pat()
                if self.at(":"):
                    self.next(); self.ty()
                self.eat("="); e = self.expr(); self.eat(";")
                stmts.append(("let", pat, e))
            elif self.at("if") and self._early_return_ahead():
                # `if c { return E; }  rest…`  ==  `if c { E } else { rest… }`
                self.next(); c = self.expr(0, True)
                self.eat("{"); self.eat("return"); e = self.expr()
                if self.at(";"): self.next()
                self.eat("}")
                rest = self._rest_of_block()
                tail = ("if", c, ("block", [], e), rest)
                return ("block", stmts, tail)
            elif self.at("return"):
                # a final `return E;` is the block's value
                self.next(); e = self.expr()
                if self.at(";"): self.next()
                if not self.at("}"):
                    raise Untranslatable("code after return")
                tail = e
            else:
                e = self.expr()
                if self.at(";"):
                    self.next(); stmts.append(("expr", e))
                else:
                    tail = e
        self.eat("}")
        return ("block", stmts, tail)

    def _early_return_ahead(self):
        """is the `if` at the cursor of the form `if cond { return …; }` with no `else`?"""
        j, depth = self.i + 1, 0
        while j < len(self.t):
            v = self.t[j][1]
            if v == "{" and depth == 0:
                break
            depth += (v in "([") - (v in ")]")
            j += 1
        if j + 1 >= len(self.t) or self.t[j + 1][1] != "return":
            return False
        depth, k = 0, j
        while k < len(self.t):
            depth += (self.t[k][1] == "{") - (self.t[k][1] == "}")
            if depth == 0:
                break
            k += 1
        return k + 1 < len(self.t) and self.t[k + 1][1] != "else"

    def _rest_of_block(self):
        """the remaining statements of the current block, as a block (consumes the closing brace)"""
        self.t.insert(self.i, ("op", "{"))
        return self.block()

    def pat(self):
        if self.at("("):
            self.eat("("); xs = []
            while not self.at(")"):
                xs.append(self.pat())
                if self.at(","): self.next()
            self.eat(")"); return ("ptuple", xs)
        if self.at("mut"): self.next()
        return ("pvar", self.next()[1])

    PREC = {"||": 1, "&&": 2, "==": 3, "!=": 3, "<": 3, ">": 3, "<=": 3, ">=": 3,
            "+": 5, "-": 5, "*": 6, "/": 6, "%": 6}

    def expr(self, minp=0, nostruct=False):
        lhs = self.unary(nostruct)
        while True:
            k, v = self.peek()
            if v == "as":
                self.next(); lhs = ("cast", lhs, self.ty()); continue
            p = self.PREC.get(v)
            if k != "op" or p is None or p < minp: break
            self.next()
            rhs = self.expr(p + 1, nostruct)
            lhs = ("bin", v, lhs, rhs)
        return lhs

    def unary(self, nostruct):
        if self.at("-"): self.next(); return ("neg", self.unary(nostruct))
        if self.at("!"): self.next(); return ("not", self.unary(nostruct))
        if self.at("*"): self.next(); return self.unary(nostruct)          # deref: erased
        if self.at("&"):
            self.next()
            if self.at("mut"): self.next()
            return self.unary(nostruct)                                    # borrow: erased
        return self.postfix(self.atom(nostruct))

    def postfix(self, e):
        while True:
            if self.at("."):
                self.next(); name = self.next()[1]
                if self.at("("):
                    e = ("mcall", e, name, self.args())
                else:
                    e = ("field", e, name)
            elif self.at("?"):
                self.next(); e = ("try", e)
            else:
                return e

    def args(self):
        self.eat("("); xs = []
        while not self.at(")"):
            xs.append(self.expr())
            if self.at(","): self.next()
        self.eat(")"); return xs

    def atom(self, nostruct):
        k, v = self.peek()
        if k == "num": self.next(); return ("num", int(v.replace("_", "")))
        if v == "(":
            self.next(); xs = []
            while not self.at(")"):
                xs.append(self.expr())
                if self.at(","): self.next()
            self.eat(")")
            return xs[0] if len(xs) == 1 else ("tuple", xs)
        if v == "if":
            self.next(); c = self.expr(0, True); t = self.block()
            self.eat("else")
            f = ("block", [], self.atom(nostruct)) if self.at("if") else self.block()
            return ("if", c, t, f)
        if v == "match":
            self.next(); scrut = self.expr(0, True); self.eat("{"); arms = []
            while not self.at("}"):
                path = [self.next()[1]]
                while self.at("::"):
                    self.next(); path.append(self.next()[1])
                self.eat("=>"); arms.append((path, self.expr()))
                if self.at(","): self.next()
            self.eat("}")
            return ("match", scrut, arms)
        if v == "{":
            return self.block()
        if k == "id":
            path = [self.next()[1]]
            while self.at("::"):
                self.next()
                if self.at("<"):                       # turbofish, e.g. size_of::<T>()
                    self.next(); targs = []
                    while not self.at(">"):
                        targs.append(self.ty())
                        if self.at(","): self.next()
                    self.eat(">"); path.append(("targs", targs))
                else:
                    path.append(self.next()[1])
            if self.at("("):
                return ("call", path, self.args())
            if self.at("{") and not nostruct and path[-1][0].isupper():
                self.eat("{"); fields = []
                while not self.at("}"):
                    fname = self.next()[1]
                    if self.at(":"):
                        self.next(); fields.append((fname, self.expr()))
                    else:
                        fields.append((fname, ("path", [fname])))
                    if self.at(","): self.next()
                self.eat("}")
                return ("struct", path, fields)
            return ("path", path)
        raise Untranslatable(f"unexpected token {v!r}")

# ------------------------------------------------------------------ emitter
# The translator knows only *names* of the crate's vocabulary; every body comes from the source.
# Methods are resolved by (name, number of explicit arguments); associated functions by
# (Type, name).  Everything emitted lives in the fault monad `M = Except Fault` with checked
# machine arithmetic; `Result<T>` becomes `Except Error T` as a *value*, `?` becomes `bindErr`.

class Emit:
    def __init__(self, fnname, self_ty, mtable, ftable):
        self.n = 0; self.fnname = fnname; self.self_ty = self_ty
        self.mtable = mtable; self.ftable = ftable
    def fresh(self):
        self.n += 1; return f"t{self.n}"

    def ex(self, e, lines):
        k = e[0]
        if k == "num": return str(e[1])
        if k == "path":
            p = e[1]
            if len(p) == 1: return "self_" if p[0] == "self" else p[0]
            if p[0] == "Order" and p[1] in ("RowMajor", "ColMajor"):
                return "Order.rowMajor" if p[1] == "RowMajor" else "Order.colMajor"
            if p[0] == "Error": return "Error." + p[1][0].lower() + p[1][1:]
            if p == ["isize", "MAX"]: return "isizeMax"
            if p == ["usize", "MAX"]: return "usizeMax"
            raise Untranslatable(f"path {'::'.join(map(str, p))}")
        if k == "field":
            return f"{self.ex(e[1], lines)}.{e[2]}"
        if k == "tuple":
            return "(" + ", ".join(self.ex(x, lines) for x in e[1]) + ")"
        if k == "struct":
            name = e[1][-1]
            if name == "Self": name = self.self_ty
            return "({ " + ", ".join(f"{f} := {self.ex(v, lines)}" for f, v in e[2]) + f" }} : {name})"
        if k == "cast":
            inner = self.ex(e[1], lines); ty = e[2][1]
            if ty == "usize":
                return inner if inner in ("isizeMax", "usizeMax") else f"(castUsize {inner})"
            raise Untranslatable(f"cast to {ty}")
        if k == "neg": raise Untranslatable("unary minus")
        if k == "not": return f"(!{self.ex(e[1], lines)})"
        if k == "bin":
            op = e[1]
            if op in ("&&", "||"):
                # short-circuit: the right operand must be effect-free for the plain Bool form
                a = self.ex(e[2], lines); rl = []; b = self.ex(e[3], rl)
                if rl: raise Untranslatable("effectful right operand of && / ||")
                return f"({a} {op} {b})"
            a, b = self.ex(e[2], lines), self.ex(e[3], lines)
            if op in ("+", "-", "*", "/", "%"):
                f = {"+": "uadd", "-": "usub", "*": "umul", "/": "udiv", "%": "urem"}[op]
                t = self.fresh(); lines.append(f"let {t} ← {f} {a} {b}"); return t
            if op in ("==", "!="):
                return f"(decide ({a} {'=' if op == '==' else '≠'} {b}))"
            if op in ("<", ">", "<=", ">="):
                return f"(decide ({a} {op.replace('<=', '≤').replace('>=', '≥')} {b}))"
        if k == "try":
            raise Untranslatable("`?` outside statement position")
        if k == "mcall":
            recv, name, args = e[1], e[2], [self.ex(a, lines) for a in e[3]]
            r = self.ex(recv, lines)
            if name == "unsigned_abs": return f"(Int.natAbs {r})"
            if name == "checked_mul": return f"(checkedMul {r} {args[0]})"
            if name == "saturating_mul": return f"(saturatingMul {r} {args[0]})"
            if name == "wrapping_mul": return f"(wrappingMul {r} {args[0]})"
            if name == "ok_or": return f"(okOr {r} {args[0]})"
            if name in ("major", "minor", "row", "col") and not args: return f"{r}.{name}"
            key = (name, len(args))
            if key in self.mtable:
                t = self.fresh(); lines.append(f"let {t} ← {self.mtable[key]} {r} {' '.join(args)}".rstrip()); return t
            raise Untranslatable(f"method {name}/{len(args)}")
        if k == "call":
            p = e[1]; args = [self.ex(a, lines) for a in e[2]]
            if p[0] == "size_of": return "es"
            if p[0] == "Ok": return f"(Except.ok {args[0]})"
            if p[0] == "Some": return f"(some {args[0]})"
            if p[0] == "Err": return f"(Except.error {args[0]})"
            if len(p) >= 2:
                ty = self.self_ty if p[-2] == "Self" else p[-2]
                key = (ty, p[-1])
                if key in self.ftable:
                    t = self.fresh(); lines.append(f"let {t} ← {self.ftable[key]} {' '.join(args)}"); return t
            raise Untranslatable(f"call {'::'.join(map(str, p))}")
        if k in ("if", "match", "block"):
            t = self.fresh(); lines.append(f"let {t} ← {self.ex_m(e, lines)}"); return t
        raise Untranslatable(f"expression kind {k}")

    def ex_m(self, e, outer):
        k = e[0]
        if k == "block": return self.block(e)
        if k == "if":
            c = self.ex(e[1], outer)
            return f"(if {c} then {self.block(e[2])} else {self.block(e[3])})"
        if k == "match":
            s = self.ex(e[1], outer); arms = []
            for path, body in e[2]:
                pat = ".rowMajor" if path[-1] == "RowMajor" else ".colMajor" if path[-1] == "ColMajor" else None
                if pat is None: raise Untranslatable(f"match arm {path}")
                arms.append(f"| {pat} => {self.block(('block', [], body))}")
            return f"(match {s} with {' '.join(arms)})"
        lines = []; a = self.ex(e, lines)
        return "(do " + "; ".join(lines + [f"pure {a}"]) + ")"

    def pat(self, p):
        return p[1] if p[0] == "pvar" else "(" + ", ".join(self.pat(x) for x in p[1]) + ")"

    def block(self, b):
        return self.stmts(list(b[1]), b[2])

    def stmts(self, sts, tail):
        lines = []
        for n, st in enumerate(sts):
            e = st[2] if st[0] == "let" else st[1]
            if e[0] == "try":
                a = self.ex(e[1], lines)
                binder = self.pat(st[1]) if st[0] == "let" else "_"
                rest = self.stmts(sts[n + 1:], tail)
                return "(do " + "; ".join(lines + [f"bindErr {a} (fun {binder} => {rest})"]) + ")"
            if st[0] == "let":
                if e[0] in ("if", "match", "block"):
                    lines.append(f"let {self.pat(st[1])} ← {self.ex_m(e, lines)}")
                else:
                    a = self.ex(e, lines); lines.append(f"let {self.pat(st[1])} := {a}")
            else:
                self.ex(e, lines)
        if tail is None: raise Untranslatable("block without tail expression")
        if tail[0] in ("if", "match", "block"):
            t = self.ex_m(tail, lines)
        else:
            a = self.ex(tail, lines); t = f"pure {a}"
        return "(do " + "; ".join(lines + [t]) + ")"

LEAN_TY = {"usize": "Nat", "isize": "Int", "bool": "Bool", "AxisShape": "AxisShape", "Shape": "Shape",
           "Order": "Order", "AxisIndex": "AxisIndex", "Index": "Index", "WrappingIndex": "WrappingIndex",
           "Matrix": "Hdr", "I": "Index"}

def lean_ty(t, self_ty):
    if t is None: return self_ty
    if t[0] == "tuple": return " × ".join(lean_ty(x, self_ty) for x in t[1])
    name = t[1]
    if name == "Result": return "Except Error " + lean_ty(t[2][0], self_ty)
    if name == "Self": return self_ty
    if name not in LEAN_TY: raise Untranslatable(f"type {name}")
    return LEAN_TY[name]

def translate(src, impl_hint, name, self_ty, lean_name, mtable, ftable, generic_es=False):
    text = find_fn(src, impl_hint, name)
    ast = P(lex(text)).fn()
    em = Emit(name, self_ty, mtable, ftable)
    params = []
    if generic_es: params.append("(es : Nat)")
    for pn, pt in ast["params"]:
        if pn == "self": params.append(f"(self_ : {self_ty})")
        else: params.append(f"({pn} : {lean_ty(pt, self_ty)})")
    ret = lean_ty(ast["ret"], self_ty)
    body = em.block(ast["body"])
    return f"def {lean_name} {' '.join(params)} : M ({ret}) :=\n  {body}\n"

# (file, regex locating the impl block, rust fn, Self type, lean name, generic over size_of::<T>,
#  how other functions refer to it: ("m", argc) method / ("f", Type) associated function)
JOBS = [
    ("shape.rs", r"impl AxisShape\s*\{", "major_stride", "AxisShape", "AxisShape.major_stride", False, ("m", 0)),
    ("shape.rs", r"impl AxisShape\s*\{", "minor_stride", "AxisShape", "AxisShape.minor_stride", False, ("m", 0)),
    ("shape.rs", r"impl AxisShape\s*\{", "size", "AxisShape", "AxisShape.size", False, None),
    ("shape.rs", r"impl AxisShape\s*\{", "nrows", "AxisShape", "AxisShape.nrows", False, ("m", 1)),
    ("shape.rs", r"impl AxisShape\s*\{", "ncols", "AxisShape", "AxisShape.ncols", False, ("m", 1)),
    ("shape.rs", r"impl AxisShape\s*\{", "to_shape", "AxisShape", "AxisShape.to_shape", False, ("m", 1)),
    ("shape.rs", r"impl Shape\s*\{", "size", "Shape", "Shape.size", False, ("m", 0)),
    ("shape.rs", r"impl Shape\s*\{", "to_axis_shape_unchecked", "Shape", "Shape.to_axis_shape_unchecked", False, ("m", 1)),
    ("shape.rs", r"impl Shape\s*\{", "try_to_axis_shape", "Shape", "Shape.try_to_axis_shape", False, ("m", 1)),
    ("index.rs", r"impl AxisIndex\s*\{", "from_index", "AxisIndex", "AxisIndex.from_index", False, ("f", "AxisIndex")),
    ("index.rs", r"impl AxisIndex\s*\{", "to_index", "AxisIndex", "AxisIndex.to_index", False, ("m", 1)),
    ("index.rs", r"impl AxisIndex\s*\{", "from_flattened", "AxisIndex", "AxisIndex.from_flattened", False, ("f", "AxisIndex")),
    ("index.rs", r"impl AxisIndex\s*\{", "to_flattened", "AxisIndex", "AxisIndex.to_flattened", False, ("m", 1)),
    ("index.rs", r"impl AxisIndex\s*\{", "from_wrapping_index", "AxisIndex", "AxisIndex.from_wrapping_index", False, ("f", "AxisIndex")),
    ("index.rs", r"unsafe impl<T> MatrixIndex<T> for AxisIndex\s*\{", "is_out_of_bounds", "AxisIndex", "AxisIndex.is_out_of_bounds", False, None),
    ("index.rs", r"impl Index\s*\{", "from_flattened", "Index", "Index.from_flattened", False, ("f", "Index")),
    ("index.rs", r"impl Index\s*\{", "to_flattened", "Index", "Index.to_flattened", False, ("m", 2)),
    ("lib.rs", None, "check_size", "Hdr", "Matrix.check_size", True, None),
    ("lib.rs", r"impl<T> Matrix<T>\s*\{", "nrows", "Hdr", "Matrix.nrows", False, ("m", 0)),
    ("lib.rs", r"impl<T> Matrix<T>\s*\{", "ncols", "Hdr", "Matrix.ncols", False, ("m", 0)),
    ("arithmetic.rs", r"impl<L> Matrix<L>\s*\{", "is_elementwise_operation_conformable", "Hdr", "Matrix.is_elementwise_operation_conformable", False, None),
    ("arithmetic.rs", r"impl<L> Matrix<L>\s*\{", "is_multiplication_like_operation_conformable", "Hdr", "Matrix.is_multiplication_like_operation_conformable", False, None),
]

def run(root):
    mtable, ftable = {}, {}
    out, done, failed = [], [], []
    for f, hint, name, self_ty, lean_name, es, ref in JOBS:
        try:
            out.append(translate(open(f"{root}/{f}").read(), hint, name, self_ty, lean_name, mtable, ftable, es))
            done.append(lean_name)
            if ref:
                if ref[0] == "m": mtable[(name, ref[1])] = lean_name
                else: ftable[(ref[1], name)] = lean_name
        except Untranslatable as ex:
            failed.append((lean_name, str(ex)))
    vtext, vdone, vfailed = run_views(root, mtable, ftable)
    run.tables = (mtable, ftable)      # which callees exist in Gen/Core.lean on this run (used by T12)
    text = ("-- GENERATED by translate/t2.py from /repo/src — do not edit\nimport Matreex.Prelude\n"
            "open Matreex\nnamespace Matreex.Gen\n\n" + "\n".join(out) + "\n" + vtext + "\nend Matreex.Gen\n")
    return text, done + vdone, failed + vfailed

# ------------------------------------------------------------------ simple forms (constructors, conversions,
# field getters, in-place swaps): translated by template, emitted as pure functions into Gen/Simple.lean
# (file, impl hint, rust fn, Lean type, lean name, kind)
SIMPLE_JOBS = [
    ("shape.rs", r"impl Shape\s*\{", "new", "Shape", "Shape.new", "ctor"),
    ("shape.rs", r"impl Shape\s*\{", "nrows", "Shape", "Shape.nrows", "getter"),
    ("shape.rs", r"impl Shape\s*\{", "ncols", "Shape", "Shape.ncols", "getter"),
    ("shape.rs", r"impl Shape\s*\{", "transpose", "Shape", "Shape.transpose", "mutator"),
    ("shape.rs", r"impl From<\(usize, usize\)> for Shape\s*\{", "from", "Shape", "Shape.from_tuple", "from"),
    ("shape.rs", r"impl From<\[usize; 2\]> for Shape\s*\{", "from", "Shape", "Shape.from_array", "from"),
    ("shape.rs", r"impl AxisShape\s*\{", "major", "AxisShape", "AxisShape.major_get", "getter"),
    ("shape.rs", r"impl AxisShape\s*\{", "minor", "AxisShape", "AxisShape.minor_get", "getter"),
    ("shape.rs", r"impl AxisShape\s*\{", "transpose", "AxisShape", "AxisShape.transpose", "mutator"),
    ("order.rs", r"impl Order\s*\{", "switch", "Order", "Order.switch", "enum-mutator"),
    ("index.rs", r"impl Index\s*\{", "new", "Index", "Index.new", "ctor"),
    ("index.rs", r"impl Index\s*\{", "swap", "Index", "Index.swap", "mutator"),
    ("index.rs", r"impl From<\(usize, usize\)> for Index\s*\{", "from", "Index", "Index.from_tuple", "from"),
    ("index.rs", r"impl From<\[usize; 2\]> for Index\s*\{", "from", "Index", "Index.from_array", "from"),
    ("index.rs", r"impl WrappingIndex\s*\{", "new", "WrappingIndex", "WrappingIndex.new", "ctor"),
    ("index.rs", r"impl WrappingIndex\s*\{", "swap", "WrappingIndex", "WrappingIndex.swap", "mutator"),
    ("index.rs", r"impl AxisIndex\s*\{", "swap", "AxisIndex", "AxisIndex.swap", "mutator"),
    ("lib.rs", r"impl<T> Matrix<T>\s*\{", "order", "Hdr", "Matrix.order", "hdr-getter"),
    ("lib.rs", r"impl<T> Matrix<T>\s*\{", "major", "Hdr", "Matrix.major", "hdr-delegate"),
    ("lib.rs", r"impl<T> Matrix<T>\s*\{", "minor", "Hdr", "Matrix.minor", "hdr-delegate"),
    ("lib.rs", r"impl<T> Matrix<T>\s*\{", "major_stride", "Hdr", "Matrix.major_stride", "hdr-delegate"),
    ("lib.rs", r"impl<T> Matrix<T>\s*\{", "minor_stride", "Hdr", "Matrix.minor_stride", "hdr-delegate"),
]
# what `self.shape.<method>()` means on the axis shape (the two strides are T2 functions of Gen/Core.lean,
# whose closed forms are bridge lemmas; here the delegation itself is recorded)
SHAPE_METHODS = {"major": "self_.shape.major", "minor": "self_.shape.minor", "major_stride": "self_.shape.minor", "minor_stride": "1"}
ENUM_CTORS = {"RowMajor": ".rowMajor", "ColMajor": ".colMajor"}
SCALAR_TY = {"Shape": "Nat", "AxisShape": "Nat", "Index": "Nat", "AxisIndex": "Nat", "WrappingIndex": "Int"}

def strip_rust_comments(src):
    src = re.sub(r"/\*.*?\*/", "", src, flags=re.S)
    return re.sub(r"//[^\n]*", "", src)

def struct_lit(text):
    """`Self { a, b: c }` -> [(field, expr-ident)]"""
    m = re.fullmatch(r"Self \{ (.*?) \}", text)
    if not m:
        raise Untranslatable(f"not a struct literal: {text!r}")
    fields = []
    for part in [x.strip() for x in m.group(1).split(",") if x.strip()]:
        mm = re.fullmatch(r"(\w+)(?: ?: ?(\w+))?", part)
        if not mm:
            raise Untranslatable(f"field initialiser {part!r}")
        fields.append((mm.group(1), mm.group(2) or mm.group(1)))
    return fields

def translate_simple(src, hint, name, ty, lean_name, kind):
    text = strip_rust_comments(find_fn(src, hint, name))
    sig, body = text[:text.index("{")], text[text.index("{"):]
    body = re.sub(r"\s+", " ", body).strip()
    body = re.sub(r"^\{ ?| ?\}$", "", body).strip()
    sig = re.sub(r"\s+", " ", sig)
    scalar = SCALAR_TY.get(ty, "Nat")
    if kind == "getter":
        m = re.fullmatch(r"self\.(\w+)", body)
        if not m: raise Untranslatable(f"getter body {body!r}")
        return f"def {lean_name} (self_ : {ty}) : {scalar} := self_.{m.group(1)}\n"
    if kind == "hdr-getter":
        m = re.fullmatch(r"self\.(\w+)", body)
        if not m or m.group(1) not in ("order",): raise Untranslatable(f"getter body {body!r}")
        return f"def {lean_name} (self_ : Hdr) : Order := self_.{m.group(1)}\n"
    if kind == "hdr-delegate":
        m = re.fullmatch(r"self\.shape\.(\w+)\(\)", body)
        if not m or m.group(1) not in SHAPE_METHODS: raise Untranslatable(f"delegation body {body!r}")
        return (f"/-- delegates to `AxisShape::{m.group(1)}` -/\ndef {lean_name} (self_ : Hdr) : Nat := {SHAPE_METHODS[m.group(1)]}\n"
                f"def {lean_name}_delegate : String := \"{m.group(1)}\"\n")
    if kind == "ctor":
        params = re.findall(r"(\w+) ?: ?[iu]size", sig)
        fields = struct_lit(body)
        for _, e in fields:
            if e not in params: raise Untranslatable(f"ctor uses {e!r}")
        return (f"def {lean_name} " + " ".join(f"({p} : {scalar})" for p in params) + f" : {ty} :=\n  {{ "
                + ", ".join(f"{f} := {e}" for f, e in fields) + " }\n")
    if kind == "mutator":
        m = re.fullmatch(r"\(self\.(\w+), self\.(\w+)\) = \(self\.(\w+), self\.(\w+)\); self", body)
        if not m: raise Untranslatable(f"mutator body {body!r}")
        a, b, c, d = m.groups()
        return f"def {lean_name} (self_ : {ty}) : {ty} := {{ self_ with {a} := self_.{c}, {b} := self_.{d} }}\n"
    if kind == "enum-mutator":
        m = re.fullmatch(r"\*self = match self \{ (.*?),? \}; self", body)
        if not m: raise Untranslatable(f"enum mutator body {body!r}")
        arms = []
        for arm in [x.strip() for x in m.group(1).split(",") if x.strip()]:
            mm = re.fullmatch(r"Self::(\w+) => Self::(\w+)", arm)
            if not mm or mm.group(1) not in ENUM_CTORS or mm.group(2) not in ENUM_CTORS:
                raise Untranslatable(f"match arm {arm!r}")
            arms.append(f"  | {ENUM_CTORS[mm.group(1)]} => {ENUM_CTORS[mm.group(2)]}")
        return f"def {lean_name} (self_ : {ty}) : {ty} :=\n  match self_ with\n" + "\n".join(arms) + "\n"
    if kind == "from":
        m = re.fullmatch(r"let [\(\[](\w+), (\w+)[\)\]] = value; (Self \{ .*? \})", body)
        if not m: raise Untranslatable(f"conversion body {body!r}")
        x, y, lit = m.groups()
        fields = struct_lit(lit)
        for _, e in fields:
            if e not in (x, y): raise Untranslatable(f"conversion uses {e!r}")
        return (f"def {lean_name} (value : {scalar} × {scalar}) : {ty} :=\n  let ({x}, {y}) := value\n  {{ "
                + ", ".join(f"{f} := {e}" for f, e in fields) + " }\n")
    raise Untranslatable(f"unknown kind {kind}")

def run_simple(root):
    out, done, failed = [], [], []
    for f, hint, name, ty, lean_name, kind in SIMPLE_JOBS:
        try:
            out.append(translate_simple(open(f"{root}/{f}").read(), hint, name, ty, lean_name, kind))
            done.append(lean_name)
        except (Untranslatable, OSError, ValueError) as ex:
            failed.append((lean_name, str(ex)))
    text = ("-- GENERATED by translate/t2.py (simple forms) from /repo/src — do not edit\nimport Matreex.Prelude\n"
            "open Matreex\nnamespace Matreex.Gen\n\n" + "\n".join(out) + "\nend Matreex.Gen\n")
    return text, done, failed

# ------------------------------------------------------------------ view parameters (C06): the (skip, step, take)
# triple of the four `iter_nth_*_axis_vector_unchecked(_mut)` functions and the guards of their checked wrappers
VIEW_JOBS = [
    # (rust fn, lean name, kind)
    ("iter_nth_major_axis_vector_unchecked", "Matrix.iter_nth_major_axis_vector_unchecked", "triple"),
    ("iter_nth_minor_axis_vector_unchecked", "Matrix.iter_nth_minor_axis_vector_unchecked", "triple"),
    ("iter_nth_major_axis_vector_unchecked_mut", "Matrix.iter_nth_major_axis_vector_unchecked_mut", "triple"),
    ("iter_nth_minor_axis_vector_unchecked_mut", "Matrix.iter_nth_minor_axis_vector_unchecked_mut", "triple"),
    ("iter_nth_major_axis_vector", "Matrix.iter_nth_major_axis_vector", "guarded"),
    ("iter_nth_minor_axis_vector", "Matrix.iter_nth_minor_axis_vector", "guarded"),
    ("iter_nth_major_axis_vector_mut", "Matrix.iter_nth_major_axis_vector_mut", "guarded"),
    ("iter_nth_minor_axis_vector_mut", "Matrix.iter_nth_minor_axis_vector_mut", "guarded"),
]

def translate_view(src, name, lean_name, kind, mtable, ftable):
    text = find_fn(src, None, name)
    # `self.<x>_stride()` on the matrix delegates to the axis shape (recorded and proved in Gen/Simple.lean)
    text = re.sub(r"self\s*\.\s*(major_stride|minor_stride)\s*\(\s*\)", r"self.shape.\1()", text)
    # the return type (an iterator adaptor chain) is replaced: we translate the PARAMETERS of the chain
    text = re.sub(r"->\s*[^{]*\{", "{", text, count=1)
    ast = P(lex(text)).fn()
    body = ast["body"]
    em = Emit(name, "Hdr", mtable, ftable)
    if kind == "triple":
        stmts, tail = body[1], body[2]
        # tail: self.data.iter()/iter_mut() .skip(A) .step_by(B) .take(C)
        def chain(e):
            names, args = [], []
            while e[0] == "mcall":
                names.append(e[2]); args.append(e[3]); e = e[1]
            return e, names[::-1], args[::-1]
        base, names, args = chain(tail)
        if not (base == ("field", ("path", ["self"]), "data") and names[0] in ("iter", "iter_mut") and names[1:] == ["skip", "step_by", "take"]
                and all(len(a) == 1 for a in args[1:])):
            raise Untranslatable(f"view chain not recognised: {names}")
        new_body = ("block", stmts, ("tuple", [args[1][0], args[2][0], args[3][0]]))
        return f"def {lean_name} (self_ : Hdr) (n : Nat) : M (Nat × Nat × Nat) :=\n  {em.block(new_body)}\n"
    # guarded: if n >= self.<axis>() { Err(E) } else { Ok(self.<unchecked>(n)) }   (or with an early return)
    return f"def {lean_name} (self_ : Hdr) (n : Nat) : M (Except Error (Nat × Nat × Nat)) :=\n  {em.block(body)}\n"

def run_views(root, mtable, ftable):
    out, done, failed = [], [], []
    try:
        src = strip_rust_comments(open(f"{root}/iter.rs").read())
    except OSError as ex:
        return "", [], [("iter.rs", str(ex))]
    for name, lean_name, kind in VIEW_JOBS:
        try:
            out.append(translate_view(src, name, lean_name, kind, mtable, ftable))
            done.append(lean_name)
            mtable[(name, 1)] = lean_name
        except (Untranslatable, ValueError, IndexError) as ex:
            failed.append((lean_name, str(ex)))
    return "\n".join(out), done, failed

if __name__ == "__main__":
    root = sys.argv[1] if len(sys.argv) > 1 else "/repo/src"
    dest = sys.argv[2] if len(sys.argv) > 2 else "/verif/lean/Matreex/Gen/Core.lean"
    text, done, failed = run(root)
    import os
    changed = not os.path.exists(dest) or open(dest).read() != text
    if changed:
        open(dest, "w").write(text)
    stext, sdone, sfailed = run_simple(root)
    sdest = os.path.join(os.path.dirname(dest), "Simple.lean")
    if not os.path.exists(sdest) or open(sdest).read() != stext:
        open(sdest, "w").write(stext); changed = True
    import t3
    ktext, kdone, kfailed = t3.run_kernels(root)
    kdest = os.path.join(os.path.dirname(dest), "Kernels.lean")
    if not os.path.exists(kdest) or open(kdest).read() != ktext:
        open(kdest, "w").write(ktext); changed = True
    import t4
    itext, idone, ifailed = t4.run_iter_mut(root)
    idest = os.path.join(os.path.dirname(dest), "IterMutGen.lean")
    if not os.path.exists(idest) or open(idest).read() != itext:
        open(idest, "w").write(itext); changed = True
    import t5
    ttext, tdone, tfailed = t5.run_transpose(root)
    tdest = os.path.join(os.path.dirname(dest), "TransposeGen.lean")
    if not os.path.exists(tdest) or open(tdest).read() != ttext:
        open(tdest, "w").write(ttext); changed = True
    import t6
    otext, odone, ofailed = t6.run_overwrite(root)
    odest = os.path.join(os.path.dirname(dest), "OverwriteGen.lean")
    if not os.path.exists(odest) or open(odest).read() != otext:
        open(odest, "w").write(otext); changed = True
    import t7, t8, t9, t10, t11, t12, t13, t14, t15, t16, t17, t18, t19
    more_done, more_failed = [], []
    for text_done_failed, fname in ((t7.run_eq(root), "T7Gen.lean"), (t8.run_t8(root, done + sdone), "T8Gen.lean"),
                                    (t9.run_t9(root), "T9Gen.lean"), (t10.run_t10(root), "T10Gen.lean"),
                                    (t11.run_t11(root), "T11Gen.lean"), (t12.run_t12(root, run.tables), "T12Gen.lean"),
                                    (t13.run_t13(root, done + sdone), "T13Gen.lean"), (t14.run_t14(root), "T14Gen.lean"),
                                    (t15.run_t15(root), "T15Gen.lean"), (t16.run_t16(root, run.tables), "T16Gen.lean"), (t17.run_t17(root), "T17Gen.lean"),
                                    (t18.run_t18(root), "T18Gen.lean"), (t19.run_t19(root), "T19Gen.lean")):
        xtext, xdone, xfailed = text_done_failed
        xdest = os.path.join(os.path.dirname(dest), fname)
        if not os.path.exists(xdest) or open(xdest).read() != xtext:
            open(xdest, "w").write(xtext); changed = True
        more_done += xdone; more_failed += xfailed
    print(json.dumps({"translated": done + sdone + kdone + idone + tdone + odone + more_done,
                      "untranslated": failed + sfailed + kfailed + ifailed + tfailed + ofailed + more_failed, "changed": changed}, indent=1))
