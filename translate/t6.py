#!/usr/bin/env python3
"""Translator T6 ("overwrite"): `Matrix::overwrite` of src/lib.rs -> a Lean 4 function on the two element
arrays (`Gen/OverwriteGen.lean`), regenerated on every run.  The Lean term is derived from the Rust
statements: the branch condition, the operands of every `cmp::min`, the loop bounds, every offset
expression, the ranges handed to `get_unchecked_mut` / `get_unchecked`, the `skip` / `step_by`
arguments.  Only the slice / iterator *vocabulary* is mapped by name, to the two primitives of
Model/Overwrite.lean which carry the UB / panic conditions (`cloneFromSlice`, `crossRow`).

Signature (checked):   fn overwrite(&mut self, SRC: &Self) -> &mut Self [where …]
The result is the destination buffer after the call (`self.data`); `SRC.data` is read only.

Accepted statement language (anything else is reported `Untranslatable`, never guessed; the function
then becomes a stub that faults, so the file still compiles and the bridge theorem fails):

    let v = EXPR;                               integer expression (no `let mut`, no patterns)
    if COND { .. } [else { .. }]                both branches carry the destination buffer
    for i in 0..EXPR { .. }                     a fold over 0, 1, …, EXPR-1 carrying the destination buffer
    unsafe { .. }                               transparent
    self.data.get_unchecked_mut(A..B).clone_from_slice(SRC.data.get_unchecked(C..D));
                                                `cloneFromSlice clone data A B sdata C D`
    self.data.get_unchecked_mut(A..B).iter_mut()
        .zip(SRC.data.iter().skip(E).step_by(F)).for_each(|(x, y)| *x = y.clone());
                                                `crossRow clone data A B sdata E F`
    self                                        tail of the function: the buffer is returned

Expressions (a small checker assigns usize | bool | Order to every expression):
    integers, locals, the loop variable
    + - * / %                                   checked `uadd usub umul udiv urem` (T2's emitter)
    == != < > <= >=   ! && ||                   as in T2
    cmp::min(a, b) / a.min(b)                   `min a b`
    M.order                                     M = self | SRC
    M.major() / M.minor()                       the axis shape's extents `M.shape.major` / `.minor`
    M.major_stride() / M.minor_stride()         T2's `Gen.AxisShape.major_stride` / `minor_stride` on `M.shape`
                                                (the delegation itself is translated in Gen/Simple.lean);
                                                `M.shape.major()` … spelled out is accepted as the same thing
    Order::RowMajor / Order::ColMajor, usize::MAX
Locals keep their Rust names (a name that is a Lean keyword, e.g. `from`, is written «from»; a name that
would capture one the generated code binds itself — `data`, `sdata`, `clone`, `t1`, … — is untranslatable).
"""
import re, sys, os
sys.path.insert(0, os.path.dirname(os.path.abspath(__file__)))
from t2 import lex, find_fn, P, Emit, Untranslatable, strip_rust_comments

LEAN_NAME = "Matrix.overwrite"
MTABLE = {("major_stride", 0): "AxisShape.major_stride", ("minor_stride", 0): "AxisShape.minor_stride"}
SHAPE_METHODS = ("major", "minor", "major_stride", "minor_stride")
# names the generated function binds itself, or uses from the Lean side
RESERVED = {"data", "sdata", "clone", "self_", "self", "min", "max", "umul", "uadd", "usub", "udiv", "urem",
            "pure", "cloneFromSlice", "crossRow", "decide", "fun", "do", "let", "if", "then", "else", "M",
            "Nat", "List", "Array", "Hdr", "AxisShape", "Order", "usizeMax", "isizeMax", "α"}
NAT, BOOL, ORDER = "usize", "bool", "Order"
# Rust identifiers that are Lean keywords / tokens are written «x»
LEAN_KEYWORDS = {"from", "at", "end", "have", "show", "by", "then", "with", "where", "open", "namespace", "section",
                 "variable", "theorem", "def", "instance", "structure", "class", "deriving", "import", "export",
                 "universe", "using", "calc", "obtain", "suffices", "exists", "forall", "Type", "Prop", "Sort",
                 "fun", "do", "in", "nomatch", "nofun", "private", "protected", "mutual", "macro", "syntax",
                 "notation", "infix", "infixl", "infixr", "prefix", "postfix", "abbrev", "axiom", "example",
                 "inductive", "opaque", "attribute", "local", "scoped", "set_option", "omit", "include", "extends",
                 "termination_by", "decreasing_by", "partial", "noncomputable", "unsafe", "try", "catch", "finally",
                 "unless", "repeat", "rec", "mut", "meta", "public", "this", "Exists", "sorry", "admit", "assert",
                 "generalizing", "only", "elab", "initialize", "builtin_initialize", "declare_syntax_cat", "instance",
                 "deriving", "renaming", "hiding", "exposing", "all", "module"}


def lean_id(name):
    return f"«{name}»" if name in LEAN_KEYWORDS else name


# ------------------------------------------------------------------ parser
class O(P):
    """statement-level parser for `overwrite`; expressions are T2's, plus `a..b` and the one closure
    form inside argument lists"""

    def ofn(self):
        self.eat("fn"); name = self.next()[1]
        if self.at("<"): raise Untranslatable("generic parameters on the function")
        self.eat("(")
        self.eat("&"); self.eat("mut"); self.eat("self"); self.eat(",")
        k, src = self.next()
        if k != "id": raise Untranslatable(f"parameter name {src!r}")
        self.eat(":"); self.eat("&")
        if self.at("mut"): raise Untranslatable("the source parameter is `&mut`")
        ty = self.ty()
        if ty != ("ty", "Self", []): raise Untranslatable(f"the source parameter is not `&Self`")
        if self.at(","): self.next()
        self.eat(")")
        self.eat("->"); self.eat("&"); self.eat("mut")
        if self.ty() != ("ty", "Self", []): raise Untranslatable("return type is not `&mut Self`")
        if self.at("where"):
            while not self.at("{"):
                if self.peek()[0] == "eof": raise Untranslatable("where clause without a body")
                self.next()
        body = self.oblock()
        if self.peek()[0] != "eof": raise Untranslatable("text after the function body")
        return name, src, body

    def oblock(self):
        self.eat("{"); stmts = []
        while not self.at("}"):
            if self.peek()[0] == "eof": raise Untranslatable("unterminated block")
            stmts.append(self.ostmt())
        self.eat("}")
        return stmts

    def ostmt(self):
        v = self.peek()[1]
        if v in ("return", "continue", "break", "while", "loop", "match", "const", "static", "fn", "#"):
            raise Untranslatable(f"`{v}` statement")
        if v == "unsafe":
            self.next(); return ("unsafe", self.oblock())
        if v == "for":
            self.next(); k, var = self.next()
            if k != "id": raise Untranslatable("for: pattern instead of a loop variable")
            self.eat("in")
            lo = self.expr(5, True)
            if lo != ("num", 0): raise Untranslatable("for: the range does not start at the literal 0")
            self.eat("..")
            hi = self.expr(0, True)
            return ("for", var, hi, self.oblock())
        if v == "if":
            self.next(); c = self.expr(0, True)
            t = self.oblock(); f = []
            if self.at("else"):
                self.next()
                if self.at("if"): f = [self.ostmt()]
                else: f = self.oblock()
            return ("if", c, t, f)
        if v == "let":
            self.next()
            if self.at("mut"): raise Untranslatable("let mut")
            k, name = self.next()
            if k != "id": raise Untranslatable("let with a pattern")
            if self.at(":"):
                self.next()
                if self.ty() != ("ty", "usize", []): raise Untranslatable(f"let {name}: type annotation is not usize")
            self.eat("="); e = self.expr(); self.eat(";")
            return ("let", name, e)
        e = self.expr()
        if self.at(";"):
            self.next(); return ("do", e)
        if self.at("="): raise Untranslatable("assignment statement")
        return ("tail", e)

    def args(self):
        """argument list: T2's expressions, `a..b`, or the closure `|(x, y)| *x = y.clone()`"""
        self.eat("("); xs = []
        while not self.at(")"):
            if self.at("|"):
                xs.append(self.closure())
            else:
                e = self.expr()
                if self.at(".."):
                    self.next()
                    if self.at(")") or self.at(","): raise Untranslatable("half-open range `a..`")
                    e = ("range", e, self.expr())
                xs.append(e)
            if self.at(","): self.next()
            elif not self.at(")"):
                raise Untranslatable(f"argument list: unexpected {self.peek()[1]!r}")
        self.eat(")"); return xs

    def closure(self):
        try:
            self.eat("|"); pat = self.pat(); self.eat("|")
            braces = self.at("{")
            if braces: self.next()
            self.eat("*"); k, x = self.next()
            if k != "id": raise Untranslatable("left-hand side")
            self.eat("=")
            rhs = self.expr()
            if braces:
                if self.at(";"): self.next()
                self.eat("}")
        except Untranslatable as ex:
            raise Untranslatable(f"closure is not of the form `|(x, y)| *x = y.clone()` ({ex})")
        return ("closure", pat, x, rhs)

    def atom(self, nostruct):
        v = self.peek()[1]
        if v == "..": raise Untranslatable("range without a lower bound")
        if v == "|" or v == "||" or v == "move": raise Untranslatable("closure outside an argument list")
        return super().atom(nostruct)

    def postfix(self, e):
        while True:
            if self.at("["): raise Untranslatable("indexing `x[..]` (a checked slice operation: panics, not in the model's vocabulary)")
            if self.at("."):
                self.next(); name = self.next()[1]
                if self.at("::"): raise Untranslatable("turbofish on a method")
                if self.at("("):
                    e = ("mcall", e, name, self.args())
                else:
                    e = ("field", e, name)
            elif self.at("?"):
                raise Untranslatable("`?`")
            else:
                return e


# ------------------------------------------------------------------ expressions
class OEmit(Emit):
    """T2's expression emitter restricted to the closed vocabulary above, with a scope and a type check"""

    def __init__(self, fnname, src):
        super().__init__(fnname, "Hdr", MTABLE, {})
        self.src = src              # the Rust name of the source parameter
        self.scope = [set()]        # usize locals in scope

    def fresh(self):
        while True:
            t = super().fresh()
            if not any(t in s for s in self.scope): return t

    def is_matrix(self, e):
        return e[0] == "path" and len(e[1]) == 1 and e[1][0] in ("self", self.src)

    def known(self, name):
        return any(name in s for s in self.scope)

    def ty(self, e):
        k = e[0]
        if k == "num": return NAT
        if k == "path":
            p = e[1]
            if len(p) == 1:
                if isinstance(p[0], str) and self.known(p[0]): return NAT
                raise Untranslatable(f"`{p[0]}` is not an integer local in scope")
            if p[0] == "Order" and p[1] in ("RowMajor", "ColMajor") and len(p) == 2: return ORDER
            if p == ["usize", "MAX"]: return NAT
            raise Untranslatable(f"path {'::'.join(map(str, p))}")
        if k == "field":
            if self.is_matrix(e[1]) and e[2] == "order": return ORDER
            raise Untranslatable(f"field access .{e[2]}")
        if k == "not":
            if self.ty(e[1]) != BOOL: raise Untranslatable("`!` on a non-bool")
            return BOOL
        if k == "bin":
            op = e[1]; a, b = self.ty(e[2]), self.ty(e[3])
            if op in ("&&", "||"):
                if (a, b) != (BOOL, BOOL): raise Untranslatable(f"`{op}` on non-bools")
                return BOOL
            if op in ("+", "-", "*", "/", "%"):
                if (a, b) != (NAT, NAT): raise Untranslatable(f"`{op}` on non-integers")
                return NAT
            if op in ("==", "!="):
                if a != b or a == BOOL: raise Untranslatable(f"`{op}` on {a} and {b}")
                return BOOL
            if op in ("<", ">", "<=", ">="):
                if (a, b) != (NAT, NAT): raise Untranslatable(f"`{op}` on non-integers")
                return BOOL
            raise Untranslatable(f"operator {op}")
        if k == "mcall":
            recv, name, args = e[1], e[2], e[3]
            if name in SHAPE_METHODS and not args:
                if self.is_matrix(recv) or (recv[0] == "field" and self.is_matrix(recv[1]) and recv[2] == "shape"):
                    return NAT
                raise Untranslatable(f".{name}() on something that is not `self` / `{self.src}`")
            if name == "min" and len(args) == 1:
                if (self.ty(recv), self.ty(args[0])) != (NAT, NAT): raise Untranslatable("min on non-integers")
                return NAT
            raise Untranslatable(f"method {name}/{len(args)}")
        if k == "call":
            p = e[1]
            if p in (["cmp", "min"], ["std", "cmp", "min"], ["core", "cmp", "min"]) and len(e[2]) == 2:
                if [self.ty(a) for a in e[2]] != [NAT, NAT]: raise Untranslatable("cmp::min on non-integers")
                return NAT
            raise Untranslatable("call " + "::".join(x if isinstance(x, str) else "<…>" for x in p))
        raise Untranslatable(f"expression kind {k}")

    def ex(self, e, lines):
        k = e[0]
        if k == "path" and len(e[1]) == 1 and e[1][0] != "self":
            return lean_id(e[1][0])
        if k == "mcall":
            recv, name, args = e[1], e[2], e[3]
            if name in SHAPE_METHODS and not args and self.is_matrix(recv):
                return super().ex(("mcall", ("field", recv, "shape"), name, []), lines)
            if name == "min" and len(args) == 1:
                a = self.ex(recv, lines); b = self.ex(args[0], lines)
                return f"(min {a} {b})"
        if k == "call" and e[1][-1] == "min" and len(e[2]) == 2:
            a = self.ex(e[2][0], lines); b = self.ex(e[2][1], lines)
            return f"(min {a} {b})"
        return super().ex(e, lines)

    def typed(self, e, want, lines, what):
        t = self.ty(e)
        if t != want: raise Untranslatable(f"{what}: expected {want}, found {t}")
        return self.ex(e, lines)


# ------------------------------------------------------------------ statements
def chain(e):
    """method chain `base.m1(a1).m2(a2)…` -> (base, [m1, m2, …], [a1, a2, …])"""
    names, args = [], []
    while e[0] == "mcall":
        names.append(e[2]); args.append(e[3]); e = e[1]
    return e, names[::-1], args[::-1]


class OStmts:
    def __init__(self, fnname, src):
        self.em = OEmit(fnname, src); self.src = src

    def data_of(self, e, who):
        return e == ("field", ("path", [who]), "data")

    def one_range(self, args, what):
        if len(args) != 1 or args[0][0] != "range":
            raise Untranslatable(f"{what}: the argument is not a range `a..b`")
        return args[0][1], args[0][2]

    def slice_stmt(self, e, pad):
        """the two statements that touch the element buffers"""
        out = []
        base, names, args = chain(e)
        if not self.data_of(base, "self"):
            raise Untranslatable("statement does not start with `self.data`")

        def emit(x, what):
            lines = []; v = self.em.typed(x, NAT, lines, what)
            out.extend(pad + l for l in lines)
            return v

        if names == ["get_unchecked_mut", "clone_from_slice"]:
            a, b = self.one_range(args[0], "get_unchecked_mut")
            if len(args[1]) != 1: raise Untranslatable("clone_from_slice: one argument expected")
            sbase, snames, sargs = chain(args[1][0])
            if not self.data_of(sbase, self.src) or snames != ["get_unchecked"]:
                raise Untranslatable(f"clone_from_slice: the argument is not `{self.src}.data.get_unchecked(a..b)`")
            c, d = self.one_range(sargs[0], "get_unchecked")
            # evaluation order of the Rust text: receiver range, then argument range
            va, vb = emit(a, "range start"), emit(b, "range end")
            vc, vd = emit(c, "range start"), emit(d, "range end")
            out.append(pad + f"let data ← cloneFromSlice clone data {va} {vb} sdata {vc} {vd}")
            return out
        if names == ["get_unchecked_mut", "iter_mut", "zip", "for_each"]:
            a, b = self.one_range(args[0], "get_unchecked_mut")
            if args[1]: raise Untranslatable("iter_mut with arguments")
            if len(args[2]) != 1: raise Untranslatable("zip: one argument expected")
            sbase, snames, sargs = chain(args[2][0])
            if not self.data_of(sbase, self.src) or snames != ["iter", "skip", "step_by"] or sargs[0] \
                    or len(sargs[1]) != 1 or len(sargs[2]) != 1:
                raise Untranslatable(f"zip: the argument is not `{self.src}.data.iter().skip(a).step_by(b)`")
            if len(args[3]) != 1 or args[3][0][0] != "closure":
                raise Untranslatable("for_each: the argument is not a closure")
            _, pat, x, rhs = args[3][0]
            if not (pat[0] == "ptuple" and len(pat[1]) == 2 and all(q[0] == "pvar" for q in pat[1])):
                raise Untranslatable("for_each: the closure's parameter is not `(x, y)`")
            px, py = pat[1][0][1], pat[1][1][1]
            if px == py or x != px or rhs != ("mcall", ("path", [py]), "clone", []):
                raise Untranslatable("for_each: the closure is not `|(x, y)| *x = y.clone()`")
            va, vb = emit(a, "range start"), emit(b, "range end")
            vs = emit(sargs[1][0], "skip"); vt = emit(sargs[2][0], "step_by")
            out.append(pad + f"let data ← crossRow clone data {va} {vb} sdata {vs} {vt}")
            return out
        raise Untranslatable("statement on the buffers is neither `get_unchecked_mut(..).clone_from_slice(..get_unchecked(..))` "
                             f"nor `get_unchecked_mut(..).iter_mut().zip(..iter().skip(..).step_by(..)).for_each(..)`: {'.'.join(names)}")

    def block(self, sts, ind, top=False):
        """lines of a `do` block that ends in `pure data`"""
        self.em.scope.append(set())
        out = self.stmts(sts, ind, top)
        self.em.scope.pop()
        return out + ["  " * ind + "pure data"]

    def stmts(self, sts, ind, top, spliced=False):
        out = []; pad = "  " * ind
        for n, st in enumerate(sts):
            k = st[0]
            if k == "unsafe":
                if any(s[0] == "tail" for s in st[1]): raise Untranslatable("unsafe block with a value")
                self.em.scope.append(set())
                out += self.stmts(st[1], ind, False, spliced=True)
                self.em.scope.pop()
                continue
            if k == "let":
                name, e = st[1], st[2]
                if name in RESERVED or re.fullmatch(r"t\d+", name):
                    raise Untranslatable(f"local `{name}` collides with a name of the generated code")
                if spliced and self.em.known(name):
                    # the block is spliced into the enclosing `do`: a shadowing `let` would leak out of it
                    raise Untranslatable(f"`let {name}` inside an unsafe block shadows an outer local")
                try:
                    lines = []; v = self.em.typed(e, NAT, lines, f"let {name}")
                except Untranslatable as ex:
                    raise Untranslatable(f"let {name} = …: not an integer expression of the language ({ex})")
                out += [pad + l for l in lines]
                out.append(pad + f"let {lean_id(name)} := {v}")
                self.em.scope[-1].add(name)
                continue
            if k == "for":
                var = st[1]
                if var in RESERVED or re.fullmatch(r"t\d+", var):
                    raise Untranslatable(f"loop variable `{var}` collides with a name of the generated code")
                lines = []; hi = self.em.typed(st[2], NAT, lines, "loop bound")
                out += [pad + l for l in lines]
                out.append(pad + f"let data ← (List.range {hi}).foldlM (fun (data : Array α) ({lean_id(var)} : Nat) => do")
                self.em.scope.append({var})
                out += self.block(st[3], ind + 2)
                self.em.scope.pop()
                out[-1] += ") data"
                continue
            if k == "if":
                lines = []; c = self.em.typed(st[1], BOOL, lines, "condition")
                out += [pad + l for l in lines]
                out.append(pad + f"let data ← (if {c} then do")
                out += self.block(st[2], ind + 2)
                out.append(pad + "  else do")
                out += self.block(st[3], ind + 2)
                out[-1] += ")"
                continue
            if k == "do":
                out += self.slice_stmt(st[1], pad)
                continue
            if k == "tail":
                if not top or n != len(sts) - 1 or st[1] != ("path", ["self"]):
                    raise Untranslatable("a value that is not the final `self` of the function")
                return out
            raise Untranslatable(f"statement kind {k}")
        if top: raise Untranslatable("the function does not end in `self`")
        return out


def translate_overwrite(src_text):
    text = find_fn(src_text, r"impl<T> Matrix<T>\s*\{", "overwrite")
    name, src, body = O(lex(text)).ofn()
    if src in RESERVED or re.fullmatch(r"t\d+", src):
        raise Untranslatable(f"parameter `{src}` collides with a name of the generated code")
    lines = OStmts(name, src).block(body, 1, top=True)
    return HEAD.format(src=lean_id(src)) + " := do\n" + "\n".join(lines) + "\n"


HEAD = ("def " + LEAN_NAME + " {{α : Type}} (clone : α → α) (self_ : Hdr) (data : Array α) ({src} : Hdr) (sdata : Array α) :\n"
        "    M (Array α)")

HEADER = """/-
GENERATED by translate/t6.py from /repo/src/lib.rs (`Matrix::overwrite`) on every run — do not edit.
`data` is the destination buffer (`self.data`), `sdata` the source buffer; the result is the destination
buffer after the call.  `cloneFromSlice` / `crossRow` are the partial primitives of Model/Overwrite.lean
(undefined behaviour and panics are faults); integer arithmetic is checked (`uadd`, `umul`).
-/
import Matreex.Gen.Core
import Matreex.Model.Overwrite

namespace Matreex.Gen
open Matreex

"""


def run_overwrite(root):
    done, failed = [], []
    try:
        src = strip_rust_comments(open(f"{root}/lib.rs").read())
        body = translate_overwrite(src)
        done.append(LEAN_NAME)
    except Untranslatable as ex:
        failed.append((LEAN_NAME, str(ex)))
        body = None
    except Exception as ex:      # a malformed function must not stop the pipeline: report it, emit the stub
        failed.append((LEAN_NAME, f"not parsed ({type(ex).__name__}: {ex})"))
        body = None
    if body is None:
        # keep the file compiling: the bridge theorem about this function fails instead
        body = HEAD.format(src="source") + " :=\n  .error (.panic \"untranslatable\")\n"
    return HEADER + body + "\nend Matreex.Gen\n", done, failed


if __name__ == "__main__":
    root = sys.argv[1] if len(sys.argv) > 1 else "/repo/src"
    text, done, failed = run_overwrite(root)
    print(text)
    print(done, failed, file=sys.stderr)
