#!/usr/bin/env python3
"""Translator T4 ("iterator state machines"): the methods of the two mutable iterators of
src/iter/iter_mut.rs (`IterVectorsMut`, `IterNthVectorMut`) -> Lean 4 functions on the model's state
records (`Gen/IterMutGen.lean`), regenerated on every run.  The Lean term is derived from the Rust
statements; nothing is emitted from a template.  Anything outside the language below is reported
(`Untranslatable`), never guessed; the function then becomes a stub that faults, so the file still
compiles and the bridge lemma about it fails.

Types (a small checker assigns one to every expression; an operation applied to the wrong type is
untranslatable):  usize | NonNull<T> (an address) | *mut T (an address) | NonZero<usize> | &mut T
| Layout | IterNthVectorMut | IterVectorsMut | Option<_> | (_, _) | bool | &mut Matrix<T>.

Statements
    let x = EXPR;                               (no `let mut`, no patterns)
    let Some(x) = EXPR else { ...; return E; }; `match EXPR with | none => … | some x => rest`
    self.FIELD = EXPR;                          functional update of the state record (&mut self only)
    if COND { .. } [else { .. }]                statement: both branches may update the state record
    if COND { ...; return E; }                  early exit (top level of the function only)
    EXPR;                                       evaluated for its faults
    return E; / E                               result (for `&mut self` paired with the final state)
    #[cfg(feature = "verif-hooks")] crate::verif_hooks::record_ptr(..);     stripped (instrumentation)

Expressions
    integers, locals, self.FIELD, x.FIELD (Layout), t.0 / t.1, (a, b), Some(e), None
    + - * /                                     checked `uadd usub umul udiv` (as in T2)
    == != < > <= >=                             on two integers or two pointers
    ! && ||                                     on bool (right operand effect-free)
    if c { .. } else { .. } / match o { None => .., Some(x) => .. } / unsafe { .. } / { .. }   as values
    e?                                          on an Option, top level of the function only
    size_of::<T>()                              cfg.es
    p.add(n) / p.sub(n)                         ptrAdd / ptrSub            (Model/PtrPrims.lean)
    p.addr() , z.get() , without_provenance_mut(a)       the number itself
    NonNull::new_unchecked(raw)                 newUnchecked (UB for 0)
    NonZero::new_unchecked(n)                   nonZero (UB for 0)
    NonNull::dangling()                         cfg.dangling
    NonNull::dangling().as_mut()                danglingAsMut
    p.as_mut()                                  asMut
    n.checked_sub(m)                            checkedSub
    Self { .. } / Layout { .. }                 structure instances (`marker: PhantomData` dropped)
    T::f(..) / self.f(..)                       calls of functions translated earlier in this file
    matrix.is_empty() / .major() / .minor()     cfg.len = 0 / sh.major / sh.minor
    matrix.major_stride() / .minor_stride()     T2's Gen.AxisShape.major_stride / minor_stride
    matrix.data.as_mut_ptr()                    cfg.base
"""
import re, sys, os
sys.path.insert(0, os.path.dirname(os.path.abspath(__file__)))
from t2 import lex, find_fn, P, Untranslatable, strip_rust_comments

# ------------------------------------------------------------------ types
USIZE, PTR, RAW, NZ, REF, LAYOUT, NTH, VECS, BOOL, MATRIX, VEC = (
    "usize", "ptr", "raw", "nz", "ref", "layout", "nth", "vecs", "bool", "matrix", "vec")


def OPT(t): return ("opt", t)
def TUP(*ts): return ("tuple", list(ts))


LEAN_OF = {USIZE: "Nat", PTR: "Nat", RAW: "Nat", NZ: "Nat", REF: "Nat", LAYOUT: "Layout", NTH: "Nth",
           VECS: "Vecs", BOOL: "Bool", MATRIX: "AxisShape"}
RUST_STRUCT = {"IterVectorsMut": VECS, "IterNthVectorMut": NTH, "Layout": LAYOUT}
# the fields of the model's structures (Model/IterMut.lean); the Rust struct definitions are parsed
# and must agree with this table
STRUCTS = {
    VECS: {"lower": PTR, "upper": PTR, "layout": OPT(LAYOUT), "empty_vectors": USIZE},
    NTH: {"lower": PTR, "upper": PTR, "stride": OPT(NZ)},
    LAYOUT: {"axis_stride": NZ, "vector_stride": NZ, "vector_length": NZ},
}
ITEM = {VECS: NTH, NTH: REF}      # `type Item` of the Iterator impls (checked against the source)


def lean_ty(t, atom=False):
    if isinstance(t, tuple) and t[0] == "opt":
        s = "Option " + lean_ty(t[1], True)
    elif isinstance(t, tuple) and t[0] == "tuple":
        s = " × ".join(lean_ty(x, True) for x in t[1])
    else:
        return LEAN_OF[t]
    return f"({s})" if atom else s


def show_ty(t):
    if isinstance(t, tuple) and t[0] == "opt": return f"Option<{show_ty(t[1])}>"
    if isinstance(t, tuple) and t[0] == "tuple": return "(" + ", ".join(show_ty(x) for x in t[1]) + ")"
    return str(t)


def compat(a, b):
    """equal types; the literal `None` (Option of an unknown type) fits every Option"""
    if a == b: return True
    if isinstance(a, tuple) and isinstance(b, tuple) and a[0] == b[0] == "opt":
        return a[1] is None or b[1] is None or compat(a[1], b[1])
    if isinstance(a, tuple) and isinstance(b, tuple) and a[0] == b[0] == "tuple" and len(a[1]) == len(b[1]):
        return all(compat(x, y) for x, y in zip(a[1], b[1]))
    return False


def camel(s):
    parts = s.split("_")
    return parts[0] + "".join(p[:1].upper() + p[1:] for p in parts[1:])


def norm_ty(t, selfty):
    """parsed Rust type -> checker type"""
    if t[0] == "tuple": return TUP(*[norm_ty(x, selfty) for x in t[1]])
    if t[0] == "ref":
        inner = t[1]
        if inner == ("ty", "T", []): return REF
        if inner == ("ty", "Matrix", [("ty", "T", [])]): return MATRIX
        raise Untranslatable(f"reference type {inner}")
    name, args = t[1], t[2]
    if name == "usize" and not args: return USIZE
    if name == "bool" and not args: return BOOL
    if name == "NonNull" and args == [("ty", "T", [])]: return PTR
    if name == "NonZero" and args == [("ty", "usize", [])]: return NZ
    if name == "Option" and len(args) == 1: return OPT(norm_ty(args[0], selfty))
    if name == "Self" and not args and selfty: return selfty
    if name == "Self::Item" and not args and selfty in ITEM: return ITEM[selfty]
    if name in RUST_STRUCT and args in ([], [("ty", "T", [])]): return RUST_STRUCT[name]
    raise Untranslatable(f"type {name}{'<…>' if args else ''}")


# ------------------------------------------------------------------ source preparation
HOOK = re.compile(r'#\s*\[\s*cfg\s*\(\s*feature\s*=\s*"verif-hooks"\s*\)\s*\]\s*'
                  r'crate\s*::\s*verif_hooks\s*::\s*record_ptr\s*\(')


def strip_hooks(src):
    """remove the instrumentation statements `#[cfg(feature = "verif-hooks")] crate::verif_hooks::record_ptr(..);`"""
    out, i = [], 0
    while True:
        m = HOOK.search(src, i)
        if not m:
            out.append(src[i:]); break
        out.append(src[i:m.start()])
        j, depth = m.end(), 1
        while depth:
            if j >= len(src): raise Untranslatable("unterminated instrumentation call")
            c = src[j]
            if c == '"':
                j = src.index('"', j + 1)
            elif c == "(":
                depth += 1
            elif c == ")":
                depth -= 1
            j += 1
        m2 = re.compile(r"\s*;").match(src, j)
        if not m2: raise Untranslatable("instrumentation call is not a statement")
        i = m2.end()
    return "".join(out)


def braces(src, i):
    """src[i] == '{' -> index just after the matching '}'"""
    depth, j = 1, i + 1
    while depth:
        if j >= len(src): raise Untranslatable("unbalanced braces")
        depth += (src[j] == "{") - (src[j] == "}")
        j += 1
    return j


def impl_block(src, rust_ty, trait):
    """text of the body of `impl<..> [Trait for] Type<..> { .. }` (restricted to that block)"""
    if trait:
        rx = r"(?<![\w])impl\b\s*(<[^>{;]*>)?\s*" + trait + r"\s+for\s+" + rust_ty + r"\b[^{;]*\{"
    else:
        rx = r"(?<![\w])impl\b\s*(<[^>{;]*>)?\s*" + rust_ty + r"\b[^{;]*\{"
    ms = [m for m in re.finditer(rx, src) if not re.search(r"unsafe\s*$", src[:m.start()])]
    if len(ms) != 1:
        raise Untranslatable(f"{len(ms)} blocks `impl {trait + ' for ' if trait else ''}{rust_ty}`")
    m = ms[0]
    return src[m.end() - 1: braces(src, m.end() - 1)]


def fn_in(block, name):
    hits = re.findall(r"\bfn\s+" + re.escape(name) + r"\b", block)
    if len(hits) != 1: raise Untranslatable(f"{len(hits)} definitions of fn {name} in the impl block")
    return find_fn(block, None, name)


# ------------------------------------------------------------------ parser: T2's expressions + statements
class P4(P):
    def lifetime(self):
        if self.at("'"):
            self.next(); self.next(); return True
        return False

    def ty(self):
        if self.at("&"):
            self.next(); self.lifetime()
            if self.at("mut"): self.next()
            return ("ref", self.ty())
        if self.at("("):
            self.eat("("); xs = []
            while not self.at(")"):
                xs.append(self.ty())
                if self.at(","): self.next()
            self.eat(")"); return ("tuple", xs)
        k, v = self.next()
        if k != "id": raise Untranslatable(f"type starts with {v!r}")
        path = [v]
        while self.at("::"):
            self.next(); path.append(self.next()[1])
        args = []
        if self.at("<"):
            self.eat("<")
            while not self.at(">"):
                if not self.lifetime(): args.append(self.ty())
                if self.at(","): self.next()
            self.eat(">")
        return ("ty", "::".join(path), args)

    def fn4(self):
        self.eat("fn"); name = self.next()[1]
        if self.at("<"): raise Untranslatable("generic function")
        self.eat("("); params = []; selfmode = None
        while not self.at(")"):
            if self.at("&"):
                self.next(); self.lifetime()
                selfmode = "ref"
                if self.at("mut"): self.next(); selfmode = "mut"
                self.eat("self")
            else:
                if self.at("mut"): raise Untranslatable("mutable parameter")
                k, pname = self.next()
                if k != "id" or pname == "self": raise Untranslatable(f"parameter {pname!r}")
                self.eat(":"); params.append((pname, self.ty()))
            if self.at(","): self.next()
        self.eat(")")
        ret = None
        if self.at("->"):
            self.eat("->"); ret = self.ty()
        if not self.at("{"): raise Untranslatable(f"unexpected {self.peek()[1]!r} after the signature")
        body = self.block()
        if self.peek()[0] != "eof": raise Untranslatable("text after the function body")
        return {"name": name, "self": selfmode, "params": params, "ret": ret, "body": body}

    def ident(self):
        k, v = self.next()
        if k != "id": raise Untranslatable(f"identifier expected, got {v!r}")
        return v

    def block(self):
        self.eat("{"); stmts = []; tail = None
        while not self.at("}"):
            if tail is not None: raise Untranslatable("expression without `;` inside a block")
            if self.at(";"):
                self.next(); continue
            if self.at("let"):
                self.next()
                if self.at("mut"): raise Untranslatable("let mut")
                if self.at("Some") and self.peek(1)[1] == "(":
                    self.next(); self.eat("("); name = self.ident(); self.eat(")")
                    self.eat("="); e = self.expr(0, True)
                    self.eat("else"); els = self.block(); self.eat(";")
                    stmts.append(("letelse", name, e, els)); continue
                name = self.ident()
                if self.at(":"):
                    self.next(); self.ty()
                self.eat("="); e = self.expr(); self.eat(";")
                stmts.append(("let", name, e)); continue
            if self.at("return"):
                self.next(); e = None if self.at(";") else self.expr()
                if self.at(";"): self.next()
                if not self.at("}"): raise Untranslatable("code after return")
                stmts.append(("return", e)); continue
            blocklike = self.peek()[1] in ("if", "match", "unsafe", "{")
            e = self.expr()
            if self.at("="):
                self.next(); rhs = self.expr(); self.eat(";")
                stmts.append(("assign", e, rhs))
            elif self.at(";"):
                self.next(); stmts.append(("expr", e))
            elif self.at("}"):
                tail = e
            elif blocklike and e[0] in ("if", "match", "block"):
                stmts.append(("expr", e))
            else:
                raise Untranslatable(f"unexpected {self.peek()[1]!r} after an expression")
        self.eat("}")
        return ("block", stmts, tail)

    def atom(self, nostruct):
        k, v = self.peek()
        if v == "unsafe":
            self.next()
            if not self.at("{"): raise Untranslatable("unsafe without a block")
            return self.block()
        if v == "if":
            self.next(); c = self.expr(0, True); t = self.block(); f = None
            if self.at("else"):
                self.next()
                f = ("block", [], self.atom(nostruct)) if self.at("if") else self.block()
            return ("if", c, t, f)
        if v == "match":
            self.next(); scrut = self.expr(0, True); self.eat("{"); arms = []
            while not self.at("}"):
                if self.at("None"):
                    self.next(); pat = ("none",)
                elif self.at("Some"):
                    self.next(); self.eat("("); pat = ("some", self.ident()); self.eat(")")
                else:
                    raise Untranslatable(f"match pattern starting with {self.peek()[1]!r}")
                self.eat("=>"); arms.append((pat, self.expr()))
                if self.at(","): self.next()
            self.eat("}")
            return ("match", scrut, arms)
        if v in ("let", "return", "loop", "while", "for", "break", "continue", "move", "mut"):
            raise Untranslatable(f"`{v}` in expression position")
        return super().atom(nostruct)


# ------------------------------------------------------------------ emitter
NS = "Matreex.Gen.IterMut"
RESERVED = {"cfg", "self_", "sh", "pure", "some", "none", "uadd", "usub", "umul", "udiv", "ptrAdd", "ptrSub",
            "newUnchecked", "nonZero", "asMut", "danglingAsMut", "checkedSub", "decide", "do", "let", "if", "then",
            "else", "match", "with", "fun", "at", "from", "have", "show", "end", "open", "in", "by", "def", "theorem",
            "where", "structure", "instance", "deriving", "namespace", "section", "variable", "import", "Nat", "M",
            "Nth", "Vecs", "Layout", "Cfg", "Option", "Except", "true", "false", "not", "and", "or", "id", "Type",
            "Prop", "Sort", "forall", "exists", "calc", "then", "using", "this", "mut", "for", "try", "catch",
            "finally", "unless", "return", "break", "continue", "macro", "syntax", "notation", "set_option",
            "termination_by", "decreasing_by", "nomatch", "nofun", "suffices", "obtain", "rfl", "usizeMax", "Matreex",
            "data", "bind", "Bool", "AxisShape"}


def lean_name(rust_name):
    if rust_name == "_": return "_"
    if rust_name in RESERVED or re.fullmatch(r"t\d+", rust_name): return rust_name + "_r"
    return rust_name


class Em:
    """typed statement / expression emitter; the state record is the Lean variable `self_`"""

    def __init__(self, funcs, selfty, selfmode, ret):
        self.funcs = funcs          # callable functions translated earlier
        self.selfty, self.selfmode, self.ret = selfty, selfmode, ret
        self.n = 0
        self.env = {}               # rust local -> (lean term, type)
        self.lines, self.ind = [], 1
        self.top = True             # in the top-level statement sequence of the function (early exits allowed)
        self.can_assign = selfmode == "mut"

    # ---- plumbing
    def fresh(self):
        self.n += 1; return f"t{self.n}"

    def emit(self, s):
        self.lines.append("  " * self.ind + s)

    def bindm(self, rhs):
        t = self.fresh(); self.emit(f"let {t} ← {rhs}"); return t

    def pack(self, v):
        return f"pure ({v}, self_)" if self.selfmode == "mut" else f"pure {v}"

    def nested(self, run, can_assign):
        """run `run()` into a fresh `(do …)` two levels deeper; returns its text"""
        saved = (self.lines, self.ind, self.top, dict(self.env), self.can_assign)
        self.lines, self.ind, self.top, self.can_assign = [], self.ind + 2, False, can_assign
        try:
            res = run()
            text = "(do\n" + "\n".join(self.lines) + ")"
        finally:
            self.lines, self.ind, self.top, self.env, self.can_assign = saved
        return text, res

    def value_block(self, b):
        """a block used as a value: (text, type); the state record cannot change inside"""
        def run():
            self.stmts(b[1])
            if b[2] is None: raise Untranslatable("block without a value where a value is needed")
            v, t = self.ex(b[2]); self.emit(f"pure {v}"); return t
        return self.nested(run, False)

    def unit_block(self, b):
        """a block used as a statement: text evaluating to the (possibly updated) state record"""
        def run():
            sts = list(b[1])
            if b[2] is not None:
                if b[2][0] not in ("if", "block"): raise Untranslatable("value of a block is discarded")
                sts.append(("expr", b[2]))
            self.stmts(sts); self.emit("pure self_")
        return self.nested(run, self.can_assign)[0]

    def diverging_block(self, b):
        """a block that ends in `return E;`: text evaluating to the function's result"""
        def run():
            if b[2] is not None or not b[1] or b[1][-1][0] != "return":
                raise Untranslatable("block does not end in `return …;`")
            self.stmts(b[1][:-1]); self.result(b[1][-1][1])
        return self.nested(run, self.can_assign)[0]

    def result(self, e):
        if e is None: raise Untranslatable("return without a value")
        v, t = self.ex(e)
        if not compat(t, self.ret):
            raise Untranslatable(f"returns {show_ty(t)}, the signature says {show_ty(self.ret)}")
        self.emit(self.pack(v))

    # ---- statements
    def function_body(self, b):
        sts = list(b[1]); tail = b[2]
        if tail is None:
            if not sts or sts[-1][0] != "return": raise Untranslatable("function body has no result")
            tail = sts.pop()[1]
        self.stmts(sts)
        self.result(tail)

    def stmts(self, sts):
        for st in sts:
            k = st[0]
            if k == "let":
                v, t = self.ex(st[2]); name = lean_name(st[1])
                if t in (MATRIX, VEC): raise Untranslatable("local of matrix / vector type")
                self.emit(f"let {name} := {v}")
                if st[1] != "_": self.env[st[1]] = (name, t)
            elif k == "letelse":
                if not self.top: raise Untranslatable("let … else in a nested block")
                v, t = self.ex(st[2])
                if not (isinstance(t, tuple) and t[0] == "opt" and t[1] is not None):
                    raise Untranslatable(f"let Some(..) = … on {show_ty(t)}")
                els = self.diverging_block(st[3]); name = lean_name(st[1])
                self.emit(f"match {v} with"); self.emit(f"| none => {els}"); self.emit(f"| some {name} =>")
                self.ind += 1
                if st[1] != "_": self.env[st[1]] = (name, t[1])
            elif k == "assign":
                lhs = st[1]
                if not (lhs[0] == "field" and lhs[1] == ("path", ["self"])):
                    raise Untranslatable("assignment to something else than a field of self")
                if not self.can_assign: raise Untranslatable("assignment to self here")
                fields = STRUCTS[self.selfty]
                if lhs[2] not in fields: raise Untranslatable(f"unknown field self.{lhs[2]}")
                v, t = self.ex(st[2])
                if not compat(t, fields[lhs[2]]):
                    raise Untranslatable(f"self.{lhs[2]} : {show_ty(fields[lhs[2]])} is assigned a {show_ty(t)}")
                self.emit(f"let self_ := {{ self_ with {camel(lhs[2])} := {v} }}")
            elif k == "expr":
                e = st[1]
                if e[0] == "if":
                    self.if_stmt(e)
                elif e[0] == "block":
                    if not self.can_assign: raise Untranslatable("statement block in a function that cannot update self")
                    self.emit(f"let self_ ← {self.unit_block(e)}")
                else:
                    self.ex(e)          # value discarded, faults kept
            elif k == "return":
                raise Untranslatable("return in this position")
            else:
                raise Untranslatable(f"statement kind {k}")

    def if_stmt(self, e):
        c, t = self.ex(e[1])
        if t != BOOL: raise Untranslatable("condition is not a bool")
        tb, fb = e[2], e[3]
        if fb is None and tb[1] and tb[1][-1][0] == "return":
            if not self.top: raise Untranslatable("early return in a nested block")
            self.emit(f"if {c} then {self.diverging_block(tb)} else do")
            self.ind += 1
            return
        if not self.can_assign: raise Untranslatable("statement-level `if` in a function that cannot update self")
        tt = self.unit_block(tb)
        ft = self.unit_block(fb) if fb is not None else "(do pure self_)"
        self.emit(f"let self_ ← (if {c} then {tt}")
        self.emit(f"  else {ft})")

    # ---- expressions
    def ex(self, e):
        k = e[0]
        if k == "num": return str(e[1]), USIZE
        if k == "path":
            p = e[1]
            if len(p) == 1 and isinstance(p[0], str):
                if p[0] == "self":
                    if not self.selfmode: raise Untranslatable("self in an associated function")
                    return "self_", self.selfty
                if p[0] == "None": return "none", OPT(None)
                if p[0] in self.env: return self.env[p[0]]
                raise Untranslatable(f"unknown name {p[0]}")
            raise Untranslatable("path " + "::".join(map(str, p)))
        if k == "field":
            r, t = self.ex(e[1])
            if isinstance(t, str) and t in STRUCTS:
                if e[2] not in STRUCTS[t]: raise Untranslatable(f"unknown field .{e[2]} of {t}")
                return f"{r}.{camel(e[2])}", STRUCTS[t][e[2]]
            if isinstance(t, tuple) and t[0] == "tuple" and len(t[1]) == 2 and e[2] in ("0", "1"):
                return f"{r}.{int(e[2]) + 1}", t[1][int(e[2])]
            if t == MATRIX and e[2] == "data": return "data", VEC
            raise Untranslatable(f"field .{e[2]} of {show_ty(t)}")
        if k == "tuple":
            if len(e[1]) != 2: raise Untranslatable("tuple that is not a pair")
            xs = [self.ex(x) for x in e[1]]
            return "(" + ", ".join(x[0] for x in xs) + ")", TUP(*[x[1] for x in xs])
        if k == "struct":
            return self.struct(e)
        if k == "not":
            a, t = self.ex(e[1])
            if t != BOOL: raise Untranslatable("! on a non-bool")
            return f"(!{a})", BOOL
        if k == "bin":
            return self.binop(e)
        if k == "try":
            if not self.top: raise Untranslatable("`?` in a nested block")
            if not (isinstance(self.ret, tuple) and self.ret[0] == "opt"):
                raise Untranslatable("`?` in a function that does not return an Option")
            v, t = self.ex(e[1])
            if not (isinstance(t, tuple) and t[0] == "opt" and t[1] is not None):
                raise Untranslatable(f"`?` on {show_ty(t)}")
            x = self.fresh()
            self.emit(f"match {v} with"); self.emit(f"| none => {self.pack('none')}"); self.emit(f"| some {x} =>")
            self.ind += 1
            return x, t[1]
        if k == "block":
            if not e[1]:
                if e[2] is None: raise Untranslatable("empty block as a value")
                return self.ex(e[2])                       # `unsafe { E }` is `E`
            text, t = self.value_block(e)
            return self.bindm(text), t
        if k == "if":
            c, ct = self.ex(e[1])
            if ct != BOOL: raise Untranslatable("condition is not a bool")
            if e[3] is None: raise Untranslatable("`if` without `else` as a value")
            (tt, t1), (ft, t2) = self.value_block(e[2]), self.value_block(e[3])
            if not compat(t1, t2): raise Untranslatable(f"branches of different types {show_ty(t1)} / {show_ty(t2)}")
            x = self.fresh()
            self.emit(f"let {x} ← (if {c} then {tt}"); self.emit(f"  else {ft})")
            return x, (t2 if t1 == OPT(None) else t1)
        if k == "match":
            s, st = self.ex(e[1])
            if not (isinstance(st, tuple) and st[0] == "opt" and st[1] is not None):
                raise Untranslatable(f"match on {show_ty(st)}")
            pats = [a[0][0] for a in e[2]]
            if sorted(pats) != ["none", "some"]: raise Untranslatable("match arms are not exactly None / Some(_)")
            texts, tys = {}, {}
            for pat, body in e[2]:
                b = body if body[0] == "block" else ("block", [], body)
                saved = dict(self.env)
                if pat[0] == "some" and pat[1] != "_": self.env[pat[1]] = (lean_name(pat[1]), st[1])
                try:
                    texts[pat[0]], tys[pat[0]] = self.value_block(b)
                finally:
                    self.env = saved
                if pat[0] == "some": texts["binder"] = lean_name(pat[1])
            if not compat(tys["none"], tys["some"]): raise Untranslatable("match arms of different types")
            x = self.fresh()
            self.emit(f"let {x} ← (match {s} with")
            for pat, _ in e[2]:
                lhs = "none" if pat[0] == "none" else f"some {texts['binder']}"
                self.emit(f"  | {lhs} => {texts[pat[0]]}")
            self.lines[-1] += ")"
            return x, (tys["some"] if tys["none"] == OPT(None) else tys["none"])
        if k == "mcall":
            return self.mcall(e)
        if k == "call":
            return self.call(e)
        raise Untranslatable(f"expression kind {k}")

    def binop(self, e):
        op = e[1]
        if op in ("&&", "||"):
            a, ta = self.ex(e[2])
            n0, l0 = self.n, len(self.lines)
            b, tb = self.ex(e[3])
            if len(self.lines) != l0: raise Untranslatable("effectful right operand of && / ||")
            if ta != BOOL or tb != BOOL: raise Untranslatable(f"{op} on non-bools")
            return f"({a} {op} {b})", BOOL
        (a, ta), (b, tb) = self.ex(e[2]), self.ex(e[3])
        if op in ("+", "-", "*", "/"):
            if ta != USIZE or tb != USIZE:
                raise Untranslatable(f"`{op}` on {show_ty(ta)} and {show_ty(tb)} (only usize arithmetic)")
            f = {"+": "uadd", "-": "usub", "*": "umul", "/": "udiv"}[op]
            return self.bindm(f"{f} {a} {b}"), USIZE
        if op in ("==", "!=", "<", ">", "<=", ">="):
            if ta != tb or ta not in (USIZE, PTR, NZ):
                raise Untranslatable(f"`{op}` on {show_ty(ta)} and {show_ty(tb)}")
            sym = {"==": "=", "!=": "≠", "<": "<", ">": ">", "<=": "≤", ">=": "≥"}[op]
            return f"(decide ({a} {sym} {b}))", BOOL
        raise Untranslatable(f"operator {op}")

    def struct(self, e):
        path = e[1]
        if len(path) != 1: raise Untranslatable("struct path")
        if path[0] == "Self":
            if self.selfty is None: raise Untranslatable("Self outside an impl")
            t = self.selfty
        elif path[0] in RUST_STRUCT:
            t = RUST_STRUCT[path[0]]
        else:
            raise Untranslatable(f"struct {path[0]}")
        want = STRUCTS[t]; got = {}
        for f, v in e[2]:
            if f == "marker":
                if v != ("path", ["PhantomData"]): raise Untranslatable("marker is not PhantomData")
                continue
            if f not in want or f in got: raise Untranslatable(f"field {f} in a {t} literal")
            term, ty = self.ex(v)
            if not compat(ty, want[f]): raise Untranslatable(f"field {f} : {show_ty(want[f])} is given a {show_ty(ty)}")
            got[f] = term
        if set(got) != set(want): raise Untranslatable(f"missing fields in a {t} literal")
        # fields in the order of the model's structure
        return "({ " + ", ".join(f"{camel(f)} := {got[f]}" for f in want) + f" }} : {LEAN_OF[t]})", t

    def args(self, xs, want, what):
        vs = [self.ex(x) for x in xs]
        if len(vs) != len(want) or not all(compat(v[1], w) for v, w in zip(vs, want)):
            raise Untranslatable(f"{what}: arguments ({', '.join(show_ty(v[1]) for v in vs)}), "
                                 f"expected ({', '.join(show_ty(w) for w in want)})")
        return [v[0] for v in vs]

    def mcall(self, e):
        recv, name, xs = e[1], e[2], e[3]
        # NonNull::dangling().as_mut()
        if name == "as_mut" and not xs and recv == ("call", ["NonNull", "dangling"], []):
            return self.bindm("danglingAsMut cfg"), REF
        r, t = self.ex(recv)
        if t == PTR:
            if name in ("add", "sub"):
                (a,) = self.args(xs, [USIZE], f"NonNull::{name}")
                return self.bindm(f"{'ptrAdd' if name == 'add' else 'ptrSub'} cfg {r} {a}"), PTR
            if name == "addr" and not xs: return r, NZ
            if name == "as_mut" and not xs: return self.bindm(f"asMut cfg {r}"), REF
        if t == NZ and name == "get" and not xs: return r, USIZE
        if t == USIZE and name == "checked_sub":
            (a,) = self.args(xs, [USIZE], "checked_sub")
            return f"(checkedSub {r} {a})", OPT(USIZE)
        if t == MATRIX and not xs:
            if name == "is_empty": return "(decide (cfg.len = 0))", BOOL
            if name in ("major", "minor"): return f"{r}.{name}", USIZE
            if name in ("major_stride", "minor_stride"):
                return self.bindm(f"Matreex.Gen.AxisShape.{name} {r}"), USIZE
        if t == VEC and name == "as_mut_ptr" and not xs: return "cfg.base", RAW
        if isinstance(t, str) and t in (VECS, NTH) and recv == ("path", ["self"]):
            key = ("method", t, name)
            if key in self.funcs:
                lname, mode, want, ret = self.funcs[key]
                vs = self.args(xs, want, f"self.{name}")
                call = " ".join([f"{NS}.{lname}", "cfg", "self_"] + vs)
                if mode == "mut":
                    if not self.can_assign: raise Untranslatable(f"self.{name}() updates self here")
                    x = self.bindm(call); self.emit(f"let self_ := {x}.2")
                    return f"{x}.1", ret
                return self.bindm(call), ret
        raise Untranslatable(f"method .{name}/{len(xs)} on {show_ty(t)}")

    def call(self, e):
        p, xs = e[1], e[2]
        if p == ["size_of", ("targs", [("ty", "T", [])])] and not xs: return "cfg.es", USIZE
        if p == ["without_provenance_mut"]:
            (a,) = self.args(xs, [USIZE], "without_provenance_mut"); return a, RAW
        if p == ["NonNull", "new_unchecked"]:
            (a,) = self.args(xs, [RAW], "NonNull::new_unchecked"); return self.bindm(f"newUnchecked {a}"), PTR
        if p == ["NonZero", "new_unchecked"]:
            (a,) = self.args(xs, [USIZE], "NonZero::new_unchecked"); return self.bindm(f"nonZero {a}"), NZ
        if p == ["NonNull", "dangling"] and not xs: return "cfg.dangling", PTR
        if p == ["Some"] and len(xs) == 1:
            a, t = self.ex(xs[0]); return f"(some {a})", OPT(t)
        if len(p) == 2 and all(isinstance(s, str) for s in p):
            owner = p[0]
            if owner == "Self":
                owner = {v: k for k, v in RUST_STRUCT.items()}.get(self.selfty)
            key = ("assoc", owner, p[1])
            if key in self.funcs:
                lname, mode, want, ret = self.funcs[key]
                vs = self.args(xs, want, "::".join(p))
                return self.bindm(" ".join([f"{NS}.{lname}", "cfg"] + vs)), ret
        raise Untranslatable("call " + "::".join(str(s) if isinstance(s, str) else "<…>" for s in p))


# ------------------------------------------------------------------ jobs
# (rust type, trait of the impl block or None, rust fn, lean name, receiver, parameter types, result type)
# The signature is parsed from the source and must be the one given here (the bridge lemmas are
# about these Lean types); a stub of the same type is emitted when translation fails.
JOBS = [
    ("IterNthVectorMut", None, "empty", "Nth.empty", None, [], NTH),
    ("IterNthVectorMut", None, "assemble", "Nth.assemble", None, [PTR, NZ, NZ], NTH),
    ("IterNthVectorMut", "Iterator", "next", "Nth.next", "mut", [], OPT(REF)),
    ("IterNthVectorMut", "DoubleEndedIterator", "next_back", "Nth.nextBack", "mut", [], OPT(REF)),
    ("IterNthVectorMut", "Iterator", "size_hint", "Nth.sizeHint", "ref", [], TUP(USIZE, OPT(USIZE))),
    ("IterNthVectorMut", "ExactSizeIterator", "len", "Nth.len", "ref", [], USIZE),
    ("IterVectorsMut", None, "empty", "Vecs.empty", None, [USIZE], VECS),
    ("IterVectorsMut", None, "next_empty_vector", "Vecs.nextEmpty", "mut", [], OPT(NTH)),
    ("IterVectorsMut", None, "assemble", "Vecs.assemble", None, [PTR, NZ, NZ, NZ, NZ], VECS),
    ("IterVectorsMut", None, "over_major_axis", "Vecs.overMajor", None, [MATRIX], VECS),
    ("IterVectorsMut", None, "over_minor_axis", "Vecs.overMinor", None, [MATRIX], VECS),
    ("IterVectorsMut", "Iterator", "next", "Vecs.next", "mut", [], OPT(NTH)),
    ("IterVectorsMut", "DoubleEndedIterator", "next_back", "Vecs.nextBack", "mut", [], OPT(NTH)),
    ("IterVectorsMut", "Iterator", "size_hint", "Vecs.sizeHint", "ref", [], TUP(USIZE, OPT(USIZE))),
    ("IterVectorsMut", "ExactSizeIterator", "len", "Vecs.len", "ref", [], USIZE),
]


def signature(lname, selfty, selfmode, params, ret):
    ps = ["(cfg : Cfg)"]
    if selfmode: ps.append(f"(self_ : {LEAN_OF[selfty]})")
    ps += [f"({n} : {LEAN_OF[t]})" for n, t in params]
    r = lean_ty(ret, True)
    r = f"M ({lean_ty(ret, True)} × {LEAN_OF[selfty]})" if selfmode == "mut" else f"M {r}"
    return f"def {lname} {' '.join(ps)} : {r}"


def check_struct(src, rust_ty):
    """the Rust struct definition has exactly the fields of the model's structure"""
    m = re.search(r"\bstruct\s+" + rust_ty + r"\b[^{;]*\{", src)
    if not m: raise Untranslatable(f"struct {rust_ty} not found")
    body = src[m.end() - 1: braces(src, m.end() - 1)]
    body = re.sub(r"#\s*\[[^\]]*\]", "", body)
    p = P4(lex(body)); p.eat("{"); got = {}
    while not p.at("}"):
        if p.at("pub"):
            p.next()
            if p.at("("):
                while not p.at(")"): p.next()
                p.next()
        f = p.ident(); p.eat(":"); t = p.ty()
        if p.at(","): p.next()
        if f == "marker" and t[1] == "PhantomData": continue
        got[f] = norm_ty(t, None)
    want = STRUCTS[RUST_STRUCT[rust_ty]]
    if got != want:
        diff = sorted(set(got.items()) ^ set(want.items()), key=str)
        raise Untranslatable(f"struct {rust_ty} differs from the model's structure: " +
                             ", ".join(f"{f}: {show_ty(t)}" for f, t in diff))


def check_item(src, rust_ty):
    blk = impl_block(src, rust_ty, "Iterator")
    m = re.search(r"\btype\s+Item\s*=\s*([^;]+);", blk)
    if not m: raise Untranslatable(f"type Item of {rust_ty} not found")
    t = norm_ty(P4(lex(m.group(1))).ty(), None)
    if t != ITEM[RUST_STRUCT[rust_ty]]:
        raise Untranslatable(f"type Item of {rust_ty} is {show_ty(t)}")


def translate_fn(src, funcs, rust_ty, trait, name, lname, selfmode, ptypes, ret):
    selfty = RUST_STRUCT[rust_ty]
    text = fn_in(impl_block(src, rust_ty, trait), name)
    ast = P4(lex(text)).fn4()
    if ast["self"] != selfmode: raise Untranslatable(f"receiver is {ast['self']}, expected {selfmode}")
    got = [norm_ty(t, selfty) for _, t in ast["params"]]
    if got != ptypes:
        raise Untranslatable(f"parameters ({', '.join(map(show_ty, got))}), expected ({', '.join(map(show_ty, ptypes))})")
    if ast["ret"] is None or norm_ty(ast["ret"], selfty) != ret:
        raise Untranslatable(f"return type is not {show_ty(ret)}")
    em = Em(funcs, selfty, selfmode, ret)
    params = []
    for (pn, _), t in zip(ast["params"], ptypes):
        ln = "sh" if t == MATRIX else lean_name(pn)
        if ln in [x[0] for x in params]: raise Untranslatable("duplicate parameter name")
        em.env[pn] = (ln, t); params.append((ln, t))
    em.function_body(ast["body"])
    return signature(lname, selfty, selfmode, params, ret) + " := do\n" + "\n".join(em.lines) + "\n"


def stub(rust_ty, lname, selfmode, ptypes, ret):
    params = [(f"a{i + 1}", t) for i, t in enumerate(ptypes)]
    return (signature(lname, RUST_STRUCT[rust_ty], selfmode, params, ret) +
            " :=\n  .error (.panic \"untranslatable\")\n")


HEADER = """/-
GENERATED by translate/t4.py from /repo/src/iter/iter_mut.rs on every run — do not edit.
The methods of the two mutable iterators as functions on the state records of Model/IterMut.lean
(`Vecs` = IterVectorsMut, `Nth` = IterNthVectorMut, `Layout`): a pointer is its address, `self_` is the
iterator state; a `&mut self` method returns (result, final state).  The pointer operations are the
primitives of Model/PtrPrims.lean, integer arithmetic is checked (Prelude).  `len` is
`ExactSizeIterator::len`, `sizeHint` is `Iterator::size_hint`.
-/
import Matreex.Gen.Core
import Matreex.Model.PtrPrims

set_option linter.unusedVariables false

namespace Matreex.Gen.IterMut
open Matreex Matreex.IterMut

"""


def run_iter_mut(root):
    out, done, failed = [], [], []
    src, broken = None, {}
    try:
        src = strip_hooks(strip_rust_comments(open(f"{root}/iter/iter_mut.rs").read()))
    except (OSError, Untranslatable, ValueError) as ex:
        broken = {t: f"iter_mut.rs: {ex}" for t in RUST_STRUCT}
    if src is not None:
        for rt in ("IterVectorsMut", "IterNthVectorMut"):
            try:
                check_struct(src, rt)
                if rt == "IterVectorsMut": check_struct(src, "Layout")
                check_item(src, rt)
            except Exception as ex:
                broken[rt] = str(ex)
    funcs = {}
    for rust_ty, trait, name, lname, selfmode, ptypes, ret in JOBS:
        try:
            if rust_ty in broken: raise Untranslatable(broken[rust_ty])
            out.append(translate_fn(src, funcs, rust_ty, trait, name, lname, selfmode, ptypes, ret))
            done.append(f"IterMut.{lname}")
        except Untranslatable as ex:
            failed.append((f"IterMut.{lname}", str(ex)))
            out.append(stub(rust_ty, lname, selfmode, ptypes, ret))
        except Exception as ex:      # a malformed function must not stop the pipeline: report it, emit the stub
            failed.append((f"IterMut.{lname}", f"not parsed ({type(ex).__name__}: {ex})"))
            out.append(stub(rust_ty, lname, selfmode, ptypes, ret))
        # later functions may call this one (the stub if it could not be translated)
        key = ("method", RUST_STRUCT[rust_ty], name) if selfmode else ("assoc", rust_ty, name)
        funcs[key] = (lname, selfmode, ptypes, ret)
    # the model takes the PROVIDED definitions of every other Iterator / DoubleEndedIterator / ExactSizeIterator method
    # (nth = n calls of next and one more, fold = next until None, ...): an override in the source is outside it
    if src is not None:
        for m in re.finditer(r"impl\s*<[^{]*?>\s*(Iterator|DoubleEndedIterator|ExactSizeIterator)\s+for\s+(IterVectorsMut|IterNthVectorMut)\b[^{]*\{", src):
            depth, i = 1, m.end()
            while i < len(src) and depth:
                depth += {"{": 1, "}": -1}.get(src[i], 0); i += 1
            body = src[m.end():i]
            d, j, top = 0, 0, []
            for fm in re.finditer(r"[{}]|\bfn\s+([A-Za-z_0-9]+)", body):
                if fm.group(0) == "{": d += 1
                elif fm.group(0) == "}": d -= 1
                elif d == 0: top.append(fm.group(1))
            allowed = {"Iterator": {"next", "size_hint"}, "DoubleEndedIterator": {"next_back"}, "ExactSizeIterator": {"len"}}[m.group(1)]
            for name in top:
                if name not in allowed:
                    failed.append((f"IterMut.override:{m.group(2)}.{name}",
                                   f"`{m.group(1)}::{name}` is overridden for {m.group(2)}; the model and the theorems of C03 / C06 / C17 take the provided definition"))
    return HEADER + "\n".join(out) + "\nend Matreex.Gen.IterMut\n", done, failed


if __name__ == "__main__":
    root = sys.argv[1] if len(sys.argv) > 1 else "/repo/src"
    text, done, failed = run_iter_mut(root)
    print(text)
    print(done, failed, file=sys.stderr)
