#!/usr/bin/env python3
"""Translators T1: tables re-extracted from /repo/src on every run and written as Lean data into
lean/Matreex/Gen/*.lean.  Theorems in Props/ quantify over all rows of these tables.

    t1.py <repo-src-dir> <gen-dir>      prints a JSON report; rewrites a file only if it changed
"""
import json, os, re, sys

def strip_comments(src):
    src = re.sub(r"/\*.*?\*/", "", src, flags=re.S)
    return re.sub(r"//[^\n]*", "", src)

def fn_body(src, impl_hint, name, start=0):
    """text of fn `name` (first occurrence after the impl_hint match, if any)"""
    if impl_hint:
        m = re.search(impl_hint, src)
        if not m:
            return None
        start = m.end()
    m = re.compile(r"fn\s+" + re.escape(name) + r"\b").search(src, start)
    if not m:
        return None
    i = src.index("{", m.end())
    depth, j = 1, i + 1
    while depth:
        depth += (src[j] == "{") - (src[j] == "}")
        j += 1
    return src[m.start():j]

def write_if_changed(path, text):
    if os.path.exists(path) and open(path).read() == text:
        return False
    open(path, "w").write(text)
    return True

def match_or_panic(text, call_pat):
    """`match <call> { Err(e) => panic!("{e}"), Ok(v) => v }` in either arm order, any binder names (an optional
    `::std::` path before panic!); returns the regex match of <call> (groups of call_pat) or None"""
    m = re.fullmatch(r"match (?P<call>" + call_pat + r") \{ (?P<a1>\w+)\((?P<b1>\w+)\) => (?P<r1>[^,]+), (?P<a2>\w+)\((?P<b2>\w+)\) => (?P<r2>[^,]+),? \}", text)
    if not m:
        return None
    arms = {m.group("a1"): (m.group("b1"), m.group("r1").strip()), m.group("a2"): (m.group("b2"), m.group("r2").strip())}
    if set(arms) != {"Ok", "Err"}:
        return None
    ok_b, ok_r = arms["Ok"]; err_b, err_r = arms["Err"]
    if ok_r != ok_b:
        return None
    if not re.fullmatch(r"(?:::std::)?panic!\(\"\{" + re.escape(err_b) + r"\}\"\)", err_r):
        return None
    return m

# ------------------------------------------------------------------ AllocOrder (C08)
ALLOC_JOBS = [
    # (lean name, file, impl hint, fn, kind)
    ("with_default", "construct.rs", None, "with_default", "shapeTaking"),
    ("with_value", "construct.rs", None, "with_value", "shapeTaking"),
    ("with_initializer", "construct.rs", None, "with_initializer", "shapeTaking"),
    ("resize", "lib.rs", None, "resize", "shapeTaking"),
    ("try_from_array_of_vecs", "convert.rs", r"TryFrom<\[Vec<T>;\s*C\]>\s*for\s*Matrix<T>", "try_from", "shapeTaking"),
    ("try_from_vec_of_vecs", "convert.rs", r"TryFrom<Vec<Vec<T>>>\s*for\s*Matrix<T>", "try_from", "shapeTaking"),
    ("try_from_slice_of_vecs", "convert.rs", r"TryFrom<&\[Vec<T>\]>\s*for\s*Matrix<T>", "try_from", "shapeTaking"),
    ("map", "lib.rs", None, "map", "mapping"),
    ("map_ref", "lib.rs", None, "map_ref", "mapping"),
    ("elementwise_operation", "arithmetic.rs", None, "elementwise_operation", "mapping"),
    ("elementwise_operation_consume_self", "arithmetic.rs", None, "elementwise_operation_consume_self", "mapping"),
    ("scalar_operation", "arithmetic.rs", None, "scalar_operation", "mapping"),
    ("scalar_operation_consume_self", "arithmetic.rs", None, "scalar_operation_consume_self", "mapping"),
    ("par_map", "parallel.rs", None, "par_map", "mapping"),
    ("par_map_ref", "parallel.rs", None, "par_map_ref", "mapping"),
    ("multiplication_like_operation", "arithmetic.rs", None, "multiplication_like_operation", "product"),
    ("multiply", "arithmetic/mul.rs", None, "multiply", "product"),
]
EVENTS = [
    ("conformable", r"ensure_\w*conformable\s*\([^;]*?\)\s*\?"),
    ("sizeCheck", r"try_to_axis_shape\s*\([^;]*?\)\s*\?"),
    ("capacityCheck", r"check_size\s*\([^;]*?\)\s*\?"),
    ("alloc", r"Vec::with_capacity\s*\(|vec!\s*\[|\.collect\s*\(\s*\)|\.resize_with\s*\(|\.extend\s*\(|\.extend_from_slice\s*\(|\.push\s*\("),
]

def alloc_order(root):
    rows, missing, caps = [], [], []
    for lean_name, f, hint, fn, kind in ALLOC_JOBS:
        try:
            src = strip_comments(open(os.path.join(root, f)).read())
        except OSError:
            missing.append(lean_name); continue
        body = fn_body(src, hint, fn)
        if body is None:
            missing.append(lean_name); continue
        found = []
        for ev, pat in EVENTS:
            for m in re.finditer(pat, body):
                found.append((m.start(), ev))
        found.sort()
        rows.append((lean_name, kind, [e for _, e in found]))
        # the argument is recorded with simple `let x = e;` bindings of the function resolved (so an
        # introduced local does not change the row), spaces normalised
        lets = {m.group(1): re.sub(r"\s+", " ", m.group(2)).strip()
                for m in re.finditer(r"\blet\s+(?:mut\s+)?(\w+)\s*(?::\s*[\w:<>]+\s*)?=\s*([^;{}]*?)\s*;", body)}
        for m in re.finditer(r"([\w:<>]+?)::check_size\s*\(([^;]*?)\)\s*\?", body):
            arg = re.sub(r"\s+", " ", m.group(2)).strip()
            for _ in range(4):
                if arg in lets and "check_size" not in lets[arg]:
                    arg = lets[arg]
            # the local holding the converted (axis) shape is called `shape` in the row, whatever its name
            for am in re.finditer(r"\blet\s+(\w+)\s*(?::\s*[\w:<>]+\s*)?=[^;]*axis_shape[^;]*;", body):
                arg = re.sub(r"\b" + re.escape(am.group(1)) + r"\b", "shape", arg)
            caps.append((lean_name, m.group(1), arg))
    lines = ["-- GENERATED by translate/t1.py from /repo/src — do not edit",
             "namespace Matreex.Gen",
             "inductive AllocEvent | conformable | sizeCheck | capacityCheck | alloc deriving Repr, DecidableEq, BEq",
             "inductive AllocKind | shapeTaking | mapping | product deriving Repr, DecidableEq",
             "structure AllocFn where",
             "  name : String",
             "  kind : AllocKind",
             "  events : List AllocEvent",
             "  deriving Repr",
             "",
             "/-- the functions C08 names (fixed list; the *rows* below are what the source contains) -/",
             "def expectedAllocFns : List String := [" + ", ".join(f'"{j[0]}"' for j in ALLOC_JOBS) + "]",
             "",
             "def allocFns : List AllocFn := ["]
    for i, (n, k, evs) in enumerate(rows):
        lines.append(f'  ⟨"{n}", .{k}, [' + ", ".join("." + e for e in evs) + "]⟩" + ("," if i + 1 < len(rows) else ""))
    lines += ["]", "", "/-- every capacity check: (function, the type whose element size is used, the element count passed) -/",
              "def allocCapacityChecks : List (String × String × String) := ["]
    lines.append(",\n".join(f'  ("{a}", "{b}", "{c}")' for a, b, c in caps))
    lines += ["]", "end Matreex.Gen", ""]
    return "\n".join(lines), {"rows": len(rows), "missing": missing}


# ------------------------------------------------------------------ ScalarForms (C18)
OPS = {"add": ("Add", "+"), "sub": ("Sub", "-"), "mul": ("Mul", "*"), "div": ("Div", "/"), "rem": ("Rem", "%")}

def macro_body(src, name):
    m = re.search(r"macro_rules!\s+" + re.escape(name) + r"\s*\{", src)
    if not m:
        return None
    i = m.end(); depth = 1
    while depth:
        c = src[i]
        depth += (c == "{") - (c == "}")
        i += 1
    return src[m.end():i - 1]

S_IMPL = re.compile(r"impl\s+(?P<trait>\w+)<(?P<rhs>[^>]*(?:<[^>]*>)?[^>]*)>\s+for\s+(?P<self>[^\{]+?)\s*\{(?P<body>.*?)\n\s{12}\}\n", re.S)
S_CALL = re.compile(r"(?P<recv>\w+)\.(?P<method>scalar_operation\w*)\(\s*(?P<arg>&\s*\w+)\s*,\s*\|(?P<p1>\w+),\s*(?P<p2>\w+)\|\s*(?P<expr>[^)]*?)\)\s*[;{}\n]", re.S)

def norm_binop(expr, p1, p2, sym, roles):
    """normalise `a op b` / `a op= b` (derefs and .clone() erased); returns (op, lhsRole, rhsRole, assign)"""
    e = expr.replace(".clone()", "")
    e = re.sub(r"(^|[\s(])\*(\w)", r"\1\2", e)      # leading deref
    e = re.sub(re.escape(sym) + r"(=?)\s*\*(\w)", sym + r"\1 \2", e)   # deref of the right operand
    e = e.strip()
    m = re.fullmatch(r"(\w+)\s*([-+*/%])(=?)\s*(\w+)", e)
    if not m:
        return None
    a, op, eq, b = m.groups()
    if a not in roles or b not in roles:
        return None
    return op, roles[a], roles[b], bool(eq)

def scalar_forms(root):
    rows, types, problems = [], {}, []
    for mod, (trait, sym) in OPS.items():
        try:
            src = strip_comments(open(os.path.join(root, "arithmetic", mod + ".rs")).read())
        except OSError:
            problems.append((mod, "file missing")); continue
        helper = macro_body(src, "impl_helper")
        outer = macro_body(src, f"impl_primitive_scalar_{mod}")
        inv = re.search(r"impl_primitive_scalar_" + mod + r"!\s*\{([^}]*)\}", src)
        if helper is None or outer is None or not inv:
            problems.append((mod, "macro or invocation not found")); continue
        types[mod] = inv.group(1).split()
        tuples = re.findall(r"\(\s*(&?)\$t\s*,\s*(&?)\$t\s*,\s*\$t\s*\)", outer)
        for where, text in (("helper", helper), ("outer", outer)):
            for m in S_IMPL.finditer(text):
                c = S_CALL.search(m.group("body"))
                if not c:
                    if "impl_helper" in m.group(0):
                        continue
                    problems.append((mod, m.group("trait") + ": no scalar_operation call")); continue
                n = norm_binop(c.group("expr"), c.group("p1"), c.group("p2"), sym, {c.group("p1"): "element", c.group("p2"): "scalar"})
                if n is None:
                    problems.append((mod, m.group("trait") + ": closure body not of the form `x op y`: " + c.group("expr"))); continue
                self_ty, rhs_ty = m.group("self").strip(), m.group("rhs").strip()
                matrix_left = "Matrix" in self_ty
                panics = bool(re.search(r"Err\(\w+\)\s*=>\s*panic!", m.group("body")))
                rows.append(dict(module=mod, trait=m.group("trait"), matrixOnLeft=matrix_left,
                                 matrixOwned=not (self_ty if matrix_left else rhs_ty).startswith("&"),
                                 method=c.group("method"), receiver=c.group("recv"), scalarArg=c.group("arg").replace(" ", ""),
                                 op=n[0], lhs=n[1], rhs=n[2], assign=n[3], panicsOnErr=panics,
                                 nElemForms=len(tuples) if where == "helper" else 1))
    b = lambda x: "true" if x else "false"
    out = ["-- GENERATED by translate/t1.py from /repo/src/arithmetic/*.rs — do not edit",
           "namespace Matreex.Gen", "",
           "inductive Role | element | scalar deriving DecidableEq, Repr",
           "structure ScalarForm where",
           "  module : String", "  trait : String", "  matrixOnLeft : Bool", "  matrixOwned : Bool",
           "  method : String", "  receiver : String", "  scalarArg : String",
           "  op : String", "  lhs : Role", "  rhs : Role", "  assign : Bool", "  panicsOnErr : Bool", "  nElemForms : Nat",
           "  deriving DecidableEq, Repr", "",
           "def scalarForms : List ScalarForm := ["]
    for i, r in enumerate(rows):
        out.append(f'  ⟨"{r["module"]}", "{r["trait"]}", {b(r["matrixOnLeft"])}, {b(r["matrixOwned"])}, '
                   f'"{r["method"]}", "{r["receiver"]}", "{r["scalarArg"]}", "{r["op"]}", .{r["lhs"]}, .{r["rhs"]}, '
                   f'{b(r["assign"])}, {b(r["panicsOnErr"])}, {r["nElemForms"]}⟩' + ("," if i + 1 < len(rows) else ""))
    out += ["]", ""]
    for mod in OPS:
        out.append(f'def primTypes_{mod} : List String := [' + ", ".join(f'"{t}"' for t in types.get(mod, [])) + "]")
    out += ["", "end Matreex.Gen", ""]
    return "\n".join(out), {"rows": len(rows), "problems": problems,
                            "impls_generated": sum(r["nElemForms"] * len(types.get(r["module"], [])) for r in rows)}

# ------------------------------------------------------------------ ElementwiseForms (C12, C09)
E_METHOD = re.compile(r"pub\s+fn\s+(?P<name>elementwise_(?P<op>add|sub|mul|div|rem)(?P<variant>_consume_self|_assign)?)\s*<[^>]*>\s*\((?P<params>[^)]*)\)[^{]*\{\s*self\.(?P<delegate>elementwise_operation\w*)\(\s*rhs\s*,\s*\|(?P<p1>\w+),\s*(?P<p2>\w+)\|\s*(?P<expr>[^)]*(?:\(\))?[^)]*(?:\(\))?[^)]*?)\)\s*\}", re.S)
M_IMPL = re.compile(r"impl<[^>]*>\s+(?P<trait>Add|Sub|AddAssign|SubAssign|Mul)<(?P<rhs>&?Matrix<R>)>\s+for\s+(?P<self>&?Matrix<L>)\s*where[^{]*\{(?P<body>.*?)\n\}\n", re.S)

def elementwise_forms(root):
    methods, operators, problems = [], [], []
    for mod, (trait, sym) in OPS.items():
        try:
            src = strip_comments(open(os.path.join(root, "arithmetic", mod + ".rs")).read())
        except OSError:
            problems.append((mod, "file missing")); continue
        src = src.split("#[cfg(test)]")[0]
        found = set()
        for m in E_METHOD.finditer(src):
            n = norm_binop(m.group("expr"), m.group("p1"), m.group("p2"), sym, {m.group("p1"): "left", m.group("p2"): "right"})
            if n is None:
                problems.append((mod, m.group("name") + ": closure body not of the form `x op y`: " + m.group("expr"))); continue
            methods.append(dict(module=mod, name=m.group("name"), variant=(m.group("variant") or "_ref").lstrip("_"),
                                delegate=m.group("delegate"), op=n[0], lhs=n[1], rhs=n[2], assign=n[3]))
            found.add(m.group("variant") or "")
        for v in ("", "_consume_self", "_assign"):
            if v not in found:
                problems.append((mod, f"method elementwise_{mod}{v} not found or not of the expected form"))
        for m in M_IMPL.finditer(src):
            tr = m.group("trait")
            if tr == "Mul":
                continue            # the matrix product: C11
            body = m.group("body")
            fb = re.search(r"fn\s+\w+\s*\([^)]*\)[^{]*\{(.*)\}\s*$", body, re.S)
            text = re.sub(r"\s+", " ", fb.group(1)).strip() if fb else ""
            row = dict(module=mod, trait=tr, selfOwned=not m.group("self").startswith("&"), rhsOwned=not m.group("rhs").startswith("&"))
            fwd = re.fullmatch(r"(\*?)self\s*([-+])(=?)\s*&rhs;?", text)
            call = match_or_panic(text, r"self\.(\w+)\(rhs\)")
            if call:
                call = re.fullmatch(r"self\.(\w+)\(rhs\)", call.group("call"))
            calla = re.fullmatch(r"if let Err\((\w+)\) = self\.(\w+)\(rhs\) \{ panic!\(\"\{(\w+)\}\"\); \}", text)
            if calla and calla.group(1) == calla.group(3):
                calla = re.fullmatch(r"self\.(\w+)\(rhs\)", "self." + calla.group(2) + "(rhs)")
            else:
                calla = None
            if fwd:
                row.update(kind="forwardToBorrowedRhs", method="", op=fwd.group(2))
            elif call:
                row.update(kind="callPanicOnErr", method=call.group(1), op=sym)
            elif calla:
                row.update(kind="callPanicOnErr", method=calla.group(1), op=sym)
            else:
                problems.append((mod, f"operator impl {tr} for {m.group('self')}: body not recognised: {text[:80]}")); continue
            operators.append(row)
    b = lambda x: "true" if x else "false"
    out = ["-- GENERATED by translate/t1.py from /repo/src/arithmetic/*.rs — do not edit",
           "namespace Matreex.Gen", "",
           "inductive Side | left | right deriving DecidableEq, Repr",
           "structure ElementwiseMethod where",
           "  module : String", "  name : String", "  variant : String", "  delegate : String",
           "  op : String", "  lhs : Side", "  rhs : Side", "  assign : Bool",
           "  deriving DecidableEq, Repr", "",
           "inductive OperatorBody | forwardToBorrowedRhs | callPanicOnErr deriving DecidableEq, Repr",
           "structure MatrixOperator where",
           "  module : String", "  trait : String", "  selfOwned : Bool", "  rhsOwned : Bool",
           "  kind : OperatorBody", "  method : String", "  op : String",
           "  deriving DecidableEq, Repr", "",
           "def elementwiseMethods : List ElementwiseMethod := ["]
    for i, r in enumerate(methods):
        out.append(f'  ⟨"{r["module"]}", "{r["name"]}", "{r["variant"]}", "{r["delegate"]}", "{r["op"]}", .{r["lhs"]}, .{r["rhs"]}, {b(r["assign"])}⟩'
                   + ("," if i + 1 < len(methods) else ""))
    out += ["]", "", "def matrixOperators : List MatrixOperator := ["]
    for i, r in enumerate(operators):
        out.append(f'  ⟨"{r["module"]}", "{r["trait"]}", {b(r["selfOwned"])}, {b(r["rhsOwned"])}, .{r["kind"]}, "{r["method"]}", "{r["op"]}"⟩'
                   + ("," if i + 1 < len(operators) else ""))
    out += ["]", "", "end Matreex.Gen", ""]
    return "\n".join(out), {"methods": len(methods), "operators": len(operators), "problems": problems}

# ------------------------------------------------------------------ NegForms (C18)
N_IMPL = re.compile(r"impl<[^>]*>\s+Neg\s+for\s+(?P<self>&?Matrix<T>)\s*where[^{]*\{(?P<body>.*?)\n\}\n", re.S)

def neg_forms(root):
    rows, problems = [], []
    try:
        src = strip_comments(open(os.path.join(root, "arithmetic", "neg.rs")).read())
    except OSError:
        return "", {"rows": 0, "problems": [("neg", "file missing")]}
    for m in N_IMPL.finditer(src):
        body = re.sub(r"\s+", " ", m.group("body"))
        c = None
        inner = re.search(r"\{ (match .*\}) \}$", body)
        mp = match_or_panic(inner.group(1), r"self\.(?:map|map_ref)\(\|\w+\| \w+(?:\.clone\(\))?\.neg\(\)\)") if inner else None
        if mp:
            c = re.fullmatch(r"self\.(map|map_ref)\(\|(\w+)\| (\w+)(\.clone\(\))?\.neg\(\)\)", mp.group("call"))
        if not c or c.group(2) != c.group(3):
            problems.append(("neg", "impl for " + m.group("self") + ": body not recognised")); continue
        rows.append((not m.group("self").startswith("&"), c.group(1), bool(c.group(4))))
    b = lambda x: "true" if x else "false"
    out = ["-- GENERATED by translate/t1.py from /repo/src/arithmetic/neg.rs — do not edit",
           "namespace Matreex.Gen", "",
           "structure NegForm where", "  selfOwned : Bool", "  delegate : String", "  clonesElement : Bool",
           "  deriving DecidableEq, Repr", "",
           "def negForms : List NegForm := [" + ", ".join(f'⟨{b(o)}, "{d}", {b(c)}⟩' for o, d, c in rows) + "]", "",
           "end Matreex.Gen", ""]
    return "\n".join(out), {"rows": len(rows), "problems": problems}

# ------------------------------------------------------------------ Macros (C19)
def macros(root):
    try:
        src = strip_comments(open(os.path.join(root, "macros.rs")).read())
    except OSError:
        return "", {"rows": 0, "problems": ["macros.rs missing"]}
    rows, problems = [], []
    for name in ("matrix", "row_vec", "col_vec"):
        body = macro_body(src, name)
        if body is None:
            problems.append(name + ": macro not found"); continue
        # arms: `[pattern] => { expansion };`
        for m in re.finditer(r"\[(?P<pat>(?:[^\[\]]|\[[^\]]*\])*)\]\s*=>\s*\{(?P<exp>.*?)\}\s*;", body, re.S):
            pat = re.sub(r"\s+", " ", m.group("pat")).strip()
            exp = re.sub(r"\s+", " ", m.group("exp")).strip()
            # metavariable names do not matter: rename them canonically by the shape of the pattern
            shape = re.sub(r"\$\w+:expr", "$_:expr", pat)
            canon = {"[$_:expr; $_:expr]; $_:expr": ("elem", "ncols", "nrows"),
                     "[$($_:expr),+ $(,)?]; $_:expr": ("elem", "nrows"),
                     "$_:expr; $_:expr": ("elem", "n")}.get(shape)
            names = re.findall(r"\$(\w+):expr", pat)
            if canon is None and len(names) == 1:
                canon = ("row",) if name == "matrix" else ("elem",)
            if canon and len(canon) == len(names) and len(set(names)) == len(names):
                for k, old_name in enumerate(names):
                    pat = re.sub(r"\$" + old_name + r"\b", "$\x00" + str(k), pat); exp = re.sub(r"\$" + old_name + r"\b", "$\x00" + str(k), exp)
                for k, new_name in enumerate(canon):
                    pat = pat.replace("$\x00" + str(k), "$" + new_name); exp = exp.replace("$\x00" + str(k), "$" + new_name)
            # binder names of the panicking match do not matter either
            mp = re.search(r"match (.*) \{ (\w+)\((\w+)\) => ([^,]+), (\w+)\((\w+)\) => ([^,]+),? \}", exp)
            if mp:
                arms = {mp.group(2): (mp.group(3), mp.group(4).strip()), mp.group(5): (mp.group(6), mp.group(7).strip())}
                if set(arms) == {"Ok", "Err"} and arms["Ok"][1] == arms["Ok"][0] and re.fullmatch(r"(?:::std::)?panic!\(\"\{" + arms["Err"][0] + r"\}\"\)", arms["Err"][1]):
                    exp = "match " + mp.group(1) + ' { Err(error) => ::std::panic!("{error}"), Ok(matrix) => matrix, }'
            if pat == "":
                label = "empty"
            elif re.fullmatch(r"\[\$elem:expr; \$ncols:expr\]; \$nrows:expr", pat):
                label = "[[elem; ncols]; nrows]"
            elif re.fullmatch(r"\[\$\(\$elem:expr\),\+ \$\(,\)\?\]; \$nrows:expr", pat):
                label = "[[elems..]; nrows]"
            elif re.fullmatch(r"\$\(\$row:expr\),\+ \$\(,\)\?", pat):
                label = "[rows..]"
            elif re.fullmatch(r"\$elem:expr; \$n:expr", pat):
                label = "[elem; n]"
            elif re.fullmatch(r"\$\(\$elem:expr\),\+ \$\(,\)\?", pat):
                label = "[elems..]"
            else:
                label = "?" + pat
            if re.search(r"\$crate::Matrix::new\(\)", exp): ctor = "Matrix::new"
            elif re.search(r"\$crate::Matrix::with_value\(\(\$nrows, \$ncols\), \$elem\)", exp) and "panic!" in exp: ctor = "Matrix::with_value"
            elif re.search(r"\$crate::Matrix::from\(::std::vec!\[\[\$\(\$elem\),\+\]; \$nrows\]\)", exp): ctor = "Matrix::from(vec![[..]; nrows])"
            elif re.search(r"\$crate::Matrix::from\(\[\$\(\$row\),\+\]\)", exp): ctor = "Matrix::from([rows..])"
            elif re.search(r"\$crate::Matrix::from_row\(::std::vec!\[", exp): ctor = "Matrix::from_row"
            elif re.search(r"\$crate::Matrix::from_col\(::std::vec!\[", exp): ctor = "Matrix::from_col"
            else: ctor = "?" + exp[:60]
            rows.append((name, label, ctor))
    out = ["-- GENERATED by translate/t1.py from /repo/src/macros.rs — do not edit",
           "namespace Matreex.Gen", "",
           "structure MacroArm where", "  macroName : String", "  pattern : String", "  expandsTo : String",
           "  deriving DecidableEq, Repr", "",
           "def macroArms : List MacroArm := ["]
    for i, (a, b, c) in enumerate(rows):
        out.append(f'  ⟨"{a}", "{b}", "{c}"⟩' + ("," if i + 1 < len(rows) else ""))
    out += ["]", "", "end Matreex.Gen", ""]
    return "\n".join(out), {"rows": len(rows), "problems": problems}

# ------------------------------------------------------------------ ParForms (C16)
PAR_FNS = ["par_apply", "par_map", "par_map_ref", "par_iter_elements", "par_iter_elements_mut", "into_par_iter_elements",
           "par_iter_elements_with_index", "par_iter_elements_mut_with_index", "into_par_iter_elements_with_index"]

def par_forms(root):
    """every public function of parallel.rs as a row (source iterator over the element vector, enumerate?, the index
    expression, the capacity guard, the terminal adaptor, whether order/shape are copied from self).  A body that is
    not one of the recognised thin-wrapper forms is a problem (the table row says `unrecognised`)."""
    try:
        full = strip_comments(open(os.path.join(root, "parallel.rs")).read())
    except OSError:
        return "", {"rows": 0, "problems": ["parallel.rs missing"]}
    src = full.split("#[cfg(test)]")[0]
    rows, problems = [], []
    names = re.findall(r"pub fn (\w+)", src)
    for extra in [n for n in names if n not in PAR_FNS]:
        problems.append(extra + ": public function of parallel.rs not in the model")
    for name in PAR_FNS:
        text = fn_body(src, None, name)
        if text is None:
            problems.append(name + ": not found"); rows.append((name, "missing", False, "", "", "", False)); continue
        body = re.sub(r"\s+", " ", text[text.index("{", text.index(")")):]).strip()
        body = re.sub(r"^\{ ?| ?\}$", "", body)
        guard = ""
        g = re.match(r"Matrix::<U>::check_size\((?P<arg>[^;]*?)\)\?; ", body)
        if g:
            guard = g.group("arg"); body = body[g.end():]
        copies = False
        # `let x = e;` bindings are resolved, so local names and the struct-literal style do not matter
        env, rest_body = {}, body
        while True:
            lm = re.match(r"let (\w+) = ([^;]*); ", rest_body)
            if not lm:
                break
            env[lm.group(1)] = lm.group(2).strip(); rest_body = rest_body[lm.end():]
        c = re.match(r"Ok\(Matrix \{ (?P<fields>[^}]*?),? \}\)$", rest_body)
        if c:
            fields = {}
            for part in [x.strip() for x in c.group("fields").split(",") if x.strip()]:
                fm = re.fullmatch(r"(\w+)(?: ?: ?(\w+(?:\.\w+)*))?", part)
                if fm:
                    v = fm.group(2) or fm.group(1)
                    fields[fm.group(1)] = env.get(v, v)
            if set(fields) == {"order", "shape", "data"}:
                copies = fields["order"] == "self.order" and fields["shape"] == "self.shape"
                body = fields["data"]
        a = re.match(r"(?P<chain>.*?); self$", body)
        if a:
            body = a.group("chain")
        ch = re.match(r"self ?\.data ?\.(?P<src>par_iter|par_iter_mut|into_par_iter)\(\)(?P<rest>.*)$", body)
        if not ch:
            problems.append(name + ": body not recognised: " + body[:80]); rows.append((name, "unrecognised", False, "", guard, "", copies)); continue
        rest = ch.group("rest").strip()
        enum, idx, tail = False, "", ""
        e = re.match(r"\.enumerate\(\) ?\.map\((?:move )?\|\((?P<p>\w+), (?P<q>\w+)\)\| \{ let (?P<v>\w+) = (?P<idx>[^;]*); \((?P<v2>\w+), (?P<q2>\w+)\) \}\)$", rest)
        if e and e.group("v") == e.group("v2") and e.group("q") == e.group("q2"):
            # local names are normalised: the position supplied by enumerate() is called `index`
            enum, idx = True, re.sub(r"\b" + re.escape(e.group("p")) + r"\b", "index", e.group("idx"))
        elif rest in ("", ".for_each(f)", ".map(f).collect()"):
            tail = rest.lstrip(".")
        else:
            problems.append(name + ": adaptor chain not recognised: " + rest[:80]); rows.append((name, "unrecognised", False, "", guard, rest[:40].replace('"', "'"), copies)); continue
        rows.append((name, ch.group("src"), enum, idx, guard, tail, copies))
    b = lambda x: "true" if x else "false"
    out = ["-- GENERATED by translate/t1.py from /repo/src/parallel.rs — do not edit",
           "namespace Matreex.Gen", "",
           "structure ParForm where", "  name : String", "  source : String", "  enumerates : Bool", "  indexExpr : String",
           "  capacityGuardArg : String", "  tail : String", "  copiesOrderShape : Bool",
           "  deriving DecidableEq, Repr", "",
           "def parForms : List ParForm := ["]
    for i, (n, sr, en, ix, gd, tl, cp) in enumerate(rows):
        out.append(f'  ⟨"{n}", "{sr}", {b(en)}, "{ix}", "{gd}", "{tl}", {b(cp)}⟩' + ("," if i + 1 < len(rows) else ""))
    out += ["]", "", "end Matreex.Gen", ""]
    return "\n".join(out), {"rows": len(rows), "problems": problems}

# ------------------------------------------------------------------ AutoTraits (C17)
def _field_kind(t):
    t = t.replace(" ", "")
    if t == "NonNull<T>": return "nonNull"
    if t in ("*mutT", "*constT"): return "rawPtr"
    if t == "PhantomData<&'amutT>": return "phantomMutRef"
    if t == "PhantomData<&'aT>": return "phantomRef"
    if t in ("&'amutT", "&'amut[T]"): return "mutRef"
    if t in ("Option<Layout>", "Option<NonZero<usize>>", "usize", "NonZero<usize>", "bool", "Layout"): return "plain"
    return "unknown"

def _t_bounds(generics, where):
    """bounds put on the element type parameter `T` by an impl header: (needsSend, needsSync, other)"""
    bs = []
    for txt in (generics or "", where or ""):
        for m in re.finditer(r"\bT\s*:\s*([^,>{]+)", txt):
            bs += [b.strip() for b in m.group(1).split("+") if b.strip()]
    other = [b for b in bs if b not in ("Send", "Sync") and not b.startswith("'")]
    # where-predicates on anything but the bare parameter `T` (e.g. `&'a T: Send`, `*mut T: Sync`) are outside the model
    for pred in re.split(r",", re.sub(r"^\s*where", "", where or "")):
        pred = pred.strip()
        if pred and not re.match(r"T\s*:", pred):
            other.append("where " + pred)
    return "Send" in bs, "Sync" in bs, other

def auto_traits(root):
    """the two `&mut`-yielding iterator structs of iter/iter_mut.rs: derives, field kinds, every impl of Send / Sync /
    Clone / Copy with its bounds on T, the item type of the outer iterator, and what iter_rows_mut / iter_cols_mut of
    iter.rs return per order."""
    problems = []
    try:
        src = strip_comments(open(os.path.join(root, "iter", "iter_mut.rs")).read())
        isrc = strip_comments(open(os.path.join(root, "iter.rs")).read()).split("#[cfg(test)]")[0]
    except OSError:
        return "", {"rows": 0, "problems": ["iter_mut.rs / iter.rs missing"]}
    structs = []
    for m in re.finditer(r"((?:#\[[^\]]*\]\s*)*)pub(?:\(crate\))?\s+struct\s+(\w+)\s*<([^>]*)>\s*\{([^}]*)\}", src):
        derives = [d.strip() for ds in re.findall(r"derive\(([^)]*)\)", m.group(1)) for d in ds.split(",") if d.strip()]
        fields = []
        for f, t in re.findall(r"(\w+)\s*:\s*([^\n]+?),\s*(?:\n|$)", m.group(4)):
            k = _field_kind(t)
            if k == "unknown":
                problems.append(f"{m.group(2)}.{f}: field type `{t.strip()}` not classified")
            fields.append(k)
        structs.append((m.group(2), derives, fields))
    impls = []
    for m in re.finditer(r"(unsafe\s+)?impl\s*(<[^{]*?>)?\s*(!?)\s*(Send|Sync|Clone|Copy)\s+for\s+(\w+)\s*(?:<[^{]*?>)?\s*(where[^{]*)?\{", src):
        ns, ny, other = _t_bounds(m.group(2), m.group(6))
        if m.group(3) == "!":
            problems.append(f"negative impl of {m.group(4)} for {m.group(5)}")
        if other:
            problems.append(f"impl {m.group(4)} for {m.group(5)}: bounds {other} outside the model")
        impls.append((m.group(5), m.group(4).lower() if m.group(4) in ("Send", "Sync") else m.group(4).lower(), ns, ny, bool(other) or m.group(3) == "!"))
    items = re.findall(r"impl<'a, T> Iterator for (\w+)<'a, T>\s*\{\s*type Item = ([^;]+);", src)
    entries = []
    for fn in ("iter_rows_mut", "iter_cols_mut"):
        text = fn_body(isrc, None, fn)
        if text is None:
            problems.append(fn + ": not found"); continue
        sig = re.sub(r"\s+", " ", text[:text.index("{")])
        ret = sig.split("->", 1)[1].strip() if "->" in sig else "?"
        if ret != "impl ExactSizeDoubleEndedIterator<Item = impl ExactSizeDoubleEndedIterator<Item = &mut T>>":
            problems.append(fn + ": return type not the recognised opaque type: " + ret)
        body = re.sub(r"\s+", " ", text[text.index("{"):])
        # spellings of the same dispatch: a local holding the order, `if self.order ==/!= Order::X { A } else { B }`
        al = re.match(r"\{ let (\w+) = self\.order; ", body)
        if al:
            body = "{ " + re.sub(r"\b%s\b" % re.escape(al.group(1)), "self.order", body[al.end():])
        fi = re.fullmatch(r"\{ if self\.order (==|!=) Order::(RowMajor|ColMajor) \{ ([^{};,]+) \} else \{ ([^{};,]+) \} \}", body)
        if fi:
            oth = "ColMajor" if fi.group(2) == "RowMajor" else "RowMajor"
            a, b2 = (fi.group(3), fi.group(4)) if fi.group(1) == "==" else (fi.group(4), fi.group(3))
            body = "{ match self.order { Order::%s => %s, Order::%s => %s, } }" % (fi.group(2), a.strip(), oth, b2.strip())
        arms = re.findall(r"Order::(RowMajor|ColMajor) => ([^,]+),", body)
        if not re.fullmatch(r"\{ match self\.order \{ (Order::\w+ => [^,]+, ){2}\} \}", body):
            problems.append(fn + ": body not a plain match on the order"); arms = [("?", body[:60].replace('"', "'"))]
        # the arms may be written in either order
        for o, e in sorted(arms, key=lambda a: 0 if a[0] == "RowMajor" else 1):
            entries.append((fn, o, e.strip()))
    b = lambda x: "true" if x else "false"
    out = ["-- GENERATED by translate/t1.py from /repo/src/iter/iter_mut.rs and /repo/src/iter.rs — do not edit",
           "namespace Matreex.Gen", "",
           "inductive FieldKind | nonNull | rawPtr | phantomMutRef | phantomRef | mutRef | plain | unknown", "  deriving DecidableEq, Repr",
           "inductive TraitName | send | sync | clone | copy", "  deriving DecidableEq, Repr", "",
           "structure ImplRow where", "  ty : String", "  trait : TraitName", "  needsSend : Bool", "  needsSync : Bool", "  outsideModel : Bool",
           "  deriving DecidableEq, Repr", "",
           "structure StructRow where", "  name : String", "  derives : List String", "  fields : List FieldKind", "  deriving DecidableEq, Repr", "",
           "def iterStructs : List StructRow := ["]
    out.append(",\n".join(f'  ⟨"{n}", [' + ", ".join(f'"{d}"' for d in ds) + "], [" + ", ".join("." + k for k in fs) + "]⟩" for n, ds, fs in structs))
    out += ["]", "", "def traitImpls : List ImplRow := ["]
    out.append(",\n".join(f'  ⟨"{ty}", .{tr}, {b(ns)}, {b(ny)}, {b(om)}⟩' for ty, tr, ns, ny, om in impls))
    out += ["]", "", "/-- (iterator struct, head of its `Iterator::Item` type, the item type in full) -/", "def iterItems : List (String × String × String) := ["]
    out.append(",\n".join(f'  ("{a}", "{re.split("[<]", i.strip())[0]}", "{re.sub(chr(34), chr(39), i.strip())}")' for a, i in items))
    out += ["]", "", "/-- (public entry point, storage order, type whose constructor is called, expression returned) -/", "def iterMutEntries : List (String × String × String × String) := ["]
    out.append(",\n".join(f'  ("{f}", "{o}", "{e.split("::")[0]}", "{e}")' for f, o, e in entries))
    out += ["]", "", "end Matreex.Gen", ""]
    return "\n".join(out), {"rows": len(structs) + len(impls) + len(entries), "problems": problems}

# ------------------------------------------------------------------ EnsureForms (C11, C12)
def ensure_forms(root):
    """`is_square` and the three `ensure_*` guards of arithmetic.rs: each guard must be
    `if self.<predicate>(args) { Ok(self) } else { Err(Error::<kind>) }`."""
    try:
        src = strip_comments(open(os.path.join(root, "arithmetic.rs")).read())
    except OSError:
        return "", {"rows": 0, "problems": ["arithmetic.rs missing"]}
    rows, problems = [], []
    for name in ("ensure_square", "ensure_elementwise_operation_conformable", "ensure_multiplication_like_operation_conformable"):
        text = fn_body(src, None, name)
        if text is None:
            problems.append(name + ": not found"); rows.append((name, "missing", "")); continue
        body = re.sub(r"\s+", " ", text[text.index("{"):])
        m = re.fullmatch(r"\{ if self\.(\w+)\((\w*)\) \{ Ok\(self\) \} else \{ Err\(Error::(\w+)\) \} \}", body)
        if not m:
            # the same guard written with an early return
            m = re.fullmatch(r"\{ if !self\.(\w+)\((\w*)\) \{ return Err\(Error::(\w+)\); \} Ok\(self\) \}", body)
        if not m:
            # ... or with the predicate negated and the branches exchanged
            m = re.fullmatch(r"\{ if !self\.(\w+)\((\w*)\) \{ Err\(Error::(\w+)\) \} else \{ Ok\(self\) \} \}", body)
        if not m:
            problems.append(name + ": body not recognised"); rows.append((name, "unrecognised", "")); continue
        # the argument's local name is normalised to `rhs`
        rows.append((name, m.group(1) + "(" + ("rhs" if m.group(2) else "") + ")", m.group(3)))
    sq = fn_body(src, None, "is_square")
    sq_body = re.sub(r"\s+", " ", sq[sq.index("{"):]) if sq else "missing"
    out = ["-- GENERATED by translate/t1.py from /repo/src/arithmetic.rs — do not edit",
           "namespace Matreex.Gen", "",
           "/-- (guard, predicate it calls, error it returns when the predicate is false) -/",
           "def ensureForms : List (String × String × String) := ["]
    out.append(",\n".join(f'  ("{a}", "{b}", "{c}")' for a, b, c in rows))
    out += ["]", "", "def isSquareBody : String := \"" + sq_body.replace('"', "'") + "\"", "", "end Matreex.Gen", ""]
    return "\n".join(out), {"rows": len(rows) + 1, "problems": problems}

# ------------------------------------------------------------------ EffectsOrder (C02)
EFFECT_EVENTS = [
    ("shapeAssign", r"self\s*\.\s*shape\s*="),
    ("truncate", r"\.\s*truncate\s*\("),
    ("resizeWith", r"\.\s*resize_with\s*\("),
    ("clear", r"\.\s*data\s*\.\s*clear\s*\(\s*\)"),
    ("guardNew", r"let\s+guard\s*=\s*Guard\s*\{"),
    ("forgetGuard", r"mem::forget\s*\(\s*guard\s*\)"),
    ("setLen", r"\bset_len\s*\("),
    ("extend", r"\.\s*extend\w*\s*\("),
    ("push", r"\.\s*push\s*\("),
]

def _block_after(text, start):
    """text of the `{ ... }` block whose `{` is the first one at or after `start`; returns (inner, end)"""
    i = text.index("{", start)
    depth, j = 1, i + 1
    while depth:
        depth += (text[j] == "{") - (text[j] == "}")
        j += 1
    return text[i + 1:j - 1], j

def _events(text):
    found = []
    for ev, pat in EFFECT_EVENTS:
        for m in re.finditer(pat, text):
            found.append((m.start(), ev))
    return [e for _, e in sorted(found)]

def effects_order(root):
    """the order in which `resize` (per branch) and `clear` touch the shape and the element vector: what a panicking
    `T::default()` / `Drop::drop` finds half-done (C02).  Also the unwinding guard of the growing branch."""
    try:
        src = strip_comments(open(os.path.join(root, "lib.rs")).read())
    except OSError:
        return "", {"rows": 0, "problems": ["lib.rs missing"]}
    rows, problems = [], []
    guard = ("missing", "missing")
    body = fn_body(src, None, "resize")
    if body is None:
        problems.append("resize: not found")
    else:
        m = re.search(r"if\s+size\s*<=\s*(?P<old>\w+)\s*", body)
        # the local holding the old element count may have any name; it must be `self.size()` taken before the split
        if m and not re.search(r"let\s+" + re.escape(m.group("old")) + r"\s*=\s*self\s*\.\s*size\s*\(\s*\)\s*;", body[:m.start()]):
            m = None
        if not m:
            problems.append("resize: the shrink / grow split `if size <= <old size>` was not found")
            rows.append(("resize", "unrecognised", _events(body)))
        else:
            shrink, end = _block_after(body, m.end())
            e = re.match(r"\s*else\s*", body[end:])
            if not e:
                problems.append("resize: no else branch"); grow = ""
            else:
                grow, _ = _block_after(body, end + e.end() - 1)
            # the guard's own Drop impl is described separately
            g = re.search(r"impl\s*<[^>]*>\s*Drop\s+for\s+Guard\s*<[^>]*>\s*", grow)
            if g:
                gbody, gend = _block_after(grow, g.end())
                t = re.search(r"self\s*\.\s*data\s*\.\s*truncate\s*\(\s*([^)]*?)\s*\)", gbody)
                init = re.search(r"let\s+guard\s*=\s*Guard\s*\{[^}]*?\bsize\s*:\s*(\w+)", grow)
                # normalised: the guard is initialised with the old element count
                guard = (t.group(1) if t else "no-truncate", "old_size" if init and init.group(1) == m.group("old") else (init.group(1) if init else "?"))
                grow = grow[:g.start()] + grow[gend:]
            rows.append(("resize", "shrink", _events(shrink)))
            rows.append(("resize", "grow", _events(grow)))
            before = body[:m.start()]
            rows.append(("resize", "before-the-split", _events(before)))
    cbody = fn_body(src, None, "clear")
    if cbody is None:
        problems.append("clear: not found")
    else:
        rows.append(("clear", "all", _events(cbody)))
    out = ["-- GENERATED by translate/t1.py from /repo/src/lib.rs — do not edit",
           "namespace Matreex.Gen", "",
           "inductive Effect | shapeAssign | truncate | resizeWith | clear | guardNew | forgetGuard | setLen | extend | push",
           "  deriving DecidableEq, Repr", "",
           "/-- (function, branch, the order of its effects on shape and element vector) -/",
           "def effectsOrder : List (String × String × List Effect) := ["]
    out.append(",\n".join(f'  ("{f}", "{b}", [' + ", ".join("." + e for e in evs) + "])" for f, b, evs in rows))
    out += ["]", "", "/-- the unwinding guard of `resize`'s growing branch: (what its `drop` truncates to, what its `size` field is initialised with) -/",
            f'def resizeGuard : String × String := ("{guard[0]}", "{guard[1]}")', "", "end Matreex.Gen", ""]
    return "\n".join(out), {"rows": len(rows), "problems": problems}

# ------------------------------------------------------------------ OrderDispatch (C06, C10, C17)
def order_dispatch(root):
    """every function of iter.rs / swap.rs whose body dispatches on the storage order: which axis each arm uses.
    The callee of the two arms must be the same template with `major` / `minor` exchanged."""
    rows, problems = [], []
    for f in ("iter.rs", "swap.rs"):
        try:
            src = strip_comments(open(os.path.join(root, f)).read()).split("#[cfg(test)]")[0]
        except OSError:
            problems.append(f + " missing"); continue
        for m in re.finditer(r"\bfn\s+(\w+)", src):
            name = m.group(1)
            text = fn_body(src, None, name, m.start())
            if text is None or "match self.order" not in text:
                continue
            body = re.sub(r"\s+", " ", text[text.index("{", text.index(")")):])
            mm = re.search(r"match self\.order \{ Order::(RowMajor|ColMajor) => (.*?), Order::(RowMajor|ColMajor) => (.*?),? \}", body)
            if not mm or mm.group(1) == mm.group(3):
                problems.append(f"{name}: order dispatch not recognised"); rows.append((f, name, "?", "?", "unrecognised")); continue
            # the arms may be written in either order
            a, b = (mm.group(2).strip(), mm.group(4).strip()) if mm.group(1) == "RowMajor" else (mm.group(4).strip(), mm.group(2).strip())
            def axis(x):
                has_major, has_minor = "major" in x, "minor" in x
                return "major" if has_major and not has_minor else "minor" if has_minor and not has_major else "?"
            ta = re.sub(r"major|minor", "{axis}", a)
            tb = re.sub(r"major|minor", "{axis}", b)
            if ta != tb:
                problems.append(f"{name}: the two arms are not the same call up to the axis"); ta = "arms-differ"
            rows.append((f, name, axis(a), axis(b), ta.replace('"', "'")))
    out = ["-- GENERATED by translate/t1.py from /repo/src/iter.rs and /repo/src/swap.rs — do not edit",
           "namespace Matreex.Gen", "",
           "/-- (file, public function, axis used when row-major, axis used when column-major, the call with the axis left open) -/",
           "def orderDispatch : List (String × String × String × String × String) := ["]
    out.append(",\n".join(f'  ("{f}", "{n}", "{a}", "{b}", "{t}")' for f, n, a, b, t in rows))
    out += ["]", "", "end Matreex.Gen", ""]
    return "\n".join(out), {"rows": len(rows), "problems": problems}

if __name__ == "__main__":
    root = sys.argv[1] if len(sys.argv) > 1 else "/repo/src"
    gen = sys.argv[2] if len(sys.argv) > 2 else "/verif/lean/Matreex/Gen"
    report, changed = {}, False
    text, rep = alloc_order(root)
    changed |= write_if_changed(os.path.join(gen, "AllocOrder.lean"), text)
    report["alloc_order"] = rep
    text, rep = scalar_forms(root)
    changed |= write_if_changed(os.path.join(gen, "ScalarForms.lean"), text)
    report["scalar_forms"] = rep
    text, rep = elementwise_forms(root)
    changed |= write_if_changed(os.path.join(gen, "ElementwiseForms.lean"), text)
    report["elementwise_forms"] = rep
    text, rep = neg_forms(root)
    changed |= write_if_changed(os.path.join(gen, "NegForms.lean"), text)
    report["neg_forms"] = rep
    text, rep = macros(root)
    changed |= write_if_changed(os.path.join(gen, "Macros.lean"), text)
    report["macros"] = rep
    text, rep = par_forms(root)
    changed |= write_if_changed(os.path.join(gen, "ParForms.lean"), text)
    report["par_forms"] = rep
    text, rep = auto_traits(root)
    changed |= write_if_changed(os.path.join(gen, "AutoTraits.lean"), text)
    report["auto_traits"] = rep
    text, rep = ensure_forms(root)
    changed |= write_if_changed(os.path.join(gen, "EnsureForms.lean"), text)
    report["ensure_forms"] = rep
    text, rep = effects_order(root)
    changed |= write_if_changed(os.path.join(gen, "EffectsOrder.lean"), text)
    report["effects_order"] = rep
    text, rep = order_dispatch(root)
    changed |= write_if_changed(os.path.join(gen, "OrderDispatch.lean"), text)
    report["order_dispatch"] = rep
    report["changed"] = changed
    print(json.dumps(report))
