#!/usr/bin/env python3
"""Translator T14 ("resize / clear / map family"): the size-changing `&mut self` methods and the mapping-style
methods of src/lib.rs and src/arithmetic.rs

    lib.rs          resize, clear, shrink_to_fit, shrink_to            (part B: statements on the matrix state)
    lib.rs          map, map_ref, apply                                (part A: walks over `self.data`)
    arithmetic.rs   scalar_operation, scalar_operation_consume_self, scalar_operation_assign      (part A)

-> Lean 4 functions (`Gen/T14Gen.lean`), regenerated on every run.

PART A reuses T9's parser and emitter (`F9`, `Fn9`: header with type parameters and `FnMut` bounds, the `?` checks,
every `let`, the walk `M.data.iter() / into_iter() / iter_mut() … .map(closure).collect() / .for_each(closure)`,
the closure body statement by statement, the operand order of `op(..)`, the fields of `Matrix { .. }`).  Added here:
    p: &S   (S a free type parameter)          a value `(p : S)`; usable as an argument of the closure parameter
    .map(f) / .for_each(f)  with `f` the closure PARAMETER itself     read as `|elem_| f(elem_)`
    fn .. -> &mut Self  with tail `self`       the state after the call, `M (Matrix T)`
Mapped by name (as in T9): `iter()/into_iter()/iter_mut()` = positions `0 .. self_data.size` read with the model's
`getUnchecked`; `.map(..).collect()` = `Vec.reserveExact es_U LEN` then `List.mapM`; `.for_each` = the same `mapM`,
positions not reached keep their value; `Matrix::<U>::check_size` = T2's `Gen.Matrix.check_size es_U`; `self.size()`
= `self_data.size` only while src/lib.rs defines it as `self.data.len()`.

PART B translates each function TWICE from the same parsed statements:
  * NAME      on (header, element array), effect-free `T::default` (`dflt`)     : M (Except Error Unit × Matrix α) | M (Matrix α)
  * NAME_fx   on a world of Model/Effects.lean under a fault schedule `φ` (callback number `k` panics iff `φ k`;
              `mk k` is the value callback `k` = `T::default()` returns)         : M (FxR α)
              FxR α = (the `Result` the function returns if it returns, (world, outcome)); a statement after an
              effect runs only if the effect's outcome is `done` (`fxThen`).
Accepted (anything else: `Untranslatable`, reported in the JSON summary, stub that faults):
  signature   fn NAME[<S>](&mut self [, p: S | usize]*) -> Result<&mut Self> | &mut Self   [where T: Default, S: Into<Shape>]
  statements  let x = EXPR;   let x = EXPR?;   EXPR?;           (`?` only at the top level of the function body)
              self.shape = EXPR;
              VEC.truncate(N);  VEC.clear();  VEC.resize_with(N, T::default);  VEC.shrink_to_fit();  VEC.shrink_to(N);
                  VEC ::= self.data | g.data   (g a live guard whose vector field was initialised with `&mut self.data`)
              if COND { STMTS } [else { STMTS }]                 (a statement; no `?` / `return` inside)
              struct G<..> { f: &mut Vec<T>, f': usize, .. }     } the unwinding-guard idiom, every part read from the text:
              impl<..> Drop for G<..> { fn drop(&mut self) { self.f.truncate(EXPR over self.f'); } }
              let g = G { f: &mut self.data, f': EXPR, .. };     } the statements up to `mem::forget(g)` run guarded: if
              [std::]mem::forget(g);                             } one unwinds, `drop`'s statement runs (a panic in it
                                                                 } aborts); without `forget` it also runs at the block end
              tail: Ok(self) | self
  expressions integers, locals, usize::MAX, + - * / % (checked), comparisons, ! && ||, min / max, Order::X,
              self.order, self.shape, self.size() (while it is `self.data.len()`), VEC.len(), VEC.is_empty(),
              p.into() (p: S, S: Into<Shape>), s.try_to_axis_shape(o), s.size(), a.size() / major() / minor(),
              Self::check_size(n) / Matrix::<T>::check_size(n), AxisShape::default() (also spelled `Default::default()` on the right of `self.shape =`; while `AxisShape` derives
              `Default` over `usize` fields `major`, `minor` in src/shape.rs)
Mapped by name to primitives of the hand-written model, arguments from the text:
              NAME                                                NAME_fx
  truncate(N)            self_data.extract 0 N                    Effects.truncate φ N w
  clear()                self_data.extract 0 0                    Effects.truncate φ 0 w           (Vec::clear = truncate(0))
  resize_with(N, T::default)
                         `if N > len then Vec.reserveExact es N`  the same reservation, then `fxResizeWith φ mk N w`
                         resizeData self_data N dflt              (= Effects.truncate if N ≤ len, else Effects.growWith (N - len))
  shrink_to_fit() / shrink_to(N)      no change (capacity is not part of the model's state)
  try_to_axis_shape / size / check_size                           T2's generated functions (Gen/Core.lean)
"""
import re, sys, os
sys.path.insert(0, os.path.dirname(os.path.abspath(__file__)))
from t2 import lex, find_fn, P, Untranslatable, strip_rust_comments
from t9 import F9, Fn9, locate, drop_lifetimes, lib_delegates, chain, is_walk
from t6 import lean_id


# =================================================================== part A: walks
class Fn14(Fn9):
    def __init__(self, impl_param, ast, delegates):
        free = [g for g in ast["generics"] if g not in ast["bounds"]]
        self.scalars = {}
        kept = []
        for pn, ty in ast["params"]:
            if ty[0] == "ref" and ty[1][0] == "ty" and not ty[1][2] and ty[1][1] in free:
                self.scalars[pn] = ty[1][1]
            else:
                kept.append((pn, ty))
        a2 = dict(ast); a2["params"] = kept
        self.plain = ast["ret"] == ("mutref", ("ty", "Self", [])) and ast["recv"] == "mut"
        if self.plain: a2["ret"] = ("ty", "Result", [("mutref", ("ty", "Self", []))])
        super().__init__(impl_param, a2, delegates, False)
        self.ast = ast
        if self.plain: self.ret_ty = f"M (Matrix {self.L})"
        old = list(self.binders); self.binders = []
        for pn, ty in ast["params"]:
            if pn in self.scalars:
                self.check_name(pn)
                self.binders.append(f"({lean_id(pn)} : {self.scalars[pn]})")
                self.scope[0][pn] = ("elem", self.scalars[pn])
            else:
                self.binders.append(old.pop(0))

    def eta(self, a):
        """`.map(f)` with `f` the closure parameter = `.map(|elem_| f(elem_))`"""
        if len(a) == 1 and a[0][0] == "path" and len(a[0][1]) == 1 and a[0][1][0] in self.ops \
                and not any(a[0][1][0] in s for s in self.scope):
            return [("closure", [("pvar", "elem_")], ("block", [], ("call", [a[0][1][0]], [("path", ["elem_"])])))]
        return a

    def walk(self, e, ind):
        if e[0] == "mcall" and e[2] == "collect" and e[1][0] == "mcall" and e[1][2] == "map":
            e = ("mcall", ("mcall", e[1][1], "map", self.eta(e[1][3])), "collect", e[3])
        elif e[0] == "mcall" and e[2] == "for_each":
            e = ("mcall", e[1], "for_each", self.eta(e[3]))
        return super().walk(e, ind)

    def result(self, e):
        if self.plain:
            if e != ("path", ["self"]): raise Untranslatable("the result is not `self`")
            return self.state()
        return super().result(e)

    def qmark(self, v, binder):
        if self.plain: raise Untranslatable("`?` in a function that does not return a Result")
        return super().qmark(v, binder)


NEW1 = "def {n} {{T U : Type}} (es_T es_U : Nat) (self_ : Hdr) (self_data : Array T) (f : T → U) :\n    M (Except Error (Matrix U))"
NEW2 = ("def {n} {{T S U : Type}} (es_T es_S es_U : Nat) (self_ : Hdr) (self_data : Array T) (scalar : S) (op : T → S → U) :\n"
        "    M (Except Error (Matrix U))")
WALK_JOBS = [
    ("lib.rs", "map", "Matrix.map", NEW1),
    ("lib.rs", "map_ref", "Matrix.map_ref", NEW1),
    ("lib.rs", "apply", "Matrix.apply",
     "def {n} {{T : Type}} (es_T : Nat) (self_ : Hdr) (self_data : Array T) (f : T → T) :\n    M (Matrix T)"),
    ("arithmetic.rs", "scalar_operation", "Matrix.scalar_operation", NEW2),
    ("arithmetic.rs", "scalar_operation_consume_self", "Matrix.scalar_operation_consume_self", NEW2),
    ("arithmetic.rs", "scalar_operation_assign", "Matrix.scalar_operation_assign",
     "def {n} {{T S : Type}} (es_T es_S : Nat) (self_ : Hdr) (self_data : Array T) (scalar : S) (op : T → S → T) :\n    M (Matrix T)"),
]


# =================================================================== part B: statements on the matrix state
USIZE, BOOL, ORDER, SHAPE, ASHAPE, INTO = "usize", "bool", "Order", "Shape", "AxisShape", "impl Into<Shape>"
SCALARS = (USIZE, BOOL, ORDER, SHAPE, ASHAPE)
RESERVED = set("""es self_ self_data dflt err_ w r_ st_ φ mk order_ α pure bind decide uadd usub umul udiv urem min max fun do
 let if then else match with M Nat List Array Hdr AxisShape Shape Order Error Except Matrix Vec resizeData usizeMax isizeMax
 Effects fxThen fxEff fxGuarded fxResizeWith FxR true false Unit""".split())


def check_name(name, what):
    if name in RESERVED or re.fullmatch(r"t\d+", name):
        raise Untranslatable(f"{what} `{name}` collides with a name of the generated code")


class R14(F9):
    """header of a `&mut self` method + a statement-level parser (items, assignments, `if` statements)"""

    def skip_angle(self):
        if self.at("<"):
            depth = 0
            while True:
                v = self.next()[1]
                if v == "<": depth += 1
                elif v == ">":
                    depth -= 1
                    if depth == 0: break
                elif v in ("{", "}", ";", ""): raise Untranslatable("generic parameter list")

    def header(self):
        self.eat("fn"); name = self.next()[1]
        generics = []
        if self.at("<"):
            self.next()
            while not self.at(">"):
                k, v = self.next()
                if v == ",": continue
                if k != "id" or self.at(":"): raise Untranslatable("generic parameter list")
                generics.append(v)
            self.eat(">")
        self.eat("("); self.eat("&"); self.eat("mut"); self.eat("self")
        params = []
        while self.at(","):
            self.next()
            if self.at(")"): break
            k, pn = self.next()
            if k != "id": raise Untranslatable(f"parameter name {pn!r}")
            self.eat(":"); params.append((pn, self.pty()))
        self.eat(")"); self.eat("->"); ret = self.pty()
        bounds = {}
        if self.at("where"):
            self.next()
            while not self.at("{"):
                k, g = self.next()
                if k != "id": raise Untranslatable("where clause")
                self.eat(":")
                bounds.setdefault(g, []).append(self.pty())
                while self.at("+"):
                    self.next(); bounds[g].append(self.pty())
                if self.at(","): self.next()
                elif not self.at("{"): raise Untranslatable("where clause")
        body = self.sblock()
        if self.peek()[0] != "eof": raise Untranslatable("text after the function body")
        return {"name": name, "generics": generics, "params": params, "ret": ret, "bounds": bounds, "body": body}

    def sblock(self):
        self.eat("{"); out = []
        while not self.at("}"):
            if self.peek()[0] == "eof": raise Untranslatable("unterminated block")
            out.append(self.stmt())
        self.eat("}")
        return out

    def stmt(self):
        v = self.peek()[1]
        if v in ("while", "loop", "for", "match", "break", "continue", "const", "static", "fn", "#", "unsafe", "use"):
            raise Untranslatable(f"`{v}` statement")
        if v == "struct":
            self.next(); name = self.next()[1]; self.skip_angle(); self.eat("{"); fields = []
            while not self.at("}"):
                k, f = self.next()
                if k != "id": raise Untranslatable("struct field")
                self.eat(":"); fields.append((f, self.pty()))
                if self.at(","): self.next()
            self.eat("}")
            return ("struct", name, fields)
        if v == "impl":
            self.next(); self.skip_angle()
            if self.next()[1] != "Drop": raise Untranslatable("a local `impl` that is not `impl Drop for ..`")
            self.eat("for"); name = self.next()[1]; self.skip_angle(); self.eat("{")
            self.eat("fn"); self.eat("drop"); self.eat("("); self.eat("&"); self.eat("mut"); self.eat("self"); self.eat(")")
            body = self.sblock(); self.eat("}")
            return ("implDrop", name, body)
        if v == "return":
            self.next(); e = self.expr(); self.eat(";")
            return ("return", e)
        if v == "if":
            self.next(); c = self.expr(0, True); t = self.sblock(); f = []
            if self.at("else"):
                self.next()
                f = [self.stmt()] if self.at("if") else self.sblock()
            if self.at(";"): self.next()
            return ("if", c, t, f)
        if v == "let":
            self.next()
            if self.at("mut"): raise Untranslatable("let mut")
            k, name = self.next()
            if k != "id" or self.at("("): raise Untranslatable("let with a pattern")
            if self.at(":"): raise Untranslatable("let with a type annotation")
            self.eat("="); e = self.expr(); self.eat(";")
            return ("let", name, e)
        e = self.expr()
        if self.at(";"):
            self.next(); return ("do", e)
        if self.at("="):
            self.next(); rhs = self.expr(); self.eat(";")
            return ("assign", e, rhs)
        if not self.at("}"): raise Untranslatable(f"unexpected {self.peek()[1]!r} after an expression")
        return ("tail", e)


class St14:
    """one `&mut self` method, emitted in mode "pure" (header + array) or "fx" (world + fault schedule)"""

    def __init__(self, ast, mode, delegates, axis_default_ok):
        self.ast, self.mode, self.delegates, self.axis_default_ok = ast, mode, delegates, axis_default_ok
        self.n = 0
        self.scope = [{}]
        self.structs, self.drops = {}, {}
        self.guard = None          # the live guard: {"name", "vec", "fields": {f: (lean local, type)}}
        self.dropctx = None        # inside Guard::drop: the guard whose fields `self.f` denotes
        a = ast
        for g, bs in a["bounds"].items():
            if g != "T" and g not in a["generics"]: raise Untranslatable(f"where clause on `{g}`")
        tb = a["bounds"].get("T", [])
        for b in tb:
            if b != ("ty", "Default", []): raise Untranslatable(f"bound on T: {b}")
        self.has_default = ("ty", "Default", []) in tb
        self.params = []
        for pn, pt in a["params"]:
            check_name(pn, "parameter")
            if pt == ("ty", "usize", []):
                self.scope[0][pn] = USIZE; self.params.append(f"({lean_id(pn)} : Nat)")
            elif pt == ("ty", "Shape", []):
                self.scope[0][pn] = SHAPE; self.params.append(f"({lean_id(pn)} : Shape)")
            elif pt[0] == "ty" and not pt[2] and pt[1] in a["generics"] and \
                    a["bounds"].get(pt[1]) == [("ty", "Into", [("ty", "Shape", [])])]:
                self.scope[0][pn] = INTO; self.params.append(f"({lean_id(pn)} : Shape)")
            else:
                raise Untranslatable(f"parameter {pn}: type")
        if a["ret"] == ("ty", "Result", [("mutref", ("ty", "Self", []))]): self.plain = False
        elif a["ret"] == ("mutref", ("ty", "Self", [])): self.plain = True
        else: raise Untranslatable("result type is neither Result<&mut Self> nor &mut Self")

    # ---- names and state
    def fresh(self):
        self.n += 1; return f"t{self.n}"

    def lookup(self, name):
        for s in reversed(self.scope):
            if name in s: return s[name]
        return None

    def bind(self, name, ty):
        check_name(name, "local"); self.scope[-1][name] = ty

    @property
    def fx(self): return self.mode == "fx"

    def len_(self): return "w.mat.data.length" if self.fx else "self_data.size"

    def state(self):
        return "(w, Effects.Outcome.done)" if self.fx else "({ order := self_.order, shape := self_.shape, data := self_data } : Matrix α)"

    def done(self):
        """value of a block that ran to its end"""
        return "pure ((Except.ok (), (w, Effects.Outcome.done)) : FxR α)" if self.fx else "pure (self_, self_data)"

    def is_vec(self, e):
        """`self.data`, `g.data` for the live guard `g`, or (inside Guard::drop) `self.f` for the guard's vector field"""
        if e[0] != "field" or e[1][0] != "path" or len(e[1][1]) != 1: return False
        base, f = e[1][1][0], e[2]
        if self.dropctx is not None:
            return base == "self" and f == self.dropctx["vec"]
        if base == "self" and f == "data": return True
        return self.guard is not None and base == self.guard["name"] and f == self.guard["vec"] and self.lookup(base) == "guard"

    # ---- expressions
    def ex(self, e, lines):
        k = e[0]
        if k == "num": return str(e[1]), USIZE
        if k == "path":
            p = e[1]
            if len(p) == 1:
                if p[0] in ("true", "false"): return p[0], BOOL
                t = self.lookup(p[0])
                if t is None or t == "guard": raise Untranslatable(f"`{p[0]}` is not a local value in scope")
                return lean_id(p[0]), t
            if p == ["Order", "RowMajor"]: return "Order.rowMajor", ORDER
            if p == ["Order", "ColMajor"]: return "Order.colMajor", ORDER
            if p == ["usize", "MAX"]: return "usizeMax", USIZE
            raise Untranslatable("path " + "::".join(map(str, p)))
        if k == "field":
            if e[1] == ("path", ["self"]):
                if self.dropctx is not None:
                    f = self.dropctx["fields"].get(e[2])
                    if f is None: raise Untranslatable(f"Guard::drop: `self.{e[2]}` is not an integer field of the guard")
                    return f
                if e[2] == "order": return ("order_" if self.fx else "self_.order"), ORDER
                if e[2] == "shape": return ("w.mat.shape" if self.fx else "self_.shape"), ASHAPE
            raise Untranslatable(f"field access .{e[2]}")
        if k == "not":
            a, t = self.ex(e[1], lines)
            if t != BOOL: raise Untranslatable("`!` on a non-bool")
            return f"(!{a})", BOOL
        if k == "bin":
            op = e[1]
            if op in ("&&", "||"):
                a, ta = self.ex(e[2], lines); rl = []; b, tb = self.ex(e[3], rl)
                if rl: raise Untranslatable("effectful right operand of && / ||")
                if (ta, tb) != (BOOL, BOOL): raise Untranslatable(f"`{op}` on non-bools")
                return f"({a} {op} {b})", BOOL
            (a, ta), (b, tb) = self.ex(e[2], lines), self.ex(e[3], lines)
            if op in ("+", "-", "*", "/", "%"):
                if (ta, tb) != (USIZE, USIZE): raise Untranslatable(f"`{op}` on non-integers")
                f = {"+": "uadd", "-": "usub", "*": "umul", "/": "udiv", "%": "urem"}[op]
                t = self.fresh(); lines.append(f"let {t} ← {f} {a} {b}"); return t, USIZE
            if op in ("==", "!="):
                if ta != tb or ta not in (USIZE, ORDER, ASHAPE, SHAPE): raise Untranslatable(f"`{op}` on {ta} and {tb}")
                return f"(decide ({a} {'=' if op == '==' else '≠'} {b}))", BOOL
            if op in ("<", ">", "<=", ">="):
                if (ta, tb) != (USIZE, USIZE): raise Untranslatable(f"`{op}` on non-integers")
                return f"(decide ({a} {op.replace('<=', '≤').replace('>=', '≥')} {b}))", BOOL
            raise Untranslatable(f"operator {op}")
        if k == "mcall": return self.mcall(e, lines)
        if k == "call": return self.call(e, lines)
        if k == "try": raise Untranslatable("`?` outside `let x = …?;` / `…?;`")
        raise Untranslatable(f"expression kind {k}")

    def eff(self, lines, fn, args, ty):
        t = self.fresh(); lines.append(f"let {t} ← {fn} {' '.join(args)}"); return t, ty

    def mcall(self, e, lines):
        recv, name, args = e[1], e[2], e[3]
        if recv == ("path", ["self"]) and self.dropctx is None:
            if name == "size" and not args:
                if "size" not in self.delegates: raise Untranslatable("Matrix::size is not the plain delegation to `self.data.len()` in src/lib.rs")
                return self.len_(), USIZE
            if name == "is_empty" and not args:
                if "is_empty" not in self.delegates: raise Untranslatable("Matrix::is_empty is not the plain delegation in src/lib.rs")
                return f"(decide ({self.len_()} = 0))", BOOL
            raise Untranslatable(f"method self.{name}()")
        if self.is_vec(recv):
            if name == "len" and not args: return self.len_(), USIZE
            if name == "is_empty" and not args: return f"(decide ({self.len_()} = 0))", BOOL
            raise Untranslatable(f"vector method .{name}() in an expression")
        r, t = self.ex(recv, lines)
        av = [self.ex(a, lines) for a in args]
        at = [x[1] for x in av]; av = [x[0] for x in av]
        if t == INTO and name == "into" and not args: return r, SHAPE
        if t == SHAPE:
            if name == "try_to_axis_shape" and at == [ORDER]: return self.eff(lines, "Shape.try_to_axis_shape", [r] + av, ("result", ASHAPE))
            if name == "size" and not args: return self.eff(lines, "Shape.size", [r], ("result", USIZE))
        if t == ASHAPE:
            if name in ("major", "minor") and not args: return f"{r}.{name}", USIZE
            if name == "size" and not args: return self.eff(lines, "AxisShape.size", [r], USIZE)
        if t == USIZE and name in ("min", "max") and at == [USIZE]: return f"({name} {r} {av[0]})", USIZE
        raise Untranslatable(f"method .{name}/{len(args)} on {t if isinstance(t, str) else 'Result<..>'}")

    def call(self, e, lines):
        p, args = e[1], e[2]
        if p in (["Self", "check_size"], ["Matrix", ("targs", [("ty", "T", [])]), "check_size"]) and len(args) == 1:
            a, t = self.ex(args[0], lines)
            if t != USIZE: raise Untranslatable("check_size: the argument is not an integer")
            return self.eff(lines, "Matrix.check_size", ["es", a], ("result", USIZE))
        if p == ["AxisShape", "default"] and not args:
            if not self.axis_default_ok: raise Untranslatable("AxisShape::default(): `AxisShape` is not `#[derive(Default)]` over usize fields major, minor")
            return "({ major := 0, minor := 0 } : AxisShape)", ASHAPE
        if p[-1] in ("min", "max") and p[:-1] in (["cmp"], ["std", "cmp"], ["core", "cmp"]) and len(args) == 2:
            (a, ta), (b, tb) = self.ex(args[0], lines), self.ex(args[1], lines)
            if (ta, tb) != (USIZE, USIZE): raise Untranslatable("cmp::min/max on non-integers")
            return f"({p[-1]} {a} {b})", USIZE
        raise Untranslatable("call " + "::".join(x if isinstance(x, str) else "<…>" for x in p))

    # ---- effects on the vector
    def vec_effect(self, e):
        """`VEC.method(args)` -> (lines before, pure-mode lines, fx-mode effect term) or None"""
        if e[0] != "mcall" or not self.is_vec(e[1]): return None
        name, args = e[2], e[3]
        pre = []
        if name == "truncate" and len(args) == 1:
            n, t = self.ex(args[0], pre)
            if t != USIZE: raise Untranslatable("truncate: the argument is not an integer")
            return pre, [f"let self_data : Array α := self_data.extract 0 {n}"], f"Effects.truncate φ {n} w"
        if name == "clear" and not args:
            return pre, ["let self_data : Array α := self_data.extract 0 0"], "Effects.truncate φ 0 w"
        if name == "resize_with" and len(args) == 2:
            if args[1] != ("path", ["T", "default"]): raise Untranslatable("resize_with: the generator is not `T::default`")
            if not self.has_default: raise Untranslatable("`T::default` without a bound `T: Default`")
            n, t = self.ex(args[0], pre)
            if t != USIZE: raise Untranslatable("resize_with: the length is not an integer")
            pre.append(f"(if (decide ({n} > {self.len_()})) then Vec.reserveExact es {n} else pure ())")
            return pre, [f"let self_data : Array α := resizeData self_data {n} dflt"], f"fxResizeWith φ mk {n} w"
        if name == "shrink_to_fit" and not args:
            return pre, [], None
        if name == "shrink_to" and len(args) == 1:
            n, t = self.ex(args[0], pre)
            if t != USIZE: raise Untranslatable("shrink_to: the argument is not an integer")
            return pre, [], None
        raise Untranslatable(f"vector method .{name}/{len(args)}")

    def drop_effect(self, g):
        """the single statement of `Guard::drop`, in the context of guard `g`: (pure lines, fx term `World → World × Outcome`)"""
        body = self.drops[g["struct"]]
        if len(body) != 1 or body[0][0] != "do": raise Untranslatable("Guard::drop is not a single `self.VEC.method(..);` statement")
        saved = self.dropctx; self.dropctx = g
        try:
            r = self.vec_effect(body[0][1])
        finally:
            self.dropctx = saved
        if r is None: raise Untranslatable("Guard::drop: the statement is not a method of the guarded vector")
        pre, pure_lines, fxterm = r
        if pre: raise Untranslatable("Guard::drop: effectful argument")
        if fxterm is None: raise Untranslatable("Guard::drop: no effect on the vector")
        if "fxResizeWith" in fxterm: raise Untranslatable("Guard::drop calls `T::default`")
        return pure_lines, fxterm

    # ---- statements
    def ret(self, e):
        if self.plain:
            if e != ("path", ["self"]): raise Untranslatable("the result is not `self`")
            return f"pure ((Except.ok (), {self.state()}) : FxR α)" if self.fx else f"pure {self.state()}"
        if e[0] == "call" and e[1] == ["Ok"] and e[2] == [("path", ["self"])]:
            return f"pure (Except.ok (), {self.state()})"
        if e[0] == "call" and e[1] == ["Err"] and len(e[2]) == 1 and e[2][0][0] == "path" and len(e[2][0][1]) == 2 \
                and e[2][0][1][0] == "Error":
            n = e[2][0][1][1]
            return f"pure (Except.error Error.{n[0].lower() + n[1:]}, {self.state()})"
        raise Untranslatable("the result is neither Ok(self) nor Err(Error::X)")

    def is_forget(self, st, gname):
        return st[0] == "do" and st[1][0] == "call" and st[1][1] in (["std", "mem", "forget"], ["mem", "forget"], ["core", "mem", "forget"]) \
            and st[1][2] == [("path", [gname])]

    def seq(self, sts, ind, where):
        """lines of a `do` block.  where: "fn" (ends in the function's result) | "block" (ends in `done`)"""
        pad = "  " * ind
        out = []
        for i, st in enumerate(sts):
            k = st[0]; rest = sts[i + 1:]
            if k == "struct":
                self.structs[st[1]] = st[2]; continue
            if k == "implDrop":
                if len([s for s in sts if s[0] == "implDrop" and s[1] == st[1]]) != 1: raise Untranslatable("two Drop impls")
                self.drops[st[1]] = st[2]; continue
            if k in ("tail", "return"):
                if where != "fn": raise Untranslatable("a result inside a branch or a guarded region")
                if rest: raise Untranslatable("code after the result")
                return out + [pad + self.ret(st[1])]
            if k == "let" and st[2][0] == "struct":
                return out + self.guarded(st, rest, ind, where)
            if k == "let" or (k == "do" and st[1][0] == "try"):
                e = st[2] if k == "let" else st[1]
                if k == "let": check_name(st[1], "local")
                if e[0] == "try":
                    if where != "fn": raise Untranslatable("`?` inside a branch or a guarded region")
                    if self.plain: raise Untranslatable("`?` in a function that does not return a Result")
                    lines = []; v, t = self.ex(e[1], lines)
                    if not (isinstance(t, tuple) and t[0] == "result"): raise Untranslatable("`?` on something that is not a Result")
                    out += [pad + l for l in lines]
                    binder = lean_id(st[1]) if k == "let" else "_"
                    out += [pad + f"match {v} with", pad + f"| .error err_ => pure (Except.error err_, {self.state()})",
                            pad + f"| .ok {binder} => do"]
                    self.scope.append({})
                    if k == "let": self.bind(st[1], t[1])
                    out += self.seq(rest, ind + 1, where)
                    self.scope.pop()
                    return out
                lines = []; v, t = self.ex(e, lines)
                if t not in SCALARS: raise Untranslatable(f"let {st[1]}: a value of a type that cannot be bound")
                out += [pad + l for l in lines] + [pad + f"let {lean_id(st[1])} := {v}"]
                self.bind(st[1], t)
                continue
            if k == "assign":
                if st[1] != ("field", ("path", ["self"]), "shape") or self.dropctx is not None:
                    raise Untranslatable("assignment to something that is not `self.shape`")
                rhs = st[2]
                # `self.shape = Default::default()`: the field's type decides the impl (`AxisShape`)
                if rhs[0] == "call" and rhs[1] == ["Default", "default"] and not rhs[2]:
                    rhs = ("call", ["AxisShape", "default"], [])
                lines = []; v, t = self.ex(rhs, lines)
                if t != ASHAPE: raise Untranslatable("self.shape = …: not an axis shape")
                out += [pad + l for l in lines]
                out.append(pad + (f"let w : Effects.World α := {{ w with mat := {{ w.mat with shape := {v} }} }}" if self.fx
                                  else f"let self_ : Hdr := {{ self_ with shape := {v} }}"))
                continue
            if k == "do":
                r = self.vec_effect(st[1])
                if r is None: raise Untranslatable("expression statement that is not a method of `self.data`")
                pre, pure_lines, fxterm = r
                out += [pad + l for l in pre]
                if not self.fx:
                    out += [pad + l for l in pure_lines]; continue
                if fxterm is None: continue
                out.append(pad + f"fxThen (fxEff ({fxterm})) (fun w => do")
                out += self.seq_tail(rest, ind + 1, where)
                out[-1] += ")"
                return out
            if k == "if":
                lines = []; c, t = self.ex(st[1], lines)
                if t != BOOL: raise Untranslatable("condition is not a bool")
                out += [pad + l for l in lines]
                var = "r_" if self.fx else "st_"
                out.append(pad + f"let {var} ← (if {c} then do")
                self.scope.append({}); g = self.guard
                out += self.seq_tail(st[2], ind + 2, "block")
                self.scope.pop(); self.guard = g
                out.append(pad + "  else do")
                self.scope.append({})
                out += self.seq_tail(st[3], ind + 2, "block")
                self.scope.pop(); self.guard = g
                out[-1] += ")"
                if self.fx:
                    out.append(pad + "fxThen r_ (fun w => do")
                    out += self.seq_tail(rest, ind + 1, where)
                    out[-1] += ")"
                    return out
                out += [pad + "let self_ : Hdr := st_.1", pad + "let self_data : Array α := st_.2"]
                continue
            raise Untranslatable(f"statement kind {k}")
        if where == "fn": raise Untranslatable("the function body does not end in a result")
        return out + [pad + self.done()]

    def seq_tail(self, sts, ind, where):
        return self.seq(sts, ind, where)

    def guarded(self, st, rest, ind, where):
        """`let g = G { .. };` — the guard idiom"""
        pad = "  " * ind
        gname, lit = st[1], st[2]
        check_name(gname, "local")
        if len(lit[1]) != 1 or lit[1][0] not in self.structs: raise Untranslatable("struct literal of an unknown struct")
        sname = lit[1][0]
        if sname not in self.drops: raise Untranslatable(f"struct {sname} has no Drop impl: not a guard")
        if self.guard is not None or self.dropctx is not None: raise Untranslatable("nested guards")
        decl = dict(self.structs[sname]); given = dict(lit[2])
        if sorted(decl) != sorted(given) or len(lit[2]) != len(decl): raise Untranslatable(f"{sname} {{ .. }}: fields")
        out = []; vec = None; fields = {}
        for f, e in lit[2]:                          # evaluation order of the text
            ty = decl[f]
            if ty == ("mutref", ("ty", "Vec", [("ty", "T", [])])):
                if vec is not None: raise Untranslatable("guard with two vectors")
                if e != ("field", ("path", ["self"]), "data"): raise Untranslatable(f"guard field {f} is not `&mut self.data`")
                vec = f
            elif ty == ("ty", "usize", []):
                lines = []; v, t = self.ex(e, lines)
                if t != USIZE: raise Untranslatable(f"guard field {f}: not an integer")
                loc = self.fresh()
                out += [pad + l for l in lines] + [pad + f"let {loc} := {v}"]
                fields[f] = (loc, USIZE)
            else:
                raise Untranslatable(f"guard field {f}: type")
        if vec is None: raise Untranslatable("guard without a `&mut Vec<T>` field")
        g = {"name": gname, "struct": sname, "vec": vec, "fields": fields}
        drop_pure, drop_fx = self.drop_effect(g)
        js = [j for j, s in enumerate(rest) if self.is_forget(s, gname)]
        if js:
            region, after, forgotten = rest[:js[0]], rest[js[0] + 1:], True
        else:
            cut = len(rest) - 1 if rest and rest[-1][0] in ("tail", "return") else len(rest)
            region, after, forgotten = rest[:cut], rest[cut:], False
        if any(s[0] == "let" for s in region): raise Untranslatable("`let` between the guard and `mem::forget`")
        self.scope.append({gname: "guard"}); self.guard = g
        if not self.fx:
            out += self.seq(region, ind, "block")[:-1]            # the guard is transparent when nothing unwinds
            self.guard = None; self.scope.pop()
            if not forgotten: out += [pad + l for l in drop_pure]
            return out + self.seq(after, ind, where)
        out.append(pad + "let r_ ← fxGuarded (do")
        out += self.seq(region, ind + 2, "block")
        out[-1] += f") (fun w => {drop_fx})"
        self.guard = None; self.scope.pop()
        out.append(pad + "fxThen r_ (fun w => do")
        if not forgotten:
            out.append(pad + f"  fxThen (fxEff ({drop_fx})) (fun w => do")
            out += self.seq(after, ind + 2, where)
            out[-1] += "))"
        else:
            out += self.seq(after, ind + 1, where)
            out[-1] += ")"
        return out

    def signature(self, lean_name):
        ps = " ".join(self.params)
        if self.fx:
            head = "(φ : Nat → Bool) " + ("(mk : Nat → α) " if self.has_default else "") + "(es : Nat) (order_ : Order) " \
                   + (ps + " " if ps else "") + "(w : Effects.World α)"
            rty = "M (FxR α)"
        else:
            head = "(es : Nat) (self_ : Hdr) (self_data : Array α)" + (" " + ps if ps else "") + (" (dflt : α)" if self.has_default else "")
            rty = "M (Matrix α)" if self.plain else "M (Except Error Unit × Matrix α)"
        return f"def {lean_name}{'_fx' if self.fx else ''} {{α : Type}} {head}", rty

    def emit(self, lean_name):
        sig, rty = self.signature(lean_name)
        body = self.seq(self.ast["body"], 1, "fn")
        return f"{sig} :\n    {rty} := do\n" + "\n".join(body) + "\n", sig, rty


STATE_JOBS = ["resize", "clear", "shrink_to_fit", "shrink_to"]
STATE_SIG = {
    ("resize", "pure"): ("def Matrix.resize {α : Type} (es : Nat) (self_ : Hdr) (self_data : Array α) (shape : Shape) (dflt : α)",
                         "M (Except Error Unit × Matrix α)"),
    ("resize", "fx"): ("def Matrix.resize_fx {α : Type} (φ : Nat → Bool) (mk : Nat → α) (es : Nat) (order_ : Order) (shape : Shape) (w : Effects.World α)",
                       "M (FxR α)"),
    ("clear", "pure"): ("def Matrix.clear {α : Type} (es : Nat) (self_ : Hdr) (self_data : Array α)", "M (Matrix α)"),
    ("clear", "fx"): ("def Matrix.clear_fx {α : Type} (φ : Nat → Bool) (es : Nat) (order_ : Order) (w : Effects.World α)", "M (FxR α)"),
    ("shrink_to_fit", "pure"): ("def Matrix.shrink_to_fit {α : Type} (es : Nat) (self_ : Hdr) (self_data : Array α)", "M (Matrix α)"),
    ("shrink_to_fit", "fx"): ("def Matrix.shrink_to_fit_fx {α : Type} (φ : Nat → Bool) (es : Nat) (order_ : Order) (w : Effects.World α)", "M (FxR α)"),
    ("shrink_to", "pure"): ("def Matrix.shrink_to {α : Type} (es : Nat) (self_ : Hdr) (self_data : Array α) (min_capacity : Nat)", "M (Matrix α)"),
    ("shrink_to", "fx"): ("def Matrix.shrink_to_fx {α : Type} (φ : Nat → Bool) (es : Nat) (order_ : Order) (min_capacity : Nat) (w : Effects.World α)",
                          "M (FxR α)"),
}

HEADER = """/-
GENERATED by translate/t14.py from /repo/src/lib.rs (`resize`, `clear`, `shrink_to_fit`, `shrink_to`, `map`, `map_ref`, `apply`)
and /repo/src/arithmetic.rs (`scalar_operation`, `scalar_operation_consume_self`, `scalar_operation_assign`) on every run —
do not edit.  `es` / `es_X` is `size_of::<X>()`; `self_data` is `self.data`; `dflt` is the value of an effect-free
`T::default()`.  The `_fx` functions run the same statements on a world of Model/Effects.lean under a fault schedule `φ`
(`mk k` = what callback number `k`, a `T::default()`, returns): `Vec::truncate` / `clear` / `resize_with` are the
primitives `Effects.truncate` / `Effects.growWith`; a statement after an effect runs only if the effect completed.
-/
import Matreex.Gen.Core
import Matreex.Gen.Simple
import Matreex.Model.Matrix
import Matreex.Model.Mem
import Matreex.Model.Construct
import Matreex.Model.Effects

set_option linter.unusedVariables false

namespace Matreex.Gen
open Matreex

/-- what an `_fx` function yields: the `Result` it returns (meaningful when the outcome is `done`), the surviving world
and the outcome -/
abbrev FxR (α : Type) := Except Error Unit × (Effects.World α × Effects.Outcome)

/-- an effect of the vocabulary in statement position -/
def fxEff {α : Type} (r : Effects.World α × Effects.Outcome) : FxR α := (Except.ok (), r)

/-- `s; rest`: the rest runs only if `s` completed (no early `Err`, no unwinding) -/
def fxThen {α : Type} (r : FxR α) (k : Effects.World α → M (FxR α)) : M (FxR α) :=
  match r.1, r.2.2 with
  | .ok (), .done => k r.2.1
  | _, _ => pure r

/-- `Vec::resize_with(n, f)`: `truncate(n)` if `n ≤ len`, else push `f()` until `n` elements are stored -/
def fxResizeWith {α : Type} (φ : Nat → Bool) (mk : Nat → α) (n : Nat) (w : Effects.World α) :
    Effects.World α × Effects.Outcome :=
  if n ≤ w.mat.data.length then Effects.truncate φ n w else Effects.growWith φ mk (n - w.mat.data.length) w

/-- `let g = Guard { .. }; body; mem::forget(g)`: if `body` unwinds, `Guard::drop` runs during the unwinding; a panic
in there is a panic while panicking -/
def fxGuarded {α : Type} (body : M (FxR α)) (onDrop : Effects.World α → Effects.World α × Effects.Outcome) :
    M (FxR α) := do
  let r ← body
  match r.2.2 with
  | .unwound =>
    match (onDrop r.2.1).2 with
    | .done => pure (r.1, ((onDrop r.2.1).1, Effects.Outcome.unwound))
    | _ => pure (r.1, ((onDrop r.2.1).1, Effects.Outcome.aborted))
  | _ => pure r

"""


def axis_default_ok(root):
    """`AxisShape::default()` is the zero shape: `#[derive(.., Default, ..)] struct AxisShape { major: usize, minor: usize }`"""
    try:
        src = strip_rust_comments(open(f"{root}/shape.rs").read())
    except OSError:
        return False
    m = re.search(r"#\[derive\(([^)]*)\)\]\s*pub(?:\([^)]*\))?\s+struct\s+AxisShape\s*\{([^}]*)\}", src)
    if not m or "Default" not in [x.strip() for x in m.group(1).split(",")]: return False
    fields = [re.sub(r"\s+", "", f) for f in m.group(2).split(",") if f.strip()]
    fields = [re.sub(r"^pub(\([^)]*\))?", "", f) for f in fields]
    return fields == ["major:usize", "minor:usize"]


def run_t14(root):
    out, done, failed = [], [], []
    srcs = {}
    def src_of(f):
        if f not in srcs:
            try: srcs[f] = strip_rust_comments(open(f"{root}/{f}").read())
            except OSError: srcs[f] = ""
        return srcs[f]
    delegates = lib_delegates(root)
    adef = axis_default_ok(root)
    # part B
    for name in STATE_JOBS:
        for mode in ("pure", "fx"):
            lean_name = "Matrix." + name
            shown = lean_name + ("_fx" if mode == "fx" else "")
            want = STATE_SIG[(name, mode)]
            body = None
            try:
                impl_param, text = locate(src_of("lib.rs"), name)
                if impl_param != "T": raise Untranslatable("the impl's type parameter is not `T`")
                ast = R14(drop_lifetimes(lex(text))).header()
                body, sig, rty = St14(ast, mode, delegates, adef).emit(lean_name)
                shape = lambda s: re.sub(r"\((\w+|«\w+») :", "(_ :", s)
                if shape(sig) != shape(want[0]) or rty != want[1]:
                    raise Untranslatable(f"signature changed: {sig} : {rty}")
                done.append(shown)
            except Untranslatable as ex:
                failed.append((shown, str(ex))); body = None
            except Exception as ex:
                failed.append((shown, f"not parsed ({type(ex).__name__}: {ex})")); body = None
            if body is None:
                body = f"{want[0]} :\n    {want[1]} :=\n  .error (.panic \"untranslatable\")\n"
            out.append(body)
    # part A
    for f, name, lean_name, fallback in WALK_JOBS:
        try:
            impl_param, text = locate(src_of(f), name)
            ast = F9(drop_lifetimes(lex(text))).header()
            body = Fn14(impl_param, ast, delegates).emit(lean_name)
            want = fallback.format(n=lean_name)
            got = body[:body.index(" := do")]
            shape = lambda s: re.sub(r"\((\w+|«\w+») :", "(_ :", re.sub(r"\s+", " ", s))
            if shape(got) != shape(want): raise Untranslatable(f"signature changed: {re.sub(chr(10), ' ', got)}")
            out.append(body); done.append(lean_name)
        except Untranslatable as ex:
            failed.append((lean_name, str(ex)))
            out.append(fallback.format(n=lean_name) + " :=\n  .error (.panic \"untranslatable\")\n")
        except Exception as ex:
            failed.append((lean_name, f"not parsed ({type(ex).__name__}: {ex})"))
            out.append(fallback.format(n=lean_name) + " :=\n  .error (.panic \"untranslatable\")\n")
    return HEADER + "\n".join(out) + "\nend Matreex.Gen\n", done, failed


if __name__ == "__main__":
    root = sys.argv[1] if len(sys.argv) > 1 else "/repo/src"
    text, done, failed = run_t14(root)
    print(text)
    print(done, failed, file=sys.stderr)
