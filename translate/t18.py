#!/usr/bin/env python3
"""Translator T18 ("scalar operator impls and `Neg`"): the `macro_rules!`-generated operator impls between a matrix and a
primitive scalar of src/arithmetic/{add,sub,mul,div,rem}.rs and the two `Neg` impls of src/arithmetic/neg.rs -> Lean 4
functions and instantiation tables (`Gen/T18Gen.lean`), regenerated on every run.

What is generated (namespace Matreex.Gen; a matrix is its header `self_ : Hdr` and its buffer `self_data : Array T`)
  * per file M.rs (M = add | sub | mul | div | rem), ONE function per `impl` that occurs inside a macro arm, the
    metavariables kept symbolic (they become the type variables T = element type of the matrix, S = type of the scalar
    operand, U = element type of the result, by ROLE in the impl header, whatever the metavariables are called):
        impl M<s> for Matrix<t>        Matrix.scalar_M_own_val   (ops : PrimOps T S U) (es_T es_S es_U) (self_) (self_data) (rhs : S) : M (Matrix U)
        impl M<s> for &Matrix<t>       Matrix.scalar_M_ref_val          "
        impl M<Matrix<t>> for s        Matrix.scalar_M_val_own   (ops : PrimOps S T U) (es_T es_S es_U) (self_ : S) (rhs) (rhs_data) : M (Matrix U)
        impl M<&Matrix<t>> for s       Matrix.scalar_M_val_ref          "
        impl MAssign<t> for Matrix<t>  Matrix.scalar_M_assign_val (aops : PrimAssignOps T T) (es_T) (self_) (self_data) (rhs : T) : M (Matrix T)
        impl MAssign<&t> for Matrix<t> Matrix.scalar_M_assign_ref (aops : PrimAssignOps T S) (es_T es_S) (self_) (self_data) (rhs : S) : M (Matrix T)
    (`_val` / `_ref` for the scalar: the scalar's type expression is a metavariable / `&` metavariable; two type
    expressions with the same text are the same type variable).  The record the closure's operator is taken from is
    typed by the closure's operand order: `a OP b` with a : A, b : B reads `ops.OP a b` with `ops : PrimOps A B U`, so
    exchanged operands change the TYPE of `ops` and the bridge no longer elaborates.
  * `scalarImpls : List ScalarImpl`: per generated function the header form (module, trait, matrix on the left?, matrix
    owned?, assign?) and the list of its instantiations `(element type, scalar type, output type)` as type expressions
    `.t` / `.ref .t` over the metavariable of the top-level macro: the tuples the helper macro is invoked with inside
    the top-level macro, substituted positionally through the helper's matcher into the roles of each impl header;
    an impl written directly in the top-level macro has the one instantiation its header spells.  Sorted by name.
  * `scalarTypes_M : List String`: the types the top-level macro of M.rs is invoked with at module level, text order.
  * neg.rs: `Matrix.neg_own` / `Matrix.neg_ref (neg : T → U) (cloneT : T → T) (es_T es_U) (self_) (self_data) : M (Matrix U)`
    for `impl<..> Neg for Matrix<T>` / `for &Matrix<T>`; `negImpls : List NegImpl`: form, callee and the bounds of the
    where clause (generic parameters renamed to T / U by role).  neg.rs is GENERIC — it contains no list of types; which
    primitive types have `Neg` is decided by std's impls, not by this crate.

Accepted language (anything else raises `Untranslatable`, is reported in the JSON summary, and the function becomes a
faulting stub of the expected type / its table row is missing, so that the file compiles and the bridge fails):
    file      ::= .. macro_rules! H { (HM) => { $( impl* )* } }  macro_rules! TOP { (TM) => { $( item* )* } }  TOP! { ty* } ..
                  (`(..)`, `{..}`, `[..]` interchangeable as macro delimiters; one arm per macro; a trailing `;` allowed;
                   every module-level invocation of a macro must be one of the single top-level macro defined in the file)
    TM        ::= $($x:ty)*                                  HM ::= $(($a:ty, $b:ty, ..))*      (names free, all distinct)
    item      ::= impl | H! { (TY, TY, ..)* }                (arity of HM; at most `#[inline]` attributes anywhere)
    TY        ::= $x | &TY
    impl      ::= impl Tr<TY> for [&]Matrix<TY> { type Output = Matrix<TY>; fn m(self, p: TY) -> Self::Output BODY }
                | impl Tr<[&]Matrix<TY>> for TY { type Output = Matrix<TY>; fn m(self, p: [&]Matrix<TY>) -> Self::Output BODY }
                | impl TrAssign<TY> for Matrix<TY> { fn m_assign(&mut self, p: TY) { CALL; } }
                  (Tr the trait of the file, imported from std::ops; m its method; the parameter type = the trait's argument)
    BODY      ::= { match CALL { Err(e) => panic!("{e}") , Ok(o) => o } }      (both arms, each once, either sequence;
                                                                                `panic!("{}", e)`; arm bodies may be blocks)
    CALL      ::= MAT.scalar_operation(&SC, CLOS) | MAT.scalar_operation_consume_self(&SC, CLOS) | MAT.scalar_operation_assign(&SC, CLOS)
                  MAT / SC: `self` and the parameter, whichever the header makes the matrix / the scalar;
                  `_consume_self` needs an owned matrix, `_assign` the `&mut self` of a compound assignment
    CLOS      ::= |a, b| X OP Y   |   |a, b| *a OP= Y           OP ::= + - * / %     (optionally in braces)
    X, Y      ::= a | b | *X | &X        each operand must come out as a VALUE of the element type resp. the scalar
                  type (one each): the reference levels of `a`, `b` are read from the `F: FnMut(..)` bound of the callee in
                  src/arithmetic.rs (`T` | `&T` | `&mut T`, `&S`), `*` takes one off, `&` adds one
    neg.rs    ::= impl<G, ..> Neg for [&]Matrix<G> where BOUNDS { type Output = Matrix<G'>; fn neg(self) -> Self::Output
                      { match self.map(NCLOS) | self.map_ref(NCLOS) { Err / Ok arms as above } } }
    NCLOS     ::= |a| N        N ::= V.neg() | -V        V ::= a | *V | &V | V.clone()     (`neg` on a value; `clone` on a
                  value or a reference yields a value; `map` passes values, `map_ref` references — from lib.rs's `FnMut` bound;
                  the bounds must contain `G: Neg<Output = G'>`, and `G: Clone` if `clone` is used)

Mapped by name (the arguments always come from the text):
    scalar_operation / _consume_self / _assign, map, map_ref     T14's GENERATED functions of Gen/T14Gen.lean
    a OP b  (a : A, b : B)                                        `ops.add a b` … `ops.rem a b`,  `ops : PrimOps A B U` (Gen/T17Gen.lean)
    *a OP= b                                                      `aops.add_assign a b` …: the new value of `a`
    v.neg() / -v                                                  `neg v`  (the element type's `Neg::neg`);   v.clone() = `cloneT v`
    &x / *x                                                       transparent (references are not modelled), but counted (see X, Y)
    match r { Err(e) => panic!("{e}"), Ok(o) => o }               `.error e => Except.error (Fault.panic (Error.name e))`, `.ok o => pure o`
Locals, parameters and binders keep their Rust names (Lean keywords quoted; a name the generated code binds itself is
untranslatable).
"""
import re, sys, os
sys.path.insert(0, os.path.dirname(os.path.abspath(__file__)))
from t2 import lex, Untranslatable, strip_rust_comments
from t6 import lean_id as quote_kw
from t9 import F9, locate, drop_lifetimes
from t17 import S17, demacro, drop_attrs_lifetimes, cut_tests

MODS = [("add", "Add", "+"), ("sub", "Sub", "-"), ("mul", "Mul", "*"), ("div", "Div", "/"), ("rem", "Rem", "%")]
OPNAME = {"+": "add", "-": "sub", "*": "mul", "/": "div", "%": "rem"}
MV = "mv__"
RESERVED = set("""self_ self_data st_ ops aops neg cloneT es_T es_S es_U T S U pure bind fun do let if then else match with M
 Nat List Array Hdr AxisShape Shape Order Error Except Matrix Fault PrimOps PrimAssignOps true false Unit""".split())
FORMS = ("own_val", "ref_val", "val_own", "val_ref", "assign_val", "assign_ref")


def ident(name, what):
    if name in RESERVED or re.fullmatch(r"t\d+", name) or name.endswith("_data") or name.startswith(MV):
        raise Untranslatable(f"{what} `{name}` collides with a name of the generated code")
    return quote_kw(name)


def nows(s):
    return re.sub(r"\s+", "", s)


# ------------------------------------------------------------------ delimiters, macros, items
OPEN = {"(": ")", "{": "}", "[": "]"}


def group_end(src, i):
    """index just after the group that opens at src[i]; string literals are skipped"""
    stack, j = [OPEN[src[i]]], i + 1
    while stack:
        if j >= len(src): raise Untranslatable("unbalanced delimiters")
        c = src[j]
        if c == '"':
            j += 1
            while j < len(src) and src[j] != '"':
                j += 2 if src[j] == "\\" else 1
        elif c in OPEN: stack.append(OPEN[c])
        elif c in ")}]":
            if c != stack.pop(): raise Untranslatable("unbalanced delimiters")
        j += 1
    return j


def macro_defs(src):
    """{name: text between the delimiters of `macro_rules! name { .. }`}, and the source with the definitions blanked"""
    defs, spans = {}, []
    for m in re.finditer(r"\bmacro_rules\s*!\s*(\w+)\s*([\{\(\[])", src):
        if spans and m.start() < spans[-1][1]: raise Untranslatable("macro_rules! inside a macro definition")
        j = group_end(src, m.end() - 1)
        if m.group(1) in defs: raise Untranslatable(f"macro {m.group(1)} is defined twice")
        defs[m.group(1)] = src[m.end():j - 1]; spans.append((m.start(), j))
    rest, k = [], 0
    for a, b in spans:
        rest.append(src[k:a]); k = b
    rest.append(src[k:])
    return defs, " ; ".join(rest)


def single_arm(body, name):
    s = body.strip()
    if not s or s[0] not in OPEN: raise Untranslatable(f"macro {name}: no matcher")
    j = group_end(s, 0); matcher = s[1:j - 1]
    rest = s[j:].lstrip()
    if not rest.startswith("=>"): raise Untranslatable(f"macro {name}: `=>` expected after the matcher")
    rest = rest[2:].lstrip()
    if not rest or rest[0] not in OPEN: raise Untranslatable(f"macro {name}: no transcriber")
    k = group_end(rest, 0)
    if rest[k:].strip() not in ("", ";"): raise Untranslatable(f"macro {name}: more than one arm")
    return matcher, rest[1:k - 1]


def repetition(trans, name):
    """the text inside `$( .. )*` when the transcriber is exactly that"""
    s = trans.strip()
    if not re.match(r"\$\s*\(", s): raise Untranslatable(f"macro {name}: the transcriber is not `$( .. )*`")
    i = s.index("(")
    j = group_end(s, i)
    if s[j:].strip() != "*": raise Untranslatable(f"macro {name}: the transcriber is not a single `$( .. )*`")
    return s[i + 1:j - 1]


def matcher_kind(matcher, name):
    m = nows(matcher)
    a = re.fullmatch(r"\$\(\$(\w+):ty\)\*", m)
    if a: return "list", [a.group(1)]
    b = re.fullmatch(r"\$\(\(((?:\$\w+:ty,)*\$\w+:ty),?\)\)\*", m)
    if b:
        vs = re.findall(r"\$(\w+):ty", b.group(1))
        if len(set(vs)) != len(vs): raise Untranslatable(f"macro {name}: a metavariable is bound twice")
        return "tuples", vs
    raise Untranslatable(f"macro {name}: matcher `{matcher.strip()}` is neither `$($x:ty)*` nor `$(($a:ty, ..))*`")


ATTR_OK = ("#[inline]", "#[inline(always)]")


def skip_attr(text, i, what):
    m = re.match(r"#\s*\[", text[i:])
    if not m: raise Untranslatable(f"{what}: unexpected `#`")
    j = group_end(text, i + m.end() - 1)
    if nows(text[i:j]) not in ATTR_OK: raise Untranslatable(f"{what}: attribute `{text[i:j]}`")
    return j


def items(text, what):
    """[("impl", header text, body text) | ("inv", macro name, argument text)] — nothing else may occur"""
    out, i = [], 0
    while True:
        while i < len(text) and text[i].isspace(): i += 1
        if i >= len(text): return out
        if text[i] == "#":
            i = skip_attr(text, i, what); continue
        if re.match(r"impl\b", text[i:]):
            try: k = text.index("{", i)
            except ValueError: raise Untranslatable(f"{what}: impl without a body")
            j = group_end(text, k)
            out.append(("impl", text[i:k], text[k + 1:j - 1])); i = j; continue
        m = re.match(r"(\w+)\s*!\s*([\{\(\[])", text[i:])
        if m:
            k = i + m.end() - 1; j = group_end(text, k)
            out.append(("inv", m.group(1), text[k + 1:j - 1])); i = j
            while i < len(text) and text[i].isspace(): i += 1
            if i < len(text) and text[i] == ";": i += 1
            continue
        raise Untranslatable(f"{what}: item `{text[i:i + 40].split(chr(10))[0]}`")


def module_invocations(rest):
    """macro invocations at brace depth 0 of the module (macro definitions already removed)"""
    out, i, depth = [], 0, 0
    while i < len(rest):
        c = rest[i]
        if c == '"':
            i += 1
            while i < len(rest) and rest[i] != '"': i += 2 if rest[i] == "\\" else 1
            i += 1; continue
        if c in OPEN: depth += 1
        elif c in ")}]": depth -= 1
        elif depth == 0 and (c.isalpha() or c == "_") and (i == 0 or not (rest[i - 1].isalnum() or rest[i - 1] == "_")):
            m = re.match(r"(\w+)\s*!\s*([\{\(\[])", rest[i:])
            if m:
                k = i + m.end() - 1; j = group_end(rest, k)
                out.append((m.group(1), rest[k + 1:j - 1])); i = j; continue
            i += len(re.match(r"\w+", rest[i:]).group(0)); continue
        i += 1
    return out


# ------------------------------------------------------------------ types
def parse_type(text):
    p = S17(drop_attrs_lifetimes(lex(text)))
    t = p.pty()
    if p.peek()[0] != "eof": raise Untranslatable(f"type `{text.strip()}`")
    return t


def tyexpr(t, bases=None):
    """(base, number of `&`) of `&..&X`, X a metavariable (or one of `bases`)"""
    d = 0
    while t[0] == "ref":
        t = t[1]; d += 1
    if t[0] == "ty" and not t[2] and (t[1].startswith(MV) if bases is None else t[1] in bases): return (t[1], d)
    raise Untranslatable("a type that is neither a metavariable nor a reference to one")


def matrix_of(t, bases=None):
    """(owned?, element type expression) of `[&]Matrix<X>`, or None"""
    owned = True
    if t[0] == "ref": owned = False; t = t[1]
    if t[0] == "ty" and t[1] == "Matrix" and len(t[2]) == 1: return owned, tyexpr(t[2][0], bases)
    return None


def show(te):
    return "&" * te[1] + te[0].replace(MV, "$")


# ------------------------------------------------------------------ the callees (read from src/arithmetic.rs, src/lib.rs)
def callee_sigs(root):
    """name -> dict(recv, scalar (has a `&S` parameter), levels (reference level of each closure parameter), mut, result)
    or the Untranslatable explaining why the signature is not the expected shape"""
    out = {}
    for f, name, nparams in (("arithmetic.rs", "scalar_operation", 2), ("arithmetic.rs", "scalar_operation_consume_self", 2),
                             ("arithmetic.rs", "scalar_operation_assign", 2), ("lib.rs", "map", 1), ("lib.rs", "map_ref", 1)):
        try:
            try: src = strip_rust_comments(open(f"{root}/{f}").read())
            except OSError: raise Untranslatable(f"{f} not found")
            ip, text = locate(src, name)
            ast = F9(drop_lifetimes(lex(text))).header()
            ps = ast["params"]
            if len(ps) != nparams: raise Untranslatable("parameters")
            scalar = None
            if nparams == 2:
                pt = ps[0][1]
                if not (pt[0] == "ref" and pt[1][0] == "ty" and not pt[1][2] and pt[1][1] in ast["generics"] and pt[1][1] != ip):
                    raise Untranslatable("the scalar parameter is not `&S`")
                scalar = pt[1][1]
            ft = ps[-1][1]
            if not (ft[0] == "ty" and ft[1] in ast["bounds"]): raise Untranslatable("the last parameter is not a closure")
            cargs, cret = ast["bounds"][ft[1]]
            if len(cargs) != nparams: raise Untranslatable("closure arity")
            e = cargs[0]; lvl, mut = 0, False
            if e[0] in ("ref", "mutref"): lvl, mut, e = 1, e[0] == "mutref", e[1]
            if e != ("ty", ip, []): raise Untranslatable("the closure's first parameter is not the element type")
            levels = [lvl]
            if nparams == 2:
                if cargs[1] != ("ref", ("ty", scalar, [])): raise Untranslatable("the closure's second parameter is not `&S`")
                levels.append(1)
            ret = ast["ret"]
            if ret == ("mutref", ("ty", "Self", [])) and cret is None and mut: result = "self"
            elif (ret[0] == "ty" and ret[1] == "Result" and len(ret[2]) == 1 and ret[2][0][0] == "ty" and ret[2][0][1] == "Matrix"
                  and len(ret[2][0][2]) == 1 and cret is not None and ret[2][0][2][0] == cret and not mut): result = "result"
            else: raise Untranslatable("result type")
            out[name] = dict(recv=ast["recv"], scalar=scalar is not None, levels=levels, mut=mut, result=result)
        except Untranslatable as ex:
            out[name] = Untranslatable(f"callee {name}: {ex}")
        except Exception as ex:
            out[name] = Untranslatable(f"callee {name}: not parsed ({type(ex).__name__}: {ex})")
    return out


# ------------------------------------------------------------------ one impl
def operand(x, ptypes):
    """(Lean term, index of the closure parameter, reference level) of `a | *X | &X`"""
    if x[0] == "ref":
        v, r, l = operand(x[1], ptypes); return v, r, l + 1
    if x[0] == "deref":
        v, r, l = operand(x[1], ptypes)
        if l == 0: raise Untranslatable(f"closure body: `*` applied to a value (`{v}`)")
        return v, r, l - 1
    if x[0] == "path" and len(x[1]) == 1 and x[1][0] in ptypes:
        r, l = ptypes[x[1][0]]; return quote_kw(x[1][0]), r, l
    raise Untranslatable("closure body: an operand is not a closure parameter (with `*` / `&`)")


def value_operand(x, ptypes):
    v, r, l = operand(x, ptypes)
    if l != 0: raise Untranslatable(f"closure body: operand `{v}` is used as a reference (level {l}), not as a value")
    return v, r


def unwrap_match(e, emit_call, bind_check):
    """`match CALL { Err(e) => panic!("{e}"), Ok(o) => o }` -> lines"""
    if e[0] != "match": raise Untranslatable("the body is not `match CALL { Err(e) => panic!(..), Ok(o) => o }`")
    call = emit_call(e[1])
    arms = e[2]
    if sorted(tuple(a[0]) for a in arms) != [("Err",), ("Ok",)] or not all(a[1] for a in arms):
        raise Untranslatable("match on a Result: the arms are not Err(x) and Ok(y), each once")
    out = [f"  let t1 ← {call}", "  match t1 with"]
    for path, b, body in arms:
        bn = bind_check(b)
        while len(body) == 1 and body[0][0] == "tail" and body[0][1][0] == "blockx": body = body[0][1][1]
        if len(body) != 1 or body[0][0] not in ("tail", "do"): raise Untranslatable("match arm: more than one expression")
        x = body[0][1]
        if path == ["Err"]:
            if not (x[0] == "call" and x[1] == ["__panic_display"] and x[2] == [("path", [b])]):
                raise Untranslatable("the Err arm is not `panic!` displaying the error it binds")
            out += [f"  | .error {bn} => do", f"    Except.error (Fault.panic (Error.name {bn}))"]
        else:
            if body[0][0] != "tail" or x != ("path", [b]): raise Untranslatable("the Ok arm does not yield the value it binds")
            out += [f"  | .ok {bn} => do", f"    pure {bn}"]
    return out


def fn_of(body_text, want_output, what):
    """(Output type text | None, fn text) of an impl body: `[type Output = ..;] fn .. { .. }`, `#[inline]` allowed"""
    i, out_ty, fn = 0, None, None
    while True:
        while i < len(body_text) and body_text[i].isspace(): i += 1
        if i >= len(body_text): break
        if body_text[i] == "#":
            i = skip_attr(body_text, i, what); continue
        m = re.match(r"type\s+Output\s*=\s*([^;]*);", body_text[i:])
        if m:
            if out_ty is not None: raise Untranslatable(f"{what}: two `type Output`")
            out_ty = m.group(1); i += m.end(); continue
        if re.match(r"fn\b", body_text[i:]):
            if fn is not None: raise Untranslatable(f"{what}: more than one fn")
            try: k = body_text.index("{", i)
            except ValueError: raise Untranslatable(f"{what}: fn without a body")
            j = group_end(body_text, k); fn = body_text[i:j]; i = j; continue
        raise Untranslatable(f"{what}: item `{body_text[i:i + 40].split(chr(10))[0]}`")
    if fn is None: raise Untranslatable(f"{what}: no fn")
    if want_output and out_ty is None: raise Untranslatable(f"{what}: no `type Output`")
    if not want_output and out_ty is not None: raise Untranslatable(f"{what}: `type Output` in a compound-assignment impl")
    return out_ty, fn


def parse_fn(fn_text):
    return S17(drop_attrs_lifetimes(lex(demacro(fn_text)))).header()


def split_header(head):
    """(trait, argument type text, self type text) of `impl Tr<ARG> for SELF`"""
    h = head.strip()
    if re.match(r"impl\s*<", h): raise Untranslatable("generic parameters on an impl inside a macro")
    if re.search(r"\bwhere\b", h): raise Untranslatable("where clause on an impl inside a macro")
    m = re.fullmatch(r"impl\s+(\w+)\s*<(.*)>\s*for\s+(.*)", h, flags=re.S)
    if not m: raise Untranslatable(f"impl header `{nows(h)}`")
    return m.group(1), m.group(2), m.group(3)


def translate_impl(mod, trait_name, head, body_text, sigs, imported):
    """one `impl` of a macro arm -> dict(name, lean, roles (EL, SC, OUT), left, owned, assign, trait)"""
    head = head.replace("$", MV); body_text = body_text.replace("$", MV)
    tr, arg_text, self_text = split_header(head)
    if tr not in (trait_name, trait_name + "Assign"):
        raise Untranslatable(f"`impl {tr}` in arithmetic/{mod}.rs: not the operator trait of the file")
    if tr not in imported: raise Untranslatable(f"`{tr}` is not imported from std::ops")
    assign = tr.endswith("Assign")
    arg, slf = parse_type(arg_text), parse_type(self_text)
    ml, mr = matrix_of(slf), matrix_of(arg)
    if ml and not mr:
        left, (owned, EL), SC = True, ml, tyexpr(arg)
    elif mr and not ml:
        left, (owned, EL), SC = False, mr, tyexpr(slf)
    else:
        raise Untranslatable(f"impl header `{nows(head)}`: not one matrix and one scalar")
    if assign and not (left and owned): raise Untranslatable("compound assignment whose left operand is not an owned matrix")
    if SC[1] > 1: raise Untranslatable("scalar type with more than one `&`")
    sform = "val" if SC[1] == 0 else "ref"
    mform = "own" if owned else "ref"
    form = f"assign_{sform}" if assign else (f"{mform}_{sform}" if left else f"{sform}_{mform}")
    name = f"Matrix.scalar_{mod}_{form}"
    what = f"impl {nows(head)[4:]}"
    out_text, fn_text = fn_of(body_text, not assign, what)
    OUT = None
    if not assign:
        mo = matrix_of(parse_type(out_text))
        if not mo or not mo[0]: raise Untranslatable("`type Output` is not `Matrix<..>`")
        OUT = mo[1]
    ast = parse_fn(fn_text)
    method = mod + ("_assign" if assign else "")
    if ast["name"] != method: raise Untranslatable(f"fn {ast['name']}: the method of {tr} is `{method}`")
    if ast["generics"]: raise Untranslatable("generic parameters on the method")
    if ast["recv"] != ("mut" if assign else "own"): raise Untranslatable("the receiver is not " + ("`&mut self`" if assign else "`self`"))
    if len(ast["params"]) != 1 or ast["params"][0][1] != arg: raise Untranslatable("the parameter's type is not the trait's argument")
    if ast["ret"] != (None if assign else ("ty", "Self::Output", [])): raise Untranslatable("the result type is not " + ("()" if assign else "Self::Output"))
    pn = ast["params"][0][0]; ident(pn, "parameter")
    # type variables by role; equal text = equal variable
    names = {EL: "T"}
    if SC not in names: names[SC] = "S"
    if OUT is not None and OUT not in names: names[OUT] = "U"
    tv = lambda te: names[te]
    RES = EL if assign else OUT
    # the values in scope
    mat_form = "mut" if assign else ("own" if owned else "ref")
    if left: env = {"self": ("mat",), pn: ("sc",)}
    else: env = {"self": ("sc",), pn: ("mat",)}
    lean_of = {"self": "self_", pn: quote_kw(pn)}
    used = {}

    def emit_call(e):
        if e[0] != "mcall": raise Untranslatable("not a method call on the matrix")
        recv, cname, args = e[1], e[2], e[3]
        if not (recv[0] == "path" and len(recv[1]) == 1 and env.get(recv[1][0]) == ("mat",)):
            raise Untranslatable("the receiver of the call is not the matrix operand")
        if cname not in ("scalar_operation", "scalar_operation_consume_self", "scalar_operation_assign"):
            raise Untranslatable(f"method .{cname}: not in the vocabulary")
        sig = sigs[cname]
        if isinstance(sig, Exception): raise sig
        if sig["recv"] == "own" and mat_form != "own": raise Untranslatable(f"{cname} on a matrix that is not owned")
        if sig["recv"] == "mut" and mat_form != "mut": raise Untranslatable(f"{cname} on a matrix that is not `&mut`")
        if (sig["result"] == "self") != assign: raise Untranslatable(f"{cname} in " + ("a compound-assignment" if assign else "an operator") + " impl")
        if len(args) != 2 or args[1][0] != "closure": raise Untranslatable(f"{cname}: arguments")
        a0 = args[0]
        if not (a0[0] == "ref" and a0[1][0] == "path" and len(a0[1][1]) == 1 and env.get(a0[1][1][0]) == ("sc",)):
            raise Untranslatable(f"{cname}: the first argument is not `&` the scalar operand")
        ps, cb = args[1][1], args[1][2]
        if len(ps) != 2 or ps[0] == ps[1]: raise Untranslatable("the closure does not take two parameters")
        for p in ps: ident(p, "closure parameter")
        ptypes = {ps[0]: (0, sig["levels"][0]), ps[1]: (1, sig["levels"][1])}
        role = (EL, SC)
        if assign:
            if cb[0] != "cassign" or cb[1] != ps[0] or not cb[2] or cb[3] not in OPNAME:
                raise Untranslatable("closure body: not `*ELEMENT OP= EXPR`")
            v, r = value_operand(cb[4], ptypes)
            if r != 1: raise Untranslatable("closure body: the right operand of the compound assignment is not the scalar")
            used["aops"] = f"(aops : PrimAssignOps {tv(EL)} {tv(SC)})"
            clo = f"(fun {quote_kw(ps[0])} {quote_kw(ps[1])} => aops.{OPNAME[cb[3]]}_assign {quote_kw(ps[0])} {v})"
        else:
            if cb[0] != "bin" or cb[1] not in OPNAME: raise Untranslatable("closure body: not `A OP B`")
            (a, ra), (b, rb) = value_operand(cb[2], ptypes), value_operand(cb[3], ptypes)
            if ra == rb: raise Untranslatable("closure body: both operands are the same parameter")
            used["ops"] = f"(ops : PrimOps {tv(role[ra])} {tv(role[rb])} {tv(OUT)})"
            clo = f"(fun {quote_kw(ps[0])} {quote_kw(ps[1])} => ops.{OPNAME[cb[1]]} {a} {b})"
        m, s = recv[1][0], a0[1][1][0]
        mh = lean_of[m]; md = "self_data" if m == "self" else f"{m}_data"
        ess = f"es_{tv(EL)} es_{tv(SC)}" + ("" if assign else f" es_{tv(OUT)}")
        return f"Matreex.Gen.Matrix.{cname} {ess} {mh} {md} {lean_of[s]} {clo}"

    sts = ast["body"]
    if assign:
        if len(sts) != 1 or sts[0][0] != "do": raise Untranslatable("the body is not a single statement `CALL;`")
        lines = [f"  let st_ ← {emit_call(sts[0][1])}", "  let self_ : Hdr := st_.hdr", f"  let self_data : Array {tv(EL)} := st_.data",
                 f"  pure ({{ order := self_.order, shape := self_.shape, data := self_data }} : Matrix {tv(EL)})"]
    else:
        if len(sts) != 1 or sts[0][0] != "tail": raise Untranslatable("the body is not a single expression")
        lines = unwrap_match(sts[0][1], emit_call, lambda b: ident(b, "binder"))
    tvs = []
    for te in (EL, SC, OUT):
        if te is not None and names[te] not in tvs: tvs.append(names[te])
    es = " ".join(f"es_{v}" for v in tvs)
    rec = used.get("aops") or used.get("ops")
    if left: vals = f"(self_ : Hdr) (self_data : Array {tv(EL)}) ({quote_kw(pn)} : {tv(SC)})"
    else: vals = f"(self_ : {tv(SC)}) ({quote_kw(pn)} : Hdr) ({pn}_data : Array {tv(EL)})"
    doc = ("/-- `" + re.sub(r"\s+", " ", head.strip()).replace(MV, "$") + "`"
           + ("" if assign else f", `Output = Matrix<{show(OUT)}>`") + f":  T = `{show(EL)}`"
           + (f", S = `{show(SC)}`" if names[SC] == "S" else "")
           + (f", U = `{show(OUT)}`" if OUT is not None and names[OUT] == "U" else "") + " -/\n")
    lean = (doc + f"def {name} {{{' '.join(tvs)} : Type}} {rec} ({es} : Nat) {vals} :\n    M (Matrix {tv(RES)}) := do\n"
            + "\n".join(lines) + "\n")
    return dict(name=name, lean=lean, roles=(EL, SC, EL if assign else OUT), left=left, owned=owned, assign=assign, trait=tr)


# ------------------------------------------------------------------ one file
def std_ops_imports(src):
    got = set()
    for m in re.finditer(r"\buse\s+(?:std|core)::ops::(\{[^}]*\}|\w+)\s*;", src):
        got |= set(re.findall(r"\w+", m.group(1)))
    return got


def tyx(d):
    return ".t" if d == 0 else ".ref " + (tyx(d - 1) if d == 1 else "(" + tyx(d - 1) + ")")


def translate_module(root, mod, trait_name, sigs):
    """-> (functions: {name: lean text}, rows, types (list | None), failed)"""
    failed, funcs, rows = [], {}, []
    f = f"arithmetic/{mod}.rs"
    try:
        try: src = cut_tests(strip_rust_comments(open(f"{root}/{f}").read()))
        except OSError: raise Untranslatable(f"{f} not found")
        if MV in src: raise Untranslatable(f"`{MV}` occurs in the source")
        if not re.search(r"\buse\s+crate::Matrix\s*;", src): raise Untranslatable("`Matrix` is not `crate::Matrix`")
        imported = std_ops_imports(src)
        defs, rest = macro_defs(src)
        invs = module_invocations(rest)
        tops = []
        for n, _ in invs:
            if n not in defs: raise Untranslatable(f"module-level invocation of `{n}!`, which is not defined in the file")
            if n not in tops: tops.append(n)
        if len(tops) != 1: raise Untranslatable(f"{len(tops)} top-level macros are invoked at module level (expected one)")
        top = tops[0]
        tm, tt = single_arm(defs[top], top)
        kind, tvars = matcher_kind(tm, top)
        if kind != "list": raise Untranslatable(f"macro {top}: the matcher is not `$($x:ty)*`")
        x = tvars[0]
        types = []
        for _, argtext in invs:
            for tok in argtext.split():
                if not re.fullmatch(r"[A-Za-z_]\w*", tok): raise Untranslatable(f"`{top}!` invoked with `{tok}`, not a plain type name")
                types.append(tok)
        # (impl header, body, instantiations as substitutions helper-variable -> (number of &))
        found = []
        for it in items(repetition(tt, top), f"macro {top}"):
            if it[0] == "impl":
                found.append((it[1], it[2], None))
                continue
            h = it[1]
            if h == top: raise Untranslatable(f"macro {top} invokes itself")
            if h not in defs: raise Untranslatable(f"`{h}!` is not defined in the file")
            hm, ht = single_arm(defs[h], h)
            hkind, hvars = matcher_kind(hm, h)
            if hkind != "tuples": raise Untranslatable(f"macro {h}: the matcher is not `$(($a:ty, ..))*`")
            subs, i, a = [], 0, it[2]
            while True:
                while i < len(a) and a[i].isspace(): i += 1
                if i >= len(a): break
                if a[i] != "(": raise Untranslatable(f"`{h}!` invoked with something that is not a parenthesised tuple")
                j = group_end(a, i)
                comps = [c for c in a[i + 1:j - 1].split(",")]
                if comps and not comps[-1].strip(): comps.pop()
                if len(comps) != len(hvars): raise Untranslatable(f"`{h}!` invoked with a tuple of {len(comps)} types, its matcher takes {len(hvars)}")
                sub = {}
                for hv, c in zip(hvars, comps):
                    base, d = tyexpr(parse_type(c.replace("$", MV)))
                    if base != MV + x: raise Untranslatable(f"`{h}!` invoked with `{c.strip()}`: not over `${x}`")
                    sub[MV + hv] = d
                subs.append(sub); i = j
            for hit in items(repetition(ht, h), f"macro {h}"):
                if hit[0] != "impl": raise Untranslatable(f"macro {h} invokes `{hit[1]}!`")
                found.append((hit[1], hit[2], subs))
        for head, body, subs in found:
            label = f"{f}: " + re.sub(r"\s+", " ", head.strip())
            try:
                r = translate_impl(mod, trait_name, head, body, sigs, imported)
                if r["name"] in funcs: raise Untranslatable(f"second impl of the form {r['name']}")
                insts = []
                for sub in (subs if subs is not None else [None]):
                    row = []
                    for base, d in r["roles"]:
                        if sub is None:
                            if base != MV + x: raise Untranslatable(f"`{show((base, d))}` in macro {top}: not its metavariable")
                            row.append(d)
                        else:
                            if base not in sub: raise Untranslatable(f"`{show((base, d))}`: not a metavariable of the helper's matcher")
                            row.append(sub[base] + d)
                    insts.append(tuple(row))
                funcs[r["name"]] = r["lean"]
                rows.append((r["name"], r["trait"], r["left"], r["owned"], r["assign"], sorted(insts)))
            except Untranslatable as ex:
                failed.append((label, str(ex)))
            except Exception as ex:
                failed.append((label, f"not parsed ({type(ex).__name__}: {ex})"))
        return funcs, rows, types, failed
    except Untranslatable as ex:
        failed.append((f"{f}: scalar operator macros", str(ex)))
    except Exception as ex:
        failed.append((f"{f}: scalar operator macros", f"not parsed ({type(ex).__name__}: {ex})"))
    return {}, [], None, failed


SIG_L = "{{T S U : Type}} (ops : PrimOps T S U) (es_T es_S es_U : Nat) (self_ : Hdr) (self_data : Array T) (rhs : S) :\n    M (Matrix U)"
SIG_R = "{{T S U : Type}} (ops : PrimOps S T U) (es_T es_S es_U : Nat) (self_ : S) (rhs : Hdr) (rhs_data : Array T) :\n    M (Matrix U)"
STUB_SIG = {"own_val": SIG_L, "ref_val": SIG_L, "val_own": SIG_R, "val_ref": SIG_R,
            "assign_val": "{{T : Type}} (aops : PrimAssignOps T T) (es_T : Nat) (self_ : Hdr) (self_data : Array T) (rhs : T) :\n    M (Matrix T)",
            "assign_ref": "{{T S : Type}} (aops : PrimAssignOps T S) (es_T es_S : Nat) (self_ : Hdr) (self_data : Array T) (rhs : S) :\n    M (Matrix T)"}
NEG_SIG = "{T U : Type} (neg : T → U) (cloneT : T → T) (es_T es_U : Nat) (self_ : Hdr) (self_data : Array T) :\n    M (Matrix U)"
STUB = " :=\n  .error (.panic \"untranslatable\")\n"


# ------------------------------------------------------------------ neg.rs
def split_top(s, sep):
    out, depth, cur = [], 0, ""
    for c in s:
        if c in "<([": depth += 1
        elif c in ">)]": depth -= 1
        if c == sep and depth == 0:
            out.append(cur); cur = ""
        else: cur += c
    out.append(cur)
    return [x for x in out if x.strip()]


def translate_neg_impl(head, body_text, sigs, imported):
    h = head.strip()
    where = ""
    m = re.search(r"\bwhere\b", h)
    if m: h, where = h[:m.start()], h[m.end():]
    m = re.fullmatch(r"impl<([\w,]+)>Negfor(.*)", nows(h))
    if not m: raise Untranslatable(f"impl header `{nows(h)}`")
    if "Neg" not in imported: raise Untranslatable("`Neg` is not imported from std::ops")
    gens = m.group(1).split(",")
    mo = matrix_of(parse_type(m.group(2)), gens)
    if not mo or mo[1][1] != 0: raise Untranslatable("`Neg` is not implemented for `[&]Matrix<G>`")
    owned, (EL, _) = mo
    name = "Matrix.neg_own" if owned else "Matrix.neg_ref"
    out_text, fn_text = fn_of(body_text, True, f"impl Neg for {m.group(2)}")
    oo = matrix_of(parse_type(out_text), gens)
    if not oo or not oo[0] or oo[1][1] != 0: raise Untranslatable("`type Output` is not `Matrix<G'>`")
    OUT = oo[1][0]
    if OUT == EL: raise Untranslatable("the output element type is the input element type")
    bounds = {}
    for clause in split_top(where, ","):
        if ":" not in clause: raise Untranslatable(f"where clause `{clause.strip()}`")
        p, bs = clause.split(":", 1)
        if p.strip() not in gens: raise Untranslatable(f"where clause on `{p.strip()}`")
        bounds.setdefault(p.strip(), [])
        bounds[p.strip()] += [nows(b) for b in split_top(bs, "+")]
    ren = lambda s: re.sub(r"\b(\w+)\b", lambda mm: {EL: "T", OUT: "U"}.get(mm.group(1), mm.group(1)), s)
    if f"Neg<Output={OUT}>" not in bounds.get(EL, []): raise Untranslatable(f"no bound `{EL}: Neg<Output = {OUT}>`")
    ast = parse_fn(fn_text)
    if ast["name"] != "neg" or ast["generics"] or ast["recv"] != "own" or ast["params"] or ast["ret"] != ("ty", "Self::Output", []):
        raise Untranslatable("the method is not `fn neg(self) -> Self::Output`")
    used_clone = []

    def emit_call(e):
        if e[0] != "mcall" or e[1] != ("path", ["self"]): raise Untranslatable("not a method call on `self`")
        cname, args = e[2], e[3]
        if cname not in ("map", "map_ref"): raise Untranslatable(f"method .{cname}: not in the vocabulary")
        sig = sigs[cname]
        if isinstance(sig, Exception): raise sig
        if sig["recv"] == "own" and not owned: raise Untranslatable(f"{cname} on a borrowed matrix")
        if len(args) != 1 or args[0][0] != "closure": raise Untranslatable(f"{cname}: the argument is not a closure")
        ps, cb = args[0][1], args[0][2]
        if len(ps) != 1: raise Untranslatable("the closure does not take one parameter")
        p = ident(ps[0], "closure parameter")

        def val(x):
            """(Lean term, reference level) of a V"""
            if x[0] == "ref":
                v, l = val(x[1]); return v, l + 1
            if x[0] == "deref":
                v, l = val(x[1])
                if l == 0: raise Untranslatable("closure body: `*` applied to a value")
                return v, l - 1
            if x == ("path", [ps[0]]): return p, sig["levels"][0]
            if x[0] == "mcall" and x[2] == "clone" and not x[3]:
                v, l = val(x[1])
                if l > 1: raise Untranslatable("closure body: `clone` of a reference to a reference")
                used_clone.append(1); return f"(cloneT {v})", 0
            raise Untranslatable("closure body: the operand of the negation is not the parameter (with `*`, `&`, `.clone()`)")

        if cb[0] == "mcall" and cb[2] == "neg" and not cb[3]: inner = cb[1]
        elif cb[0] == "neg": inner = cb[1]
        else: raise Untranslatable("closure body: not a negation (`V.neg()` / `-V`)")
        v, l = val(inner)
        if l != 0: raise Untranslatable("closure body: `neg` of a reference, not of a value")
        return f"Matreex.Gen.Matrix.{cname} es_T es_U self_ self_data (fun {p} => neg {v})", cname

    callee = []

    def emit_call_(e):
        c, cn = emit_call(e); callee.append(cn); return c
    sts = ast["body"]
    if len(sts) != 1 or sts[0][0] != "tail": raise Untranslatable("the body is not a single expression")
    lines = unwrap_match(sts[0][1], emit_call_, lambda b: ident(b, "binder"))
    if used_clone and "Clone" not in bounds.get(EL, []): raise Untranslatable(f"`clone` without a bound `{EL}: Clone`")
    doc = f"/-- `impl<{', '.join(gens)}> Neg for {'' if owned else '&'}Matrix<{EL}>`, `Output = Matrix<{OUT}>`: T = `{EL}`, U = `{OUT}` -/\n"
    lean = doc + f"def {name} {NEG_SIG} := do\n" + "\n".join(lines) + "\n"
    brow = sorted((ren(p), sorted(ren(b) for b in bs)) for p, bs in bounds.items())
    return dict(name=name, lean=lean, owned=owned, callee=callee[0], bounds=brow)


def translate_neg(root, sigs):
    failed, funcs, rows = [], {}, []
    f = "arithmetic/neg.rs"
    try:
        try: src = cut_tests(strip_rust_comments(open(f"{root}/{f}").read()))
        except OSError: raise Untranslatable(f"{f} not found")
        if not re.search(r"\buse\s+crate::Matrix\s*;", src): raise Untranslatable("`Matrix` is not `crate::Matrix`")
        imported = std_ops_imports(src)
        if re.search(r"\bmacro_rules\b|\w+\s*!\s*[\{\(\[]", re.sub(r"\bpanic\s*!", "", src)): raise Untranslatable("a macro in neg.rs")
        for it in items(re.sub(r"\buse\s+[^;]*;", "", src), f):
            if it[0] != "impl": raise Untranslatable(f"macro invocation `{it[1]}!`")
            label = f"{f}: " + re.sub(r"\s+", " ", it[1].strip())
            try:
                r = translate_neg_impl(it[1], it[2], sigs, imported)
                if r["name"] in funcs: raise Untranslatable(f"second impl of the form {r['name']}")
                funcs[r["name"]] = r["lean"]; rows.append(r)
            except Untranslatable as ex:
                failed.append((label, str(ex)))
            except Exception as ex:
                failed.append((label, f"not parsed ({type(ex).__name__}: {ex})"))
    except Untranslatable as ex:
        failed.append((f"{f}: Neg impls", str(ex)))
    except Exception as ex:
        failed.append((f"{f}: Neg impls", f"not parsed ({type(ex).__name__}: {ex})"))
    return funcs, rows, failed


# ------------------------------------------------------------------ the file
HEADER = """/-
GENERATED by translate/t18.py from /repo/src/arithmetic/{add,sub,mul,div,rem}.rs (every `impl` inside the arms of the
`macro_rules!` that generate the operators between a matrix and a primitive scalar, metavariables kept symbolic; the
tuples the helper macro is invoked with; the type lists the top-level macros are invoked with) and
/repo/src/arithmetic/neg.rs (the two generic `Neg` impls) on every run — do not edit.
A matrix is its header (`self_` / the parameter) and its buffer (`.._data`); T is the element type of the matrix, S the
type of the scalar operand, U the element type of the result (by role in the impl header); `es_X` is `size_of::<X>()`;
`ops` / `aops` are the primitive operators of the element types (`A: Op<B, Output = U>` read `ops : PrimOps A B U`, the
operand order of the closure decides A and B), `neg` the element type's `Neg::neg`, `cloneT` its `Clone::clone`.
Calls go to T14's generated `scalar_operation*`, `map`, `map_ref` (Gen/T14Gen.lean).
-/
import Matreex.Gen.T14Gen
import Matreex.Gen.T17Gen

set_option linter.unusedVariables false

namespace Matreex.Gen
open Matreex

/-- a type expression over the metavariable of the top-level macro: `$t` | `&X` -/
inductive TyX where
  | t
  | ref (x : TyX)
  deriving DecidableEq, Repr

/-- one instantiation of an `impl` of a macro arm: element type of the matrix, type of the scalar operand, element type
of the result (for a compound assignment: of the matrix itself) -/
structure ScalarInst where
  elem : TyX
  scalar : TyX
  out : TyX
  deriving DecidableEq, Repr

/-- one `impl` of a macro arm: the generated function, its header form and its instantiations per type of the list -/
structure ScalarImpl where
  module : String
  fn : String
  trait : String
  matrixOnLeft : Bool
  matrixOwned : Bool
  assign : Bool
  insts : List ScalarInst
  deriving DecidableEq, Repr

/-- one `Neg` impl: the generated function, `Matrix<T>` (true) or `&Matrix<T>`, the callee, the where clause -/
structure NegImpl where
  fn : String
  matrixOwned : Bool
  callee : String
  bounds : List (String × List String)
  deriving DecidableEq, Repr

"""


def lean_str(s):
    return '"' + s.replace("\\", "\\\\").replace('"', '\\"') + '"'


def run_t18(root):
    sigs = callee_sigs(root)
    out, done, failed = [], [], []
    all_rows, type_lists = [], []
    for mod, trait_name, _ in MODS:
        funcs, rows, types, fl = translate_module(root, mod, trait_name, sigs)
        failed += fl
        expected = [f"Matrix.scalar_{mod}_{form}" for form in FORMS]
        for form, n in zip(FORMS, expected):
            if n in funcs:
                out.append(funcs[n]); done.append(n)
            else:
                out.append(f"def {n} " + STUB_SIG[form].format() + STUB)
                if not fl: failed.append((n, f"no impl of this form in arithmetic/{mod}.rs"))
        for n in sorted(funcs):
            if n not in expected:
                out.append(funcs[n]); done.append(n)
        all_rows += [(mod,) + r for r in sorted(rows)]
        type_lists.append((mod, types))
    nfuncs, nrows, nfl = translate_neg(root, sigs)
    failed += nfl
    for n in ("Matrix.neg_own", "Matrix.neg_ref"):
        if n in nfuncs:
            out.append(nfuncs[n]); done.append(n)
        else:
            out.append(f"def {n} {NEG_SIG}" + STUB)
            if not nfl: failed.append((n, "no impl of this form in arithmetic/neg.rs"))
    b = lambda x: "true" if x else "false"
    tab = ["/-- the impls of the macro arms, by module and name -/", "def scalarImpls : List ScalarImpl := ["]
    tab.append(",\n".join(
        f"  ⟨{lean_str(mod)}, {lean_str(n)}, {lean_str(tr)}, {b(left)}, {b(owned)}, {b(assign)}, ["
        + ", ".join(f"⟨{tyx(e)}, {tyx(s)}, {tyx(o)}⟩" for e, s, o in insts) + "]⟩"
        for mod, n, tr, left, owned, assign, insts in all_rows))
    tab.append("]\n")
    for mod, types in type_lists:
        tab.append(f"/-- the types `arithmetic/{mod}.rs` invokes its top-level macro with -/")
        tab.append(f"def scalarTypes_{mod} : List String := [" + ", ".join(lean_str(t) for t in (types or [])) + "]")
    tab.append("\n/-- the `Neg` impls of arithmetic/neg.rs (generic: no list of types) -/")
    tab.append("def negImpls : List NegImpl := [" + ", ".join(
        f"⟨{lean_str(r['name'])}, {b(r['owned'])}, {lean_str(r['callee'])}, ["
        + ", ".join(f"({lean_str(p)}, [" + ", ".join(lean_str(x) for x in bs) + "])" for p, bs in r["bounds"]) + "]⟩"
        for r in sorted(nrows, key=lambda r: r["name"])) + "]")
    text = HEADER + "\n".join(out) + "\n" + "\n".join(tab) + "\n\nend Matreex.Gen\n"
    return text, done, failed


if __name__ == "__main__":
    root = sys.argv[1] if len(sys.argv) > 1 else "/repo/src"
    text, done, failed = run_t18(root)
    if len(sys.argv) > 2:
        open(sys.argv[2], "w").write(text)
    else:
        print(text)
    print(done, failed, file=sys.stderr)
