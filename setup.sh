#!/bin/sh
# MANIFEST.setup_cmd: build the Lean library + driver and the Rust harness, offline.
cd "$(dirname "$0")" && exec python3 check.py --setup
