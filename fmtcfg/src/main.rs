//! `fmtcfg <ops.txt>`: for every `fmt <kind> <O> <nr> <nc> <palette indices>` line print the
//! observation `ok <escaped text>` / `panic`; `#` lines are echoed.

#[path = "../../harness/src/fmt_shared.rs"]
mod fmt_shared;
use fmt_shared::*;
use matreex::Matrix;

fn build(order: &str, nr: usize, nc: usize, idx: Vec<usize>) -> Matrix<P> {
    let data: Vec<P> = idx.into_iter().map(P).collect();
    assert_eq!(data.len(), nr * nc);
    let mut m = Matrix::from_row(data);
    if order == "R" {
        m.reshape((nr, nc)).unwrap();
    } else {
        m.reshape((nc, nr)).unwrap();
        m.switch_order_without_rearrangement();
    }
    assert_eq!((m.nrows(), m.ncols()), (nr, nc));
    m
}

fn main() {
    std::panic::set_hook(Box::new(|_| {}));
    let path = std::env::args().nth(1).expect("ops file");
    let text = std::fs::read_to_string(path).unwrap();
    let mut out = String::new();
    for line in text.lines() {
        if line.starts_with('#') { out.push_str(line); out.push('\n'); continue; }
        let ws: Vec<&str> = line.split(' ').collect();
        // scenarios decided by the harness's own oracle have no counterpart here: echoed like the model does
        if ws[0] == "oracle" { out.push_str("ok\n"); continue; }
        if ws.len() == 4 && ws[0] == "zfmt" {
            // Display / Debug of a huge zero-sized matrix (same element type and construction as the harness: a row vector)
            #[derive(Clone, Copy, Debug)]
            struct Zs;
            impl std::fmt::Display for Zs {
                fn fmt(&self, f: &mut std::fmt::Formatter<'_>) -> std::fmt::Result { f.write_str("z") }
            }
            let n: usize = ws[2].parse().unwrap();
            let mut v: Vec<Zs> = Vec::new();
            unsafe { v.set_len(n) };
            let m = Matrix::from_row(v);
            let which = ws[1].to_string();
            let res = std::panic::catch_unwind(std::panic::AssertUnwindSafe(|| if which == "debug" { format!("{:?}", m).len() } else { format!("{}", m).len() }));
            out.push_str(if res.is_ok() { "ok\n" } else { "panic\n" });
            continue;
        }
        if ws.len() != 6 || ws[0] != "fmt" { out.push_str("bad-op\n"); continue; }
        let (kind, order) = (ws[1], ws[2]);
        let nr: usize = ws[3].parse().unwrap();
        let nc: usize = ws[4].parse().unwrap();
        let idx: Vec<usize> = if ws[5] == "-" { Vec::new() } else { ws[5].split(',').map(|x| x.parse().unwrap()).collect() };
        let res = std::panic::catch_unwind(|| {
            let m = build(order, nr, nc, idx);
            if kind == "display" { format!("{m}") } else { format!("{m:?}") }
        });
        match res {
            Ok(t) => { out.push_str("ok "); out.push_str(&escape(&t)); out.push('\n'); }
            Err(_) => out.push_str("panic\n"),
        }
    }
    print!("{out}");
}
