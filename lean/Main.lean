/-
Line-protocol driver: reads one operation per line on stdin, runs the *model* on it and prints
one canonical observation per line on stdout.  Lines starting with `#` are echoed.  Core Lean
only (links as a native executable).
-/
import Driver.Index
import Driver.Construct

open Driver

def dispatch (ws : List String) : String :=
  match (cmdIndex ws <|> cmdConstruct ws) with
  | some s => s
  | none => "bad-op"

partial def loop (h : IO.FS.Stream) (out : IO.FS.Stream) : IO Unit := do
  let line ← h.getLine
  if line.isEmpty then return ()
  let l := line.trimAscii.toString
  if l.startsWith "#" then out.putStrLn l
  else out.putStrLn (dispatch (l.splitOn " "))
  loop h out

def main : IO Unit := do
  let out ← IO.getStdout
  loop (← IO.getStdin) out
  out.flush
