/-
Line-protocol driver: reads one operation per line on stdin, runs the *model* on it and prints
one canonical observation per line on stdout.  Lines starting with `#` are echoed.  Core Lean
only (links as a native executable).
-/
import Driver.Index
import Driver.Construct
import Driver.Hist
import Driver.Scalar
import Driver.Fmt
import Driver.Ledger
import Driver.Effects
import Driver.Par
import Driver.Traits
import Driver.Mirror

open Driver

/-- number of lines that were also run through `History.run` (reported on stderr at the end) -/
initialize mirrored : IO.Ref Nat ← IO.mkRef 0

def dispatch' (w : World) (ws : List String) : World × String × Bool :=
  match (cmdIndex ws <|> cmdConstruct ws <|> cmdScalar ws <|> cmdFmt ws <|> cmdEffects ws <|> cmdPar ws <|> cmdTraits ws) with
  | some s => (w, s, false)
  | none =>
    match stepHist w ws with
    | some (w', s) =>
      -- the same line through `History.run` (Driver/Mirror.lean): must leave the same registers
      match mirror w w' ws s with
      | some false => (w', s ++ " | HISTORY-STEP-DISAGREES", true)
      | some true => (w', s, true)
      | none => (w', s, false)
    | none => (w, "bad-op", false)

def dispatch (w : World) (ws : List String) : IO (World × String) := do
  let (w', s, m) := dispatch' w ws
  if m then mirrored.modify (· + 1)
  pure (w', s)

partial def loop (h : IO.FS.Stream) (out : IO.FS.Stream) (w : World) (ls : LedState) : IO Unit := do
  let line ← h.getLine
  if line.isEmpty then return ()
  let l := line.trimAscii.toString
  if l.startsWith "#" then
    out.putStrLn l
    -- a new case starts with fresh registers and a fresh ledger
    loop h out w {}
  else if l.startsWith "L " then
    -- C01: the operation, followed by the ledger delta the ownership model predicts
    let ws := (l.drop 2).toString.splitOn " "
    let (w', s) ← dispatch w ws
    let head := ((s.splitOn " | ").headD "")
    let head := if head.startsWith "ok" then "ok" else head
    let (ls', d) := ledFlow ls w ws head
    out.putStrLn (s ++ s!" | led +{d.1} -{d.2}")
    loop h out w' ls'
  else
    let (w', s) ← dispatch w (l.splitOn " ")
    out.putStrLn s
    loop h out w' ls

def main : IO Unit := do
  let out ← IO.getStdout
  loop (← IO.getStdin) out {} {}
  out.flush
  IO.eprintln s!"history-mirror: {← mirrored.get} lines also run through History.run"
