/-
Line-protocol driver: reads one operation per line on stdin, runs the *model* on it and prints
one canonical observation per line on stdout.  Lines starting with `#` are echoed.  Core Lean
only (links as a native executable).
-/
import Driver.Index
import Driver.Construct
import Driver.Hist
import Driver.Scalar
import Driver.Fmt
import Driver.Ledger
import Driver.Effects
import Driver.Par
import Driver.Traits

open Driver

def dispatch (w : World) (ws : List String) : World × String :=
  match (cmdIndex ws <|> cmdConstruct ws <|> cmdScalar ws <|> cmdFmt ws <|> cmdEffects ws <|> cmdPar ws <|> cmdTraits ws) with
  | some s => (w, s)
  | none =>
    match stepHist w ws with
    | some r => r
    | none => (w, "bad-op")

partial def loop (h : IO.FS.Stream) (out : IO.FS.Stream) (w : World) (ls : LedState) : IO Unit := do
  let line ← h.getLine
  if line.isEmpty then return ()
  let l := line.trimAscii.toString
  if l.startsWith "#" then
    out.putStrLn l
    -- a new case starts with fresh registers and a fresh ledger
    loop h out w {}
  else if l.startsWith "L " then
    -- C01: the operation, followed by the ledger delta the ownership model predicts
    let ws := (l.drop 2).toString.splitOn " "
    let (w', s) := dispatch w ws
    let head := ((s.splitOn " | ").headD "")
    let head := if head.startsWith "ok" then "ok" else head
    let (ls', d) := ledFlow ls w ws head
    out.putStrLn (s ++ s!" | led +{d.1} -{d.2}")
    loop h out w' ls'
  else
    let (w', s) := dispatch w (l.splitOn " ")
    out.putStrLn s
    loop h out w' ls

def main : IO Unit := do
  let out ← IO.getStdout
  loop (← IO.getStdin) out {} {}
  out.flush
