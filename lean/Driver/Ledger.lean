/-
Driver: the ownership-ledger model (`Model/Ledger.lean`) run alongside the functional model for
C01 histories.  Each protocol operation is mapped to the ledger operation class(es) carrying its
ownership flow; the predicted delta (tokens created, tokens dropped or moved out) is
`Ledger.delta`, and the shadow world advances by `Ledger.step`.
-/
import Matreex.Model.Ledger
import Driver.Hist

namespace Driver
open Matreex

structure LedState where
  led : Ledger.World := ⟨[], 0, [], []⟩
  slot : Array (Option Nat) := Array.replicate 8 none

/-- apply one ledger operation: new state and (fresh, dropped + moved-out) -/
def LedState.apply (s : LedState) (op : Ledger.Op) : LedState × (Nat × Nat) :=
  let d := Ledger.delta s.led op
  ({ s with led := Ledger.step s.led op }, (d.1, d.2.1 + d.2.2))

def addD (a b : Nat × Nat) : Nat × Nat := (a.1 + b.1, a.2 + b.2)

/-- the matrix in protocol register `r` is dropped -/
def LedState.dropSlot (s : LedState) (r : Nat) : LedState × (Nat × Nat) :=
  match (s.slot[r]?).join with
  | none => (s, (0, 0))
  | some i =>
    let (s', d) := s.apply (.dropReg i)
    ({ s' with slot := s'.slot.setIfInBounds r none }, d)

/-- bind protocol register `r` to the ledger register that the last pushing operation created -/
def LedState.bindNew (s : LedState) (r : Nat) : LedState :=
  { s with slot := s.slot.setIfInBounds r (some (s.led.regs.length - 1)) }

def LedState.idx (s : LedState) (r : Nat) : Option Nat := (s.slot[r]?).join

/-- ledger flow of one protocol operation, given the functional pre-state `w`, the words of the
operation and the head of its observation (`ok` / `err …` / `panic` / `skipped`) -/
def ledFlow (s : LedState) (w : World) (ws : List String) (head : String) : LedState × (Nat × Nat) :=
  let sizeOf := fun (r : Nat) => ((w.get r).map (·.data.size)).getD 0
  let ok := head = "ok"
  match ws with
  | ["new", r, _, nr, nc, _] =>
    let r := r.toNat!; let nr := nr.toNat!; let nc := nc.toNat!
    let (s1, d1) := s.dropSlot r
    let (s2, d2) := s1.apply (.newMatrix nr nc)
    (s2.bindNew r, addD d1 d2)
  | ["drop", r] => s.dropSlot r.toNat!
  | ["resize", r, nr, nc] =>
    if ok then
      match s.idx r.toNat! with
      | some i => s.apply (.resize i nr.toNat! nc.toNat!)
      | none => (s, (0, 0))
    else (s, (0, 0))
  | ["fresize", r, k, nr, nc] =>
    -- a caught fault: while shrinking the tail is dropped all the same (the ledger operation is
    -- the one of a completed resize); while growing, the `k` defaults made before the fault are
    -- dropped again by the guard and the ledger state is the old one
    let shrink := nr.toNat! * nc.toNat! ≤ sizeOf r.toNat!
    if ok ∨ (head = "unwound" ∧ shrink) then
      match s.idx r.toNat! with
      | some i => s.apply (.resize i nr.toNat! nc.toNat!)
      | none => (s, (0, 0))
    else if head = "unwound" then (s, (k.toNat!, k.toNat!))
    else (s, (0, 0))
  | ["clear", r] =>
    match s.idx r.toNat! with
    | some i => s.apply (.clear i)
    | none => (s, (0, 0))
  | ["overwrite", r, q] =>
    match s.idx r.toNat!, s.idx q.toNat!, w.get r.toNat!, w.get q.toNat! with
    | some i, some j, some d, some src =>
      s.apply (.overwriteBlock i j (min d.nrows src.nrows * min d.ncols src.ncols))
    | _, _, _, _ => (s, (0, 0))
  | ["clone", dst, a] =>
    match s.idx a.toNat! with
    | some i =>
      let (s1, d1) := if dst = a then (s, (0, 0)) else s.dropSlot dst.toNat!
      let (s2, d2) := s1.apply (.clone i)
      (s2.bindNew dst.toNat!, addD d1 d2)
    | none => (s, (0, 0))
  | ["map_ref", dst, a] =>
    match s.idx a.toNat! with
    | some i =>
      let (s1, d1) := s.dropSlot dst.toNat!
      let (s2, d2) := s1.apply (.clone i)
      (s2.bindNew dst.toNat!, addD d1 d2)
    | none => (s, (0, 0))
  | ["map", dst, a] =>
    -- consuming: the closure drops each element and returns a fresh one; the register moves
    match s.idx a.toNat! with
    | some i =>
      let (s1, d1) := s.apply (.mapFresh i)
      let s2 := { s1 with slot := s1.slot.setIfInBounds a.toNat! none }
      let (s3, d3) := s2.dropSlot dst.toNat!
      ({ s3 with slot := s3.slot.setIfInBounds dst.toNat! (some i) }, addD d1 d3)
    | none => (s, (0, 0))
  | ["ew", dst, a, b, variant, opname] =>
    let dst := dst.toNat!; let a := a.toNat!; let b := b.toNat!
    let n := sizeOf a
    let named := opname ≠ "gen"
    match s.idx a, s.idx b with
    | some i, some j =>
      if variant = "assign" then
        if ok ∧ named then s.apply (.assignInPlace i n) else (s, (0, 0))
      else if variant = "ref" then
        if ok then
          let (s1, d1) := s.dropSlot dst
          let (s2, d2) := s1.apply (.binaryFresh i j n (if named then 2 * n else 0))
          (s2.bindNew dst, addD d1 d2)
        else (s, (0, 0))
      else
        -- consuming: the left operand is gone in every outcome
        if ok then
          let (s1, d1) := if dst = a then (s, (0, 0)) else s.dropSlot dst
          let (s2, d2) := s1.apply (.consumeBinaryFresh i j n (if named then n else 0))
          let s3 := { s2 with slot := s2.slot.setIfInBounds a none }
          (s3.bindNew dst, addD d1 d2)
        else s.dropSlot a
    | _, _ => (s, (0, 0))
  | ["poke", r, i, j, _] =>
    -- `*m.get_mut((i, j))? = element` (`History.Op.setAt`): on `Ok` the old element is dropped and
    -- the new one takes its place (ledger class `setElem` at the offset the checked index resolved
    -- to); on `IndexOutOfBounds` nothing is created or dropped by the matrix
    if ok then
      match s.idx r.toNat!, w.get r.toNat! with
      | some li, some m =>
        match m.getIdx i.toNat! j.toNat! with
        | .ok (.ok k) => s.apply (.setElem li k)
        | _ => (s, (0, 0))
      | _, _ => (s, (0, 0))
    else (s, (0, 0))
  | ["bump", r, i, j] =>
    -- `*e = h(*e)` through `get_mut` (`History.Op.updAt`): ledger class `updElem`
    if ok then
      match s.idx r.toNat!, w.get r.toNat! with
      | some li, some m =>
        match m.getIdx i.toNat! j.toNat! with
        | .ok (.ok k) => s.apply (.updElem li k)
        | _ => (s, (0, 0))
      | _, _ => (s, (0, 0))
    else (s, (0, 0))
  | ["iter", r, variant, _] =>
    if variant.startsWith "into" then
      match s.idx r.toNat! with
      | some i =>
        let (s1, d1) := s.apply (.intoIter i)
        ({ s1 with slot := s1.slot.setIfInBounds r.toNat! none }, d1)
      | none => (s, (0, 0))
    else (s, (0, 0))
  | _ => (s, (0, 0))   -- moves only / read-only: transpose, order changes, swaps, reshape, shrink, views, nth, eq, contains, apply

end Driver
