/-
Driver: the mutable row/column iterator machines (C03 call sequences, C06 family comparison).
Addresses are printed as element offsets from the buffer base (sized elements) or as raw counter
values (zero-sized elements); yielded references to zero-sized values print as `z`.
-/
import Driver.Util
import Matreex.Model.IterMut

namespace Driver
open Matreex Matreex.IterMut

structure ItState where
  cfg : Cfg := ⟨65536, 4, 0, 4⟩
  outer : Option Vecs := none
  inners : Array Nth := #[]

/-- pointer value as the hooks report it, in comparable form -/
def ptrStr (cfg : Cfg) (addr : Nat) : String :=
  if cfg.es = 0 then toString addr else toString ((addr - cfg.base) / cfg.es)

def itemStr (cfg : Cfg) : Option Nat → String
  | none => "none"
  | some a => if cfg.es = 0 then "z" else toString ((a - cfg.base) / cfg.es)

def ptrsStr (cfg : Cfg) (ps : List Nat) : String :=
  " | p" ++ String.join (ps.map fun a => " " ++ ptrStr cfg a)

/-- pointer values formed by `Nth.assemble` when it is reached (not for `Nth.empty`) -/
def nthEvents (v : Nth) : List Nat := if v.stride.isSome then [v.lower, v.upper] else []

def itOpen (cfg : Cfg) (o : Order) (sh : AxisShape) (rows : Bool) : ItState × String :=
  let r := if rows then Vecs.rowsMut cfg o sh else Vecs.colsMut cfg o sh
  match r with
  | .error e => ({ cfg := cfg }, faultStr e)
  | .ok it =>
    ({ cfg := cfg, outer := some it, inners := #[] },
      "ok" ++ ptrsStr cfg (if it.layout.isSome then [it.lower, it.upper] else []))

def itStep (s : ItState) (ws : List String) : Option (ItState × String) := do
  let o ← s.outer
  match ws with
  | ["onext"] | ["onextback"] =>
    let back := ws = ["onextback"]
    match (if back then o.nextBack s.cfg else o.next s.cfg) with
    | .error e => pure (s, faultStr e)
    | .ok (r, o') =>
      let moved := if back then (if o'.upper ≠ o.upper then [o'.upper] else []) else (if o'.lower ≠ o.lower then [o'.lower] else [])
      match r with
      | some v => pure ({ s with outer := some o', inners := s.inners.push v }, "vec true" ++ ptrsStr s.cfg (nthEvents v ++ moved))
      | none => pure ({ s with outer := some o' }, "vec false" ++ ptrsStr s.cfg [])
  | ["olen"] =>
    match o.len s.cfg with
    | .error e => pure (s, faultStr e)
    | .ok n => pure (s, s!"len {n}")
  | ["inext", i] | ["inextback", i] =>
    let i ← i.toNat?
    let back := ws.head? = some "inextback"
    match s.inners[i]? with
    | none => pure (s, "no-such-iterator")
    | some it =>
      match (if back then it.nextBack s.cfg else it.next s.cfg) with
      | .error e => pure (s, faultStr e)
      | .ok (a, it') =>
        let moved := if back then (if it'.upper ≠ it.upper then [it'.upper] else []) else (if it'.lower ≠ it.lower then [it'.lower] else [])
        pure ({ s with inners := s.inners.set! i it' }, "item " ++ itemStr s.cfg a ++ ptrsStr s.cfg moved)
  | ["ilen", i] =>
    let i ← i.toNat?
    match s.inners[i]? with
    | none => pure (s, "no-such-iterator")
    | some it =>
      match it.len s.cfg with
      | .error e => pure (s, faultStr e)
      | .ok n => pure (s, s!"len {n}")
  | _ => none

/-- fully consume an inner iterator following a pattern: (len before the call, yielded offset) -/
def drainNth (cfg : Cfg) : Nat → List Char → Nth → M (List (Nat × Option Nat))
  | 0, _, _ => .error .fuel
  | fuel + 1, pat, it => do
    let n ← it.len cfg
    let back := pat.head? = some 'B'
    let (a, it') ← if back then it.nextBack cfg else it.next cfg
    match a with
    | none => pure []
    | some addr =>
      let rest ← drainNth cfg fuel pat.tail it'
      pure ((n, if cfg.es = 0 then none else some ((addr - cfg.base) / cfg.es)) :: rest)

/-- fully consume the outer iterator following `opat`, each inner following `ipat` -/
def drainVecs (cfg : Cfg) (ipat : List Char) (innerFuel : Nat) : Nat → List Char → Vecs → M (List (Nat × List (Nat × Option Nat)))
  | 0, _, _ => .error .fuel
  | fuel + 1, pat, it => do
    let n ← it.len cfg
    let back := pat.head? = some 'B'
    let (v, it') ← if back then it.nextBack cfg else it.next cfg
    match v with
    | none => pure []
    | some inner =>
      let items ← drainNth cfg innerFuel ipat inner
      let rest ← drainVecs cfg ipat innerFuel fuel pat.tail it'
      pure ((n, items) :: rest)

end Driver
