/-
Driver commands for C16: the parallel helpers are modelled by their sequential counterparts
(`C16.par_map_eq_map` etc.: any split tree gives the sequential result); observations are
schedule-independent digests.
-/
import Driver.Util
import Matreex.Model.Construct
import Matreex.Model.Iter

namespace Driver
open Matreex

def mask64 (n : Nat) : Nat := n % 2 ^ 64

def fPar (x : Nat) : Nat := mask64 (x * 3 + 7)

def digestVals (l : List Nat) : String :=
  let sum := l.foldl (fun a x => mask64 (a + x)) 0
  let mix := l.foldl (fun a x => mask64 (a * 31 + x)) 17
  s!"n={l.length} sum={sum} mix={mix}"

/-- order-independent digest of (index, value) items -/
def digestItems (l : List (Index × Nat)) : String :=
  let sum := l.foldl (fun a p => mask64 (a + (p.1.row * 1000003 + p.1.col * 10007 + p.2) * (p.2 + 1))) 0
  s!"n={l.length} isum={sum}"

def cmdPar (ws : List String) : Option String :=
  match ws with
  | ["par", kind, o, r, c, _pool, _jitter] => do
    let o ← parseOrder o; let r ← r.toNat?; let c ← c.toNat?
    let m : Matrix Nat := ⟨o, (Shape.mk r c).toAxis o, ((List.range (r * c)).map (· + 1000)).toArray⟩
    if kind = "apply" ∨ kind = "map" ∨ kind = "map_ref" then
      match m.map 8 fPar with
      | .error e => pure (faultStr e)
      | .ok (.error e) => pure ("err " ++ e.name)
      | .ok (.ok m') => pure (s!"ok {ordStr m'.order} {m'.nrows}x{m'.ncols} " ++ digestVals m'.data.toList)
    else if kind = "iter" ∨ kind = "iter_mut" ∨ kind = "into" then
      pure ("ok " ++ digestVals (m.iterElements.map fPar))
    else
      match m.iterWithIndex with
      | .error e => pure (faultStr e)
      | .ok items => pure ("ok " ++ digestItems items)
  | ["parcap", _kind, esOut, n] => do
    -- zero-sized source of n elements mapped to a type of esOut bytes
    let esOut ← esOut.toNat?; let n ← n.toNat?
    pure (resStr (fun (k : Nat) => toString k) (mapDecision esOut n))
  | _ => none

end Driver
