/-
Driver: the history mirror.

The theorems of C01 / C05 / C07 / C09 that speak about *histories* (`C01.run_inv`, `C01.run_refines`,
`C07P.programs_order_transparent`, the `SpecLaws` lifts) are about `History.step` of
`Matreex/Model/History.lean`.  The driver answers a protocol line by calling the model's functions
directly; `History.step` is a second, hand-written piece of glue over the same functions.  To tie
that glue to the correspondence as well, every protocol line that denotes operations of the History
language is ALSO run through `History.run` on the registers as they were before the line, and the
registers it produces must be the registers the driver produced (which are the ones compared with
the implementation).  A disagreement is appended to the observation line, which then differs from
the implementation's line and is reported like any other model / implementation difference.

Only sized element types (`zst = false`: `History.step` fixes the zero-sized flags to `false`).
Lines with no counterpart in the language (views, iterators, formatting, `new`, the array
conversions, `fresize`, `multiplication_like_operation`, wrapping-index swaps) are not mirrored.
-/
import Driver.Hist
import Matreex.Model.History

namespace Driver
open Matreex
open Matreex.History (Op)

/-- scratch registers for whole-matrix clones of borrowed operands (`&a * &b` = `a.clone() * b.clone()`) -/
def tmpA : Nat := 8
def tmpB : Nat := 9

/-- an operand passed by value: it leaves its register whatever the call returns -/
def moveTo (tmp r : Nat) : List (Op String) := [.map tmp r fun x => x, .drop r]

/-- the operations of the History language a protocol line stands for, in order -/
def histOps (w : World) (ws : List String) : Option (List (Op String)) :=
  match ws with
  | ["drop", r] => do let r ← r.toNat?; pure [.drop r]
  | ["transpose", r] => do let r ← r.toNat?; pure [.transpose r]
  | ["switch", r] => do let r ← r.toNat?; pure [.switchOrder r]
  | ["switch_wr", r] => do let r ← r.toNat?; pure [.switchOrderWR r]
  | ["set_order", r, o] => do let r ← r.toNat?; let o ← parseOrder o; pure [.setOrder r o]
  | ["set_order_wr", r, o] => do let r ← r.toNat?; let o ← parseOrder o; pure [.setOrderWR r o]
  | ["reshape", r, nr, nc] => do
    let r ← r.toNat?; let nr ← nr.toNat?; let nc ← nc.toNat?; pure [.reshape r nr nc]
  | ["resize", r, nr, nc] => do
    let r ← r.toNat?; let nr ← nr.toNat?; let nc ← nc.toNat?
    if nr * nc ≤ usizeMax ∧ w.es * (nr * nc) ≤ isizeMax ∧ nr * nc > 100000 then none
    else pure [.resize r nr nc w.dfltStr]
  | ["overwrite", r, q] => do let r ← r.toNat?; let q ← q.toNat?; pure [.overwrite r q w.cloneFn]
  | ["clear", r] => do let r ← r.toNat?; pure [.clear r]
  | ["apply", r] => do let r ← r.toNat?; pure [.map r r fun x => "f(" ++ x ++ ")"]
  | ["map_ref", dst, r] => do
    let dst ← dst.toNat?; let r ← r.toNat?; pure [.map dst r fun x => "g(" ++ x ++ ")"]
  | ["map", dst, r] => do
    let dst ← dst.toNat?; let r ← r.toNat?
    pure (moveTo tmpA r ++ [.map dst tmpA fun x => "g(" ++ x ++ ")", .drop tmpA])
  | ["clone", dst, a] => do let dst ← dst.toNat?; let a ← a.toNat?; pure [.map dst a w.cloneFn]
  | ["poke", r, i, j, payload] => do
    let r ← r.toNat?; let i ← i.toNat?; let j ← j.toNat?; pure [.setAt r i j payload]
  | ["bump", r, i, j] => do
    let r ← r.toNat?; let i ← i.toNat?; let j ← j.toNat?; pure [.updAt r i j fun x => "h(" ++ x ++ ")"]
  | ["swap_rows", r, a, b] => do
    let r ← r.toNat?; let a ← a.toNat?; let b ← b.toNat?; pure [.swapRows r a b]
  | ["swap_cols", r, a, b] => do
    let r ← r.toNat?; let a ← a.toNat?; let b ← b.toNat?; pure [.swapCols r a b]
  | ["swap", r, k1, i1, j1, k2, i2, j2] => do
    let r ← r.toNat?
    let i1 ← parseInt i1; let j1 ← parseInt j1; let i2 ← parseInt i2; let j2 ← parseInt j2
    if k1 = "w" ∨ k2 = "w" ∨ i1 < 0 ∨ j1 < 0 ∨ i2 < 0 ∨ j2 < 0 then none
    else pure [.swapElems r i1.toNat j1.toNat i2.toNat j2.toNat]
  | ["rows", dst, kind, lens] => do
    let dst ← dst.toNat?
    let lens ← parseNatList lens
    let borrowed := kind = "slice_array" ∨ kind = "slice_vec"
    let mk := fun (start n : Nat) => (List.range n).map fun k =>
      let p := toString (start + k + 1)
      if borrowed then w.cloneFn p else p
    let rows := (lens.foldl (fun (acc : List (List String) × Nat) n => (acc.1 ++ [mk acc.2 n], acc.2 + n)) ([], 0)).1
    if kind = "array" ∨ kind = "vec_array" ∨ kind = "slice_array" then none
    else if kind = "iter" then pure [.fromIter dst rows]
    else pure [.fromRows dst rows]
  | ["ctor", dst, kind, nr, nc] => do
    let dst ← dst.toNat?; let nr ← nr.toNat?; let nc ← nc.toNat?
    if kind = "with_init" then pure [.withInitializer dst nr nc fun i => s!"i{i.row}.{i.col}"] else none
  | ["scgen", dst, a, variant] => do
    let dst ← dst.toNat?; let a ← a.toNat?
    let f := fun (e : String) => "[" ++ e ++ "|" ++ "S" ++ "]"
    if variant = "assign" then pure [.map a a f]
    else if variant = "consume" then pure (moveTo tmpA a ++ [.map dst tmpA f, .drop tmpA])
    else pure [.map dst a f]
  | ["ew", dst, a, b, variant, opname] => do
    let dst ← dst.toNat?; let a ← a.toNat?; let b ← b.toNat?
    let f := ewClosure w variant opname
    if variant = "assign" then pure [.elementwiseAssign a b f]
    else if variant = "consume" then pure (moveTo tmpA a ++ [.elementwise dst tmpA b f, .drop tmpA])
    else pure [.elementwise dst a b f]
  | ["mul", dst, a, b, kind] => do
    let dst ← dst.toNat?; let a ← a.toNat?; let b ← b.toNat?
    if kind = "like" then none else
    let selfOwned := kind = "multiply" ∨ kind = "op_oo" ∨ kind = "op_ob"
    let rhsOwned := kind = "multiply" ∨ kind = "op_oo" ∨ kind = "op_bo"
    let mulF := fun (x y : String) => "(" ++ w.cloneFn x ++ "*" ++ w.cloneFn y ++ ")"
    let addF := fun (x y : String) => "(" ++ x ++ "+" ++ y ++ ")"
    -- an owned operand moves into the call, a borrowed one is cloned as a whole first
    let pre := (if selfOwned then moveTo tmpA a else [Op.map tmpA a w.cloneFn]) ++
      (if rhsOwned then moveTo tmpB b else [Op.map tmpB b w.cloneFn])
    pure (pre ++ [.multiply dst tmpA tmpB mulF addF w.dfltStr, .drop tmpA, .drop tmpB])
  | _ => none

/-- `none`: the line is not mirrored; `some true`: `History.run` left the registers the driver left -/
def mirror (w w' : World) (ws : List String) (out : String) : Option Bool :=
  if w.zst then none else
  match histOps w ws with
  | none => none
  | some ops =>
    match History.run w.es ⟨w.regs.toList⟩ ops with
    | .error e => some (out.startsWith (faultStr e))
    | .ok hw =>
      let got := hw.regs
      let want := w'.regs.toList
      some (got.take want.length == want ∧ (got.drop want.length).all (· == none))

end Driver
