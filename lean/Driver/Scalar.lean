/-
Driver commands for C18.
-/
import Driver.Util

namespace Driver
open Matreex

/-- the operand orientation the PROPERTY states: (element op scalar) with the matrix on the left and in every compound
assignment, (scalar op element) with the matrix on the right.  Since the fourth session this is no longer read from the
T1 table (a table row is a regular expression's view of the text and changed under harmless rewrites): the tie between
the source's impls and this orientation is `C18.scalar_operators_are_the_source` (T18, proved), the tie between the
implementation and it is this comparison. -/
def cmdScalar (ws : List String) : Option String :=
  match ws with
  | ["sc", _ty, opname, side, _mat, _elem, _scal, order, shape] =>
    if opname ∈ ["add", "sub", "mul", "div", "rem"] then
      some s!"{if side == "L" then "ES" else "SE"} {order} {shape}" else none
  | ["scassign", _ty, opname, _scal, order, shape] =>
    if opname ∈ ["add", "sub", "mul", "div", "rem"] then some s!"ES {order} {shape}" else none
  | ["neg", _ty, _mat, order, shape] => some s!"N {order} {shape}"
  | _ => none

end Driver
