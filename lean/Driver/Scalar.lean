/-
Driver commands for C18: the operand orientation of every scalar-operator form is read from the
table re-extracted from the source (`Gen/ScalarForms.lean`).
-/
import Driver.Util
import Matreex.Gen.ScalarForms
import Matreex.Gen.NegForms

namespace Driver
open Matreex

def orientation (f : Gen.ScalarForm) : String :=
  match f.lhs, f.rhs with
  | .element, .scalar => "ES"
  | .scalar, .element => "SE"
  | _, _ => "??"

def cmdScalar (ws : List String) : Option String :=
  match ws with
  | ["sc", _ty, opname, side, mat, _elem, _scal, order, shape] => do
    let f ← Gen.scalarForms.find? fun f =>
      f.module == opname && f.matrixOnLeft == (side == "L") && f.matrixOwned == (mat == "o") && !f.assign
    pure s!"{orientation f} {order} {shape}"
  | ["scassign", _ty, opname, _scal, order, shape] => do
    let f ← Gen.scalarForms.find? fun f => f.module == opname && f.assign
    pure s!"{orientation f} {order} {shape}"
  | ["neg", _ty, mat, order, shape] => do
    let _ ← Gen.negForms.find? fun f => f.selfOwned == (mat == "o")
    pure s!"N {order} {shape}"
  | _ => none

end Driver
