/-
Driver commands for C02: the fault-schedule model (`Model/Effects.lean`) with the single-fault
schedule "callback number k panics".
-/
import Driver.Util
import Matreex.Model.Effects

namespace Driver
open Matreex Matreex.Effects

def outcomeStr : Outcome → String
  | .done => "done"
  | .unwound => "unwound"
  | .aborted => "aborted"

def survivorStr (r : World Nat × Outcome) : String :=
  s!"{outcomeStr r.2} {r.1.mat.shape.major}x{r.1.mat.shape.minor} len={r.1.mat.data.length}"

def cmdEffects (ws : List String) : Option String :=
  match ws with
  | ["fault", k, "resize", M0, m0, M1, m1] => do
    let k ← k.toNat?; let M0 ← M0.toNat?; let m0 ← m0.toNat?; let M1 ← M1.toNat?; let m1 ← m1.toNat?
    let w0 : World Nat := ⟨0, ⟨⟨M0, m0⟩, List.range (M0 * m0)⟩, []⟩
    pure (survivorStr (resizeFixed (· == k) (fun t => 1000 + t) ⟨M1, m1⟩ w0))
  | ["fault", k, "clear", M0, m0] => do
    let k ← k.toNat?; let M0 ← M0.toNat?; let m0 ← m0.toNat?
    let w0 : World Nat := ⟨0, ⟨⟨M0, m0⟩, List.range (M0 * m0)⟩, []⟩
    pure (survivorStr (clearF (· == k) w0))
  | ["fault", k, "foreach", M0, m0] => do
    let k ← k.toNat?; let M0 ← M0.toNat?; let m0 ← m0.toNat?
    let w0 : World Nat := ⟨0, ⟨⟨M0, m0⟩, List.range (M0 * m0)⟩, []⟩
    pure (survivorStr (forEachF (· == k) (fun _ x => x + 1) w0))
  | ["fault", k, "overwrite", M0, m0, block] => do
    let k ← k.toNat?; let M0 ← M0.toNat?; let m0 ← m0.toNat?; let block ← block.toNat?
    let w0 : World Nat := ⟨0, ⟨⟨M0, m0⟩, List.range (M0 * m0)⟩, []⟩
    pure (survivorStr (overwriteF (· == k) (fun _ x => x) block (List.replicate block 7) w0))
  | ["fault", k, "mapconsume", M0, m0] => do
    let k ← k.toNat?; let M0 ← M0.toNat?; let m0 ← m0.toNat?
    let w0 : World Nat := ⟨0, ⟨⟨M0, m0⟩, List.range (M0 * m0)⟩, []⟩
    pure (outcomeStr (mapConsumeF (· == k) (fun _ x => x + 1) w0).2)
  | "faultx" :: _ => some "checked"
  | _ => none

end Driver
