/-
Driver commands for C08 (size / capacity decisions).
-/
import Driver.Util
import Matreex.Model.Construct
import Matreex.Model.Elementwise

namespace Driver
open Matreex

def decisionStr (o : Order) (d : M (Except Error (AxisShape × Nat))) : String :=
  resStr (fun (p : AxisShape × Nat) => s!"{p.1.nrows o} {p.1.ncols o} {p.2}") d

def cmdConstruct (ws : List String) : Option String :=
  match ws with
  | ["c08", "ctor", _kind, es, r, c] => do
    let es ← es.toNat?; let r ← r.toNat?; let c ← c.toNat?
    pure (decisionStr .rowMajor (sizeDecision es ⟨r, c⟩ .rowMajor))
  | ["c08", "resize", es, o, _r0, _c0, r, c] => do
    let es ← es.toNat?; let o ← parseOrder o; let r ← r.toNat?; let c ← c.toNat?
    pure (decisionStr o (sizeDecision es ⟨r, c⟩ o))
  | ["c08", "reshape", o, r0, c0, r, c] => do
    let o ← parseOrder o; let r0 ← r0.toNat?; let c0 ← c0.toNat?; let r ← r.toNat?; let c ← c.toNat?
    let m : Matrix Unit := ⟨o, (Shape.mk r0 c0).toAxis o, Array.replicate (r0 * c0) ()⟩
    match m.reshape ⟨r, c⟩ with
    | .error e => pure (faultStr e)
    | .ok (.error e, _) => pure ("err " ++ e.name)
    | .ok (.ok (), m') => pure s!"ok {m'.nrows} {m'.ncols} {m'.data.size}"
  | ["c08", "zreshape", o, r0, c0, r, c] => do
    -- receiver of zero-sized elements (any element count exists): the header-level decision
    let o ← parseOrder o; let r0 ← r0.toNat?; let c0 ← c0.toNat?; let r ← r.toNat?; let c ← c.toNat?
    match reshapeDecision (r0 * c0) ⟨r, c⟩ o with
    | .error e => pure (faultStr e)
    | .ok (.error e) => pure ("err " ++ e.name)
    | .ok (.ok sh) => pure s!"ok {sh.nrows o} {sh.ncols o} {r0 * c0}"
  | ["c08", "map", _kind, esOut, n] => do
    let esOut ← esOut.toNat?; let n ← n.toNat?
    pure (resStr toString (mapDecision esOut n))
  | ["c08", "mul", _kind, esOut, oa, ra, ca, ob, rb, cb] => do
    let esOut ← esOut.toNat?; let oa ← parseOrder oa; let ob ← parseOrder ob
    let ra ← ra.toNat?; let ca ← ca.toNat?; let rb ← rb.toNat?; let cb ← cb.toNat?
    let a : Hdr := ⟨oa, (Shape.mk ra ca).toAxis oa⟩
    let b : Hdr := ⟨ob, (Shape.mk rb cb).toAxis ob⟩
    pure (decisionStr oa (mulDecision esOut a b))
  | ["c08", "ew", _variant, esOut, oa, ra, ca, ob, rb, cb] => do
    -- guard prefix of the elementwise operations on headers (extents no allocation can reach)
    let esOut ← esOut.toNat?; let oa ← parseOrder oa; let ob ← parseOrder ob
    let ra ← ra.toNat?; let ca ← ca.toNat?; let rb ← rb.toNat?; let cb ← cb.toNat?
    let a : Hdr := ⟨oa, (Shape.mk ra ca).toAxis oa⟩
    let b : Hdr := ⟨ob, (Shape.mk rb cb).toAxis ob⟩
    pure (resStr toString (ewDecision esOut a b (ra * ca)))
  | ["c08", "hook_check_size", es, n] => do
    let es ← es.toNat?; let n ← n.toNat?
    pure (resStr toString (Gen.Matrix.check_size es n))
  | ["c08", "hook_shape", o, r, c] => do
    let o ← parseOrder o; let r ← r.toNat?; let c ← c.toNat?
    pure (resStr (fun (s : AxisShape) => s!"{s.major} {s.minor}") (Gen.Shape.try_to_axis_shape ⟨r, c⟩ o))
  | _ => none

end Driver
