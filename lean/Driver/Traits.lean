/-
Driver commands for C17: type-level probes answered by the auto-trait model over the regenerated
tables, and threaded mutation runs answered by the (sequential) concrete iterator model — by
`C17.threads_no_race` the thread assignment and the interleaving do not matter.
-/
import Driver.Util
import Driver.Par
import Matreex.Model.Traits
import Matreex.Model.IterMut

namespace Driver
open Matreex Matreex.IterMut Matreex.Traits

def capsOf : String → Option Caps
  | "SS" => some ⟨true, true⟩
  | "S-" => some ⟨true, false⟩
  | "-Y" => some ⟨false, true⟩
  | "--" => some ⟨false, false⟩
  | _ => none

def levelType : String → Option String
  | "outer" => outerType
  | "inner" => innerType
  | _ => none

def gThr (k t x : Nat) : Nat := mask64 (x * 3 + k * 100 + t + 1)

/-- `Iterator::nth(d)` / `DoubleEndedIterator::nth_back(d)` by their provided definitions: `d`
items are taken and dropped, the next one is returned (`None` as soon as the iterator is empty) -/
def nthVia {S A : Type} (next : S → M (Option A × S)) : Nat → S → M (Option A × S)
  | 0, s => next s
  | d + 1, s => do
    let (a, s') ← next s
    match a with
    | none => pure (none, s')
    | some _ => nthVia next d s'

/-- one pattern character: `F` = next, `B` = next_back, `1`..`9` = nth(d), `a`..`i` = nth_back(d), `H` / `h` = nth / nth_back of a count far beyond any extent;
result: (from the back?, number of skipped items) -/
def patStep (c : Char) : Bool × Nat :=
  if c = 'B' then (true, 0)
  else if '1' ≤ c ∧ c ≤ '9' then (false, c.toNat - 48)
  else if 'a' ≤ c ∧ c ≤ 'i' then (true, c.toNat - 96)
  else if c = 'H' then (false, (2 ^ 64 - 1) / 3 + 1)
  else if c = 'h' then (true, (2 ^ 64 - 1) / 5 + 1)
  else (false, 0)

/-- `E` in an outer pattern = `for_each` over the rest (internal iteration: `fold`, which by its
provided definition is `next` until `None`): replaced by as many `F` as vectors are left by the
contract of the calls made so far -/
def expandE : Nat → List Char → List Char
  | _, [] => []
  | remaining, c :: rest =>
    if c = 'E' then List.replicate remaining 'F' ++ expandE 0 rest
    else
      let d := (patStep c).2
      c :: expandE (if d + 1 ≤ remaining then remaining - (d + 1) else 0) rest

/-- drain one inner iterator along `ipat` (cycled), updating memory at the yielded addresses;
the `t`-th position is tracked the way a client does: front and back counters -/
def thrInner (cfg : Cfg) (k vl : Nat) : Nat → List Char → List Char → Nth → Nat → Nat → Array Nat → M (Array Nat)
  | 0, _, _, _, _, _, _ => .error .fuel
  | fuel + 1, ipat, cur, it, f, b, mem => do
    let cur := if cur.isEmpty then ipat else cur
    -- `E` = `for_each` over the rest = `next` until `None`
    let (ipat, cur) := if cur.head? = some 'E' then (['F'], ['F']) else (ipat, cur)
    let (back, d) := patStep (cur.head?.getD 'F')
    let (a, it') ← if back then nthVia (·.nextBack cfg) d it else nthVia (·.next cfg) d it
    match a with
    | none => pure mem
    | some addr =>
      let off := (addr - cfg.base) / cfg.es
      let t := if back then vl - 1 - b - d else f + d
      let mem' := mem.set! off (gThr k t (mem[off]?.getD 0))
      thrInner cfg k vl fuel ipat cur.tail it' (if back then f else f + d + 1) (if back then b + d + 1 else b) mem'

def thrOuter (cfg : Cfg) (al vl : Nat) (ipat : List Char) : List Char → Vecs → Nat → Nat → Array Nat → List String → M (Array Nat × List String)
  | [], _, _, _, mem, ys => pure (mem, ys.reverse)
  | c :: rest, it, f, b, mem, ys => do
    let (back, d) := patStep c
    let (v, it') ← if back then nthVia (·.nextBack cfg) d it else nthVia (·.next cfg) d it
    match v with
    | none => thrOuter cfg al vl ipat rest it' f b mem ("none" :: ys)
    | some inner =>
      let k := if back then al - 1 - b - d else f + d
      let mem' ← thrInner cfg k vl (vl + 2) ipat [] inner 0 0 mem
      thrOuter cfg al vl ipat rest it' (if back then f else f + d + 1) (if back then b + d + 1 else b) mem' (toString k :: ys)

def cmdTraits (ws : List String) : Option String :=
  match ws with
  | ["tprobe", level, _axis, cls] => do
    let T ← capsOf cls
    match levelType level with
    | none => pure "no-such-type"
    | some n => pure s!"send={has T .send n} sync={has T .sync n}"
  | ["cprobe", level, _axis, cls, action] => do
    let T ← capsOf cls
    match levelType level with
    | none => pure "no-such-type"
    | some n =>
      if action = "send" ∨ action = "spawn" then pure (if has T .send n then "accept" else "reject E0277")
      else if action = "sync" ∨ action = "share" then pure (if has T .sync n then "accept" else "reject E0277")
      else if action = "clone" then pure (if duplicable n then "accept-or-opaque" else "reject E0599")
      else if action = "alias" then pure (if holdsMutBorrow n then "reject E0499" else "accept")
      else none
  | ["thr", o, r, c, axis, opat, ipat, _nthreads, _seed] => do
    let o ← parseOrder o; let r ← r.toNat?; let c ← c.toNat?
    let rows := axis = "rows"
    let sh := (Shape.mk r c).toAxis o
    let cfg : Cfg := ⟨65536, 8, r * c, 8⟩
    let al := if rows then r else c
    let vl := if rows then c else r
    let mem0 : Array Nat := ((List.range (r * c)).map (· + 1000)).toArray
    let res := do
      let it ← if rows then Vecs.rowsMut cfg o sh else Vecs.colsMut cfg o sh
      let n ← it.len cfg
      let (mem, ys) ← thrOuter cfg al vl ipat.toList (expandE al opat.toList) it 0 0 mem0 []
      pure (n, mem, ys)
    match res with
    | .error e => pure (faultStr e)
    | .ok (n, mem, ys) =>
      let d := if r * c ≤ 64 then "[" ++ ", ".intercalate (mem.toList.map toString) ++ "]" else digestVals mem.toList
      pure s!"len={n} yield=[{", ".intercalate ys}] data={d}"
  | _ => none

end Driver
