/-
Driver commands for C20: element renderings come from a fixed palette shared with the harness.
-/
import Driver.Util
import Matreex.Model.Fmt
import Matreex.Model.FmtPrims

namespace Driver
open Matreex

/-- the palette of element renderings (index = protocol value); must match harness/src/c20.rs -/
def palette : Array String := #[
  "", "a", "ab", "äöü", "x\ny", "\n", "p\r\nq", "a longer rendering", "日本", "a\n\nb", "tail\n", "\r",
  "7", "-12", "3.25", "wide\nw\nlonger line", " ", "\n\n", "é", "tab\there",
  "wwwwwwwwwwwwwwwwwwwwwwwwwwwwwwwwwwwwwwwwwwwwwwwwwwwwwwwwwwwwwwwwwwwwww",
  "ééééééééééééééééééééééééééééééééééééééééééééééééééééééééééééééééé",
  "é\r\nü\r\n日本", "日\r\n\r\n本x"]

def escapeOut (s : String) : String :=
  String.join (s.toList.map fun c =>
    if c = '\n' then "\\n" else if c = '\r' then "\\r" else if c = '\\' then "\\\\" else if c = '\t' then "\\t" else c.toString)

def cmdFmt (ws : List String) : Option String :=
  match ws with
  | ["fmt", kind, o, r, c, idx] => do
    let o ← parseOrder o; let r ← r.toNat?; let c ← c.toNat?
    let idx ← parseNatList idx
    let m : Matrix Nat := ⟨o, (Shape.mk r c).toAxis o, idx.toArray⟩
    let render := fun (i : Nat) => ((palette[i]?).getD "?").toList
    let res := if kind = "display" then Fmt.display render m else Fmt.debug render m
    match res with
    | .error e => pure (faultStr e)
    | .ok s => pure ("ok " ++ escapeOut (String.ofList s))
  | ["zfmt", _which, n, es] => do
    -- a 1 x n / n x 1 matrix of a zero-sized type: too large to run; the answer is the decision of
    -- `BridgeT15.display_source_full` / `debug_source_full` (the cache allocation of the regenerated `fmt`) for
    -- the measured `size_of::<Lines>()`, which must be the model's
    let n ← n.toNat?; let es ← es.toNat?
    if es ≠ Fmt.linesSize then pure "lines-size-differs"
    else if n ≠ 0 ∧ es * n > isizeMax then pure "panic" else pure "ok"
  | _ => none

end Driver
