/-
Driver commands for C04 / C13 (indexing).
-/
import Driver.Util
import Matreex.Model.Index

namespace Driver
open Matreex

def hdrOf (o : Order) (r c : Nat) : Hdr := ⟨o, (Shape.mk r c).toAxis o⟩

/-- scripted accessor: the k-th call of `row()` answers `rows[k]` (the last answer repeats) -/
def scripted (rows cols : List Nat) : Accessor (Nat × Nat) :=
  ⟨fun (i, j) => ((rows.getD i (rows.getLastD 0)), (i + 1, j)),
   fun (i, j) => ((cols.getD j (cols.getLastD 0)), (i, j + 1))⟩

/-- `get`-family on a header: `acc` ∈ get, get_mut (Result) | index, index_mut (panic on error) -/
def accessStr (acc : String) (r : M (Except Error Nat)) (showOff : Bool) : String :=
  let f := fun (k : Nat) => if showOff then toString k else ""
  if acc = "index" ∨ acc = "index_mut" then (mStr f (indexOp r)).trimAscii.toString
  else (resStr f r).trimAscii.toString

def cmdIndex (ws : List String) : Option String :=
  match ws with
  | ["get", acc, _kind, o, r, c, i, j] => do
    let o ← parseOrder o; let r ← r.toNat?; let c ← c.toNat?; let i ← i.toNat?; let j ← j.toNat?
    pure (accessStr acc ((hdrOf o r c).getIdx (r * c) i j) true)
  | ["zget", acc, o, r, c, i, j] => do
    let o ← parseOrder o; let r ← r.toNat?; let c ← c.toNat?; let i ← i.toNat?; let j ← j.toNat?
    pure (accessStr acc ((hdrOf o r c).getIdx (r * c) i j) false)
  | ["getacc", acc, o, r, c, rows, cols] => do
    let o ← parseOrder o; let r ← r.toNat?; let c ← c.toNat?
    let rows ← parseNatList rows; let cols ← parseNatList cols
    let res := (hdrOf o r c).getAcc (r * c) (scripted rows cols) (0, 0)
    match res with
    | .error e => pure (faultStr e)
    | .ok (x, (nr, nc), _) =>
      pure (accessStr acc (.ok x) true ++ s!" row={nr} col={nc}")
  | ["wget", acc, o, r, c, i, j] => do
    let o ← parseOrder o; let r ← r.toNat?; let c ← c.toNat?; let i ← parseInt i; let j ← parseInt j
    let h := hdrOf o r c
    if acc = "get_unchecked" ∨ acc = "get_unchecked_mut" then
      pure (mStr toString ((WrappingIndex.mk i j).resolveUncheckedH h (r * c)))
    else
      pure (accessStr acc ((WrappingIndex.mk i j).resolveH h (r * c)) true)
  | ["ifhook", o, r, c, k] => do
    let o ← parseOrder o; let r ← r.toNat?; let c ← c.toNat?; let k ← k.toNat?
    pure (mStr (fun (i : Index) => s!"{i.row} {i.col}") (Gen.Index.from_flattened k o ((Shape.mk r c).toAxis o)))
  | ["whook", o, r, c, i, j] => do
    let o ← parseOrder o; let r ← r.toNat?; let c ← c.toNat?; let i ← parseInt i; let j ← parseInt j
    pure (mStr (fun (a : AxisIndex) => s!"{a.major} {a.minor}")
      (Gen.AxisIndex.from_wrapping_index ⟨i, j⟩ o ((Shape.mk r c).toAxis o)))
  | ["wzget", o, r, c, i, j] => do
    let o ← parseOrder o; let r ← r.toNat?; let c ← c.toNat?; let i ← parseInt i; let j ← parseInt j
    pure (accessStr "get" ((WrappingIndex.mk i j).resolveH (hdrOf o r c) (r * c)) false)
  | _ => none

end Driver
