/-
Parsing and printing helpers for the line-protocol driver.
-/
import Matreex.Prelude

namespace Driver
open Matreex

def parseOrder (s : String) : Option Order :=
  if s = "R" then some .rowMajor else if s = "C" then some .colMajor else none

def ordStr : Order → String
  | .rowMajor => "R"
  | .colMajor => "C"

def parseInt (s : String) : Option Int :=
  if s.startsWith "-" then (s.drop 1).toNat?.map (fun n => -(n : Int)) else s.toNat?.map (fun n => (n : Int))

def parseNatList (s : String) : Option (List Nat) :=
  if s = "-" then some [] else (s.splitOn ",").mapM (·.toNat?)

def parseIntList (s : String) : Option (List Int) :=
  if s = "-" then some [] else (s.splitOn ",").mapM parseInt

def showList {α : Type} (f : α → String) (l : List α) : String :=
  "[" ++ ",".intercalate (l.map f) ++ "]"

/-- canonical rendering of a fault: panics carry no message (only the kind is compared) -/
def faultStr : Fault → String
  | .ub w => "ub(" ++ w ++ ")"
  | .panic _ => "panic"
  | .fuel => "fuel"

def resStr {α : Type} (f : α → String) : M (Except Error α) → String
  | .error e => faultStr e
  | .ok (.error e) => "err " ++ e.name
  | .ok (.ok a) => "ok " ++ f a

def mStr {α : Type} (f : α → String) : M α → String
  | .error e => faultStr e
  | .ok a => "ok " ++ f a

end Driver
