/-
Driver: register-file interpreter for operation histories (C05 and, as they are added, the other
history-shaped properties).  Elements are opaque payload strings.
-/
import Driver.Util
import Matreex.Model.Transpose
import Matreex.Model.Construct
import Matreex.Model.Swap
import Matreex.Model.Overwrite
import Matreex.Model.Elementwise
import Matreex.Model.Mul
import Matreex.Model.Iter
import Driver.IterSys
import Matreex.Model.Convert
import Matreex.Model.Eq
import Matreex.Model.Index
import Matreex.Model.History
import Matreex.Model.Effects
import Driver.Fmt

namespace Driver
open Matreex

structure World where
  regs : Array (Option (Matrix String)) := Array.replicate 8 none
  zst : Bool := false
  es : Nat := 24
  /-- token elements: `Clone::clone` marks the payload with a prime -/
  tok : Bool := true
  align : Nat := 8
  it : ItState := {}

def World.dfltStr (w : World) : String := if w.zst then "u" else if w.es = 40 then "d" else "0"

def World.cloneFn (w : World) : String → String := fun x => if w.tok then x ++ "'" else x

def stStr (m : Matrix String) : String :=
  s!"st {ordStr m.order} {m.nrows}x{m.ncols} " ++ showList id m.data.toList

def World.get (w : World) (r : Nat) : Option (Matrix String) := (w.regs[r]?).join

def World.set (w : World) (r : Nat) (m : Option (Matrix String)) : World :=
  { w with regs := w.regs.setIfInBounds r m }

/-- run an in-place operation that cannot fail logically (`&mut self -> &mut Self`) -/
def inplace (w : World) (r : Nat) (f : Matrix String → M (Matrix String)) : World × String :=
  match w.get r with
  | none => (w, "bad-op")
  | some m =>
    match f m with
    | .error e => (w, faultStr e)
    | .ok m' => (w.set r (some m'), "ok | " ++ stStr m')

/-- run a fallible in-place operation (`&mut self -> Result<&mut Self>`): the state is printed
in both outcomes -/
def inplaceRes (w : World) (r : Nat) (f : Matrix String → M (Except Error Unit × Matrix String)) :
    World × String :=
  match w.get r with
  | none => (w, "bad-op")
  | some m =>
    match f m with
    | .error e => (w, faultStr e)
    | .ok (.ok (), m') => (w.set r (some m'), "ok | " ++ stStr m')
    | .ok (.error e, m') => (w.set r (some m'), "err " ++ e.name ++ " | " ++ stStr m')

def World.regStr (w : World) (r : Nat) : String :=
  match w.get r with
  | some m => stStr m
  | none => "-"

/-- closures of the named elementwise methods / operators on token payloads:
`ref`: `left.clone() ∘ right.clone()`, `consume` and `assign`: `left ∘ right.clone()`;
`gen`: a recording closure `[left|right]` -/
def ewClosure (w : World) (variant opname : String) : String → String → String :=
  fun l r =>
    let sym := if opname = "add" then "+" else if opname = "sub" then "-" else if opname = "mul" then "*"
      else if opname = "div" then "/" else if opname = "rem" then "%" else "|"
    if opname = "gen" then "[" ++ l ++ "|" ++ r ++ "]"
    else if variant = "ref" then "(" ++ w.cloneFn l ++ sym ++ w.cloneFn r ++ ")"
    else "(" ++ l ++ sym ++ w.cloneFn r ++ ")"

/-- `dst := a.<elementwise op>(&b)` in the three ownership variants; `panicOnErr` for operators -/
def stepEw (w : World) (dst a b : Nat) (variant opname : String) (panicOnErr : Bool) (dropB : Bool) :
    Option (World × String) := do
  let ma ← w.get a
  let mb ← w.get b
  let f := ewClosure w variant opname
  let fin := fun (w' : World) (res : String) =>
    let w'' := if dropB then w'.set b none else w'
    (w'', res ++ " | " ++ w''.regStr dst ++ " | " ++ w''.regStr a ++ " | " ++ w''.regStr b)
  if variant = "assign" then
    match ma.elementwiseAssign mb f with
    | .error e => pure (fin w (faultStr e))
    | .ok (.ok (), m') => pure (fin (w.set a (some m')) "ok")
    | .ok (.error e, m') =>
      pure (fin (w.set a (some m')) (if panicOnErr then "panic" else "err " ++ e.name))
  else
    let w1 := if variant = "consume" then w.set a none else w
    match ma.elementwiseOperation w.es mb f with
    | .error e => pure (fin w1 (faultStr e))
    | .ok (.ok m') => pure (fin (w1.set dst (some m')) "ok")
    | .ok (.error e) => pure (fin w1 (if panicOnErr then "panic" else "err " ++ e.name))

/-- drain from the front, `n` = number of items left (computed once: the lists can be long) -/
def drainFrom {β : Type} : Nat → List β → List (Nat × β)
  | _, [] => []
  | n, x :: xs => (n, x) :: drainFrom (n - 1) xs

/-- consume a double-ended exact-size iterator (= a list) following a pattern of F(ront) /
B(ack) calls, then drain the rest from the front; returns the items in consumption order,
each with the `len()` reported *before* the call -/
def consumeList {β : Type} : List Char → List β → List (Nat × β)
  | _, [] => []
  | [], x :: xs => drainFrom (xs.length + 1) (x :: xs)
  | 'B' :: ps, x :: xs =>
    let l := x :: xs
    match l.getLast? with
    | some y => (l.length, y) :: consumeList ps l.dropLast
    | none => []
  | _ :: ps, x :: xs => (xs.length + 1, x) :: consumeList ps xs
termination_by _ l => l.length
decreasing_by all_goals simp_all

def mkMatrix (o : Order) (r c base : Nat) (zst : Bool) : Matrix String :=
  ⟨o, (Shape.mk r c).toAxis o,
    (Array.range (r * c)).map fun k => if zst then "u" else toString (base + k)⟩

def stepHist (w : World) (ws : List String) : Option (World × String) :=
  match ws with
  | ["elem", kind] =>
    let align := if kind = "z2" then 2 else if kind = "z4" ∨ kind = "u32" then 4 else if kind = "unit" ∨ kind = "u8" then 1 else 8
    let (z, es) := if kind = "unit" ∨ kind = "z2" ∨ kind = "z4" ∨ kind = "z8" then (true, 0) else if kind = "u8" then (false, 1)
      else if kind = "u32" then (false, 4) else if kind = "w24" then (false, 24) else if kind = "cm" then (false, 8) else (false, 40)
    some ({ w with zst := z, es := es, tok := decide (kind = "tok" ∨ kind = "cm"), align := align, regs := Array.replicate 8 none }, "ok")
  | ["new", r, o, nr, nc, base] => do
    let r ← r.toNat?; let o ← parseOrder o; let nr ← nr.toNat?; let nc ← nc.toNat?; let base ← base.toNat?
    let m := mkMatrix o nr nc base w.zst
    pure (w.set r (some m), "ok | " ++ stStr m)
  | ["drop", r] => do
    let r ← r.toNat?
    pure (w.set r none, "ok")
  | ["transpose", r] => do let r ← r.toNat?; pure (inplace w r (·.transpose w.zst))
  | ["switch", r] => do let r ← r.toNat?; pure (inplace w r (·.switchOrder w.zst))
  | ["switch_wr", r] => do
    let r ← r.toNat?; pure (inplace w r (fun m => .ok m.switchOrderWithoutRearrangement))
  | ["set_order", r, o] => do
    let r ← r.toNat?; let o ← parseOrder o; pure (inplace w r (·.setOrder w.zst o))
  | ["set_order_wr", r, o] => do
    let r ← r.toNat?; let o ← parseOrder o
    pure (inplace w r (fun m => .ok (m.setOrderWithoutRearrangement o)))
  | ["reshape", r, nr, nc] => do
    let r ← r.toNat?; let nr ← nr.toNat?; let nc ← nc.toNat?
    pure (inplaceRes w r (·.reshape ⟨nr, nc⟩))
  | ["resize", r, nr, nc] => do
    let r ← r.toNat?; let nr ← nr.toNat?; let nc ← nc.toNat?
    -- requests that would succeed but are too large to run are skipped on both sides
    if nr * nc ≤ usizeMax ∧ w.es * (nr * nc) ≤ isizeMax ∧ nr * nc > 100000 then pure (w, "skipped") else
    pure (inplaceRes w r (fun m => m.resize w.es ⟨nr, nc⟩ w.dfltStr))
  | ["fresize", r, k, nr, nc] => do
    -- `resize` with caller-code invocation number `k` (a `T::default` while growing, a `Drop` of
    -- the tail while shrinking) panicking and the unwind caught: the survivor is the one of the
    -- fault-schedule model (`Effects.resizeFixed`, the function the C02 theorems are about)
    let r ← r.toNat?; let k ← k.toNat?; let nr ← nr.toNat?; let nc ← nc.toNat?
    let m ← w.get r
    match m.resize w.es ⟨nr, nc⟩ w.dfltStr with
    | .error e => pure (w, faultStr e)
    | .ok (.error e, m') => pure (w.set r (some m'), "err " ++ e.name ++ " | " ++ stStr m')
    | .ok (.ok (), m') =>
      let old := m.data.size
      let w0 : Matreex.Effects.World Nat := ⟨0, ⟨m.shape, List.range old⟩, []⟩
      let (s, o) := Matreex.Effects.resizeFixed (· == k) (fun _ => old) m'.shape w0
      let data := s.mat.data.map (fun v => if v < old then m.data[v]! else w.dfltStr)
      let m'' : Matrix String := { m with shape := s.mat.shape, data := data.toArray }
      let tag := match o with | .done => "ok" | .unwound => "unwound" | .aborted => "aborted"
      pure (w.set r (some m''), tag ++ " | " ++ stStr m'')
  | ["overwrite", r, q] => do
    let r ← r.toNat?; let q ← q.toNat?
    let src ← w.get q
    -- `Clone::clone` of a token appends a prime to its payload (so clones are visible)
    let (w', s) := inplace w r (fun m => m.overwrite (w.cloneFn) src)
    pure (w', s ++ " | " ++ stStr src)
  | ["clear", r] => do
    let r ← r.toNat?
    let (w', s) := inplace w r (fun m => .ok { m with shape := ⟨0, 0⟩, data := #[] })
    pure (w', s)
  | ["shrink", r, _] => do
    let r ← r.toNat?
    pure (w, "ok | " ++ w.regStr r)
  | ["apply", r] => do
    let r ← r.toNat?
    pure (inplace w r (fun m => .ok { m with data := (m.data.toList.map fun x => "f(" ++ x ++ ")").toArray }))
  | ["map", dst, r] => do
    let dst ← dst.toNat?; let r ← r.toNat?
    let m ← w.get r
    let w1 := w.set r none
    match m.map w.es (fun x => "g(" ++ x ++ ")") with
    | .error e => pure (w1, faultStr e)
    | .ok (.error e) => pure (w1, "err " ++ e.name ++ " | " ++ w1.regStr dst ++ " | " ++ w1.regStr r)
    | .ok (.ok m') =>
      let w2 := w1.set dst (some m')
      pure (w2, "ok | " ++ w2.regStr dst ++ " | " ++ w2.regStr r)
  | ["map_ref", dst, r] => do
    let dst ← dst.toNat?; let r ← r.toNat?
    let m ← w.get r
    let w1 := w
    match m.map w.es (fun x => "g(" ++ x ++ ")") with
    | .error e => pure (w1, faultStr e)
    | .ok (.error e) => pure (w1, "err " ++ e.name ++ " | " ++ w1.regStr dst ++ " | " ++ w1.regStr r)
    | .ok (.ok m') =>
      let w2 := w1.set dst (some m')
      pure (w2, "ok | " ++ w2.regStr dst ++ " | " ++ w2.regStr r)
  | ["contains", r, payload] => do
    let r ← r.toNat?
    let m ← w.get r
    pure (w, "ok " ++ toString (m.data.toList.contains payload))
  | ["clone", dst, a] => do
    let dst ← dst.toNat?; let a ← a.toNat?
    let m ← w.get a
    let m' := { m with data := (m.data.toList.map w.cloneFn).toArray }
    pure (w.set dst (some m'), "ok | " ++ stStr m')
  | ["eq", a, b] => do
    let a ← a.toNat?; let b ← b.toNat?
    let ma ← w.get a; let mb ← w.get b
    -- the element type's own `==`: a payload that starts with "nan" is equal to nothing, itself
    -- included (like a floating-point NaN)
    pure (w, mStr (fun (v : Bool) => toString v) (ma.beq (fun x y => x == y && !x.startsWith "nan") mb))
  | ["poke", r, i, j, payload] => do
    -- `*m.get_mut((i, j))? = element`
    let r ← r.toNat?; let i ← i.toNat?; let j ← j.toNat?
    -- (`Matrix.setAt` of `Model/History.lean`: the step function of `History.Op.setAt`)
    let m ← w.get r
    match m.setAt i j payload with
    | .error e => pure (w, faultStr e)
    | .ok (.error e, _) => pure (w, "err " ++ e.name ++ " | " ++ stStr m)
    | .ok (.ok (), m') => pure (w.set r (some m'), "ok | " ++ stStr m')
  | ["bump", r, i, j] => do
    -- `let e = m.get_mut((i, j))?; *e = h(*e)` (`History.Op.updAt`)
    let r ← r.toNat?; let i ← i.toNat?; let j ← j.toNat?
    pure (inplaceRes w r (·.updAt i j fun x => "h(" ++ x ++ ")"))
  | ["display", r] => do
    let r ← r.toNat?
    let m ← w.get r
    match Fmt.display String.toList m with
    | .error e => pure (w, faultStr e)
    | .ok s => pure (w, "ok " ++ escapeOut (String.ofList s))
  | ["lview", r] => do
    -- the logical view: extents and rows of elements (independent of the storage order)
    let r ← r.toNat?
    let m ← w.get r
    let rows := (List.range m.nrows).map fun i => (List.range m.ncols).map fun j => (m.at? i j).getD "?"
    pure (w, s!"lv {m.nrows}x{m.ncols} " ++ showList (fun (row : List String) => ";".intercalate row) rows)
  | ["rows", dst, kind, lens] => do
    -- conversions from rows; payloads 1, 2, … are dealt row by row; borrowed inputs are cloned
    let dst ← dst.toNat?
    let lens ← parseNatList lens
    let borrowed := kind = "slice_array" ∨ kind = "slice_vec"
    let mk := fun (start n : Nat) => (List.range n).map fun k =>
      let p := toString (start + k + 1)
      if borrowed then w.cloneFn p else p
    let rows := (lens.foldl (fun (acc : List (List String) × Nat) n => (acc.1 ++ [mk acc.2 n], acc.2 + n)) ([], 0)).1
    let fin := fun (m : Matrix String) => (w.set dst (some m), "ok | " ++ stStr m)
    if kind = "array" ∨ kind = "vec_array" ∨ kind = "slice_array" then
      pure (fin (Matrix.fromArrays (lens.headD 0) rows))
    else if kind = "iter" then
      match Matrix.fromIter rows with
      | .error e => pure (w, faultStr e)
      | .ok m => pure (fin m)
    else
      match Matrix.tryFromRows w.es rows with
      | .error e => pure (w, faultStr e)
      | .ok (.error e) => pure (w, "err " ++ e.name)
      | .ok (.ok m) => pure (fin m)
  | ["from_row", dst, n] => do
    let dst ← dst.toNat?; let n ← n.toNat?
    let m := Matrix.fromRow ((List.range n).map fun k => toString (k + 1))
    pure (w.set dst (some m), "ok | " ++ stStr m)
  | ["from_col", dst, n] => do
    let dst ← dst.toNat?; let n ← n.toNat?
    let m := Matrix.fromCol ((List.range n).map fun k => toString (k + 1))
    pure (w.set dst (some m), "ok | " ++ stStr m)
  | ["ctor", dst, kind, nr, nc] => do
    let dst ← dst.toNat?; let nr ← nr.toNat?; let nc ← nc.toNat?
    let res := if kind = "with_value" then Matrix.withValue w.es ⟨nr, nc⟩ "v"
      else if kind = "with_default" then Matrix.withDefault w.es ⟨nr, nc⟩ w.dfltStr
      else Matrix.withInitializer w.es ⟨nr, nc⟩ (fun i => s!"i{i.row}.{i.col}")
    match res with
    | .error e => pure (w, faultStr e)
    | .ok (.error e) => pure (w, "err " ++ e.name)
    | .ok (.ok m) =>
      -- `vec![value; n]` clones the value n-1 times and moves the original into the last slot
      let m := if kind = "with_value" then
          { m with data := m.data.mapIdx fun k x => if k + 1 < m.data.size then w.cloneFn x else x }
        else m
      pure (w.set dst (some m), "ok | " ++ stStr m)
  | ["zctor", _kind, nr, nc] => do
    -- zero-sized elements: shape and the number of initializer calls (one per position)
    let nr ← nr.toNat?; let nc ← nc.toNat?
    match Matrix.withInitializer 0 ⟨nr, nc⟩ (fun _ => ()) with
    | .error e => pure (w, faultStr e)
    | .ok (.error e) => pure (w, "err " ++ e.name)
    | .ok (.ok m) => pure (w, s!"ok {m.nrows}x{m.ncols} calls={m.data.size}")
  | ["macro", dst, name, arm, a, b] => do
    -- the meaning the documentation gives to each macro form (since the fourth session not looked up in the T1 table any more:
    -- the tie between `src/macros.rs` and this meaning is `C19.macros_are_the_source`, T19, proved)
    let dst ← dst.toNat?; let a ← a.toNat?; let b ← b.toNat?
    let seq := fun (n : Nat) => (List.range n).map fun k => toString (k + 1)
    let rep := (List.range a).map (fun k => if k + 1 < a then w.cloneFn "e" else "e")
    let m : Option (Matrix String) :=
      if name = "matrix" ∧ arm = "empty" then some ⟨.rowMajor, ⟨0, 0⟩, #[]⟩
      else if name = "matrix" ∧ arm = "fill" then
        -- matrix![[e; b]; a]
        (match Matrix.withValue w.es ⟨a, b⟩ "e" with
         | .ok (.ok m) => some { m with data := m.data.mapIdx fun k x => if k + 1 < m.data.size then w.cloneFn x else x }
         | _ => none)
      else if name = "matrix" ∧ arm = "rep" then
        -- matrix![[1, …, b]; a]: the row array is cloned a-1 times, the original is the last row
        some (Matrix.fromArrays b ((List.range a).map fun r => (seq b).map fun x => if r + 1 < a then w.cloneFn x else x))
      else if name = "matrix" ∧ arm = "rows" then
        some (Matrix.fromArrays b ((List.range a).map fun r => (List.range b).map fun k => toString (r * b + k + 1)))
      else if name = "row_vec" ∧ (arm = "empty" ∨ arm = "rep1" ∨ arm = "list") then
        some (Matrix.fromRow (if arm = "rep1" then rep else seq a))
      else if name = "col_vec" ∧ (arm = "empty" ∨ arm = "rep1" ∨ arm = "list") then
        some (Matrix.fromCol (if arm = "rep1" then rep else seq a))
      else none
    match m with
    | some m => pure (w.set dst (some m), "ok | " ++ stStr m)
    | none => pure (w, "bad-op")
  | ["itopen", r, axis] => do
    -- open iter_rows_mut / iter_cols_mut on register r (the matrix stays borrowed for the case)
    let r ← r.toNat?
    let m ← w.get r
    let cfg : IterMut.Cfg := ⟨65536, w.es, m.data.size, w.align⟩
    let (st, s) := itOpen cfg m.order m.shape (axis = "rows")
    pure ({ w with it := st }, s)
  | "it" :: rest => do
    let (st, s) ← itStep w.it rest
    pure ({ w with it := st }, s)
  | ["zitopen", o, nr, nc, axis, align] => do
    -- zero-sized elements with extents up to usize::MAX: no register, only the header
    let o ← parseOrder o; let nr ← nr.toNat?; let nc ← nc.toNat?; let align ← align.toNat?
    let cfg : IterMut.Cfg := ⟨align, 0, nr * nc, align⟩
    let (st, s) := itOpen cfg o ((Shape.mk nr nc).toAxis o) (axis = "rows")
    pure ({ w with it := st }, s)
  | ["viewsmut", r, axis, opat, ipat] => do
    let r ← r.toNat?
    let m ← w.get r
    let cfg : IterMut.Cfg := ⟨65536, w.es, m.data.size, w.align⟩
    let pat := fun (p : String) => if p = "-" then [] else p.toList
    let res := do
      let it ← (if axis = "rows" then IterMut.Vecs.rowsMut cfg m.order m.shape else IterMut.Vecs.colsMut cfg m.order m.shape)
      drainVecs cfg (pat ipat) (m.data.size + 2) (m.nrows + m.ncols + 2) (pat opat) it
    match res with
    | .error e => pure (w, faultStr e)
    | .ok vs =>
      let showItem := fun (p : Nat × Option Nat) =>
        s!"{p.1}:" ++ (match p.2 with | none => "u" | some off => (m.data[off]?).getD "?")
      pure (w, "ok " ++ showList (fun (v : Nat × List (Nat × Option Nat)) => s!"{v.1}:" ++ showList showItem v.2) vs)
  | ["views", r, axis, opat, ipat] => do
    let r ← r.toNat?
    let m ← w.get r
    let pat := fun (p : String) => if p = "-" then [] else p.toList
    match (if axis = "rows" then m.iterRows else m.iterCols) with
    | .error e => pure (w, faultStr e)
    | .ok vs =>
      let outer := consumeList (pat opat) vs
      let showItem := fun (p : Nat × String) => s!"{p.1}:{p.2}"
      pure (w, "ok " ++ showList (fun (v : Nat × List String) => s!"{v.1}:" ++ showList showItem (consumeList (pat ipat) v.2)) outer)
  | ["adapt", r, fam, axis, k] => do
    -- vector k of the given axis through one of the four view families, consumed through iterator
    -- adaptors (nth, nth_back, skip / step_by, take / rev, last, count) instead of next / next_back
    let r ← r.toNat?; let k ← k.toNat?
    let m ← w.get r
    let rows := axis = "rows"
    let vec : M (Option (Except Error (List String))) :=
      if fam = "nth" ∨ fam = "nthmut" then
        (if rows then m.iterNthRow k else m.iterNthCol k).map some
      else
        (if rows then m.iterRows else m.iterCols).map fun vs => (vs[k]?).map Except.ok
    match vec with
    | .error e => pure (w, faultStr e)
    | .ok none => pure (w, "none")
    | .ok (some (.error e)) => pure (w, "err " ++ e.name)
    | .ok (some (.ok l)) =>
      let opt := fun (o : Option String) => o.getD "-"
      let everyOther := (l.drop 1).zipIdx.filterMap fun p => if p.2 % 2 = 0 then some p.1 else none
      -- the provided `nth(n)` = `n` calls of `next`, then one more (`nth_back` likewise from the back); what a jump leaves
      -- behind is seen by the call after it
      let nth := fun (xs : List String) (n : Nat) => ((xs.drop n).head?, xs.drop (n + 1))
      let nthBack := fun (xs : List String) (n : Nat) => ((xs.reverse.drop n).head?, (xs.reverse.drop (n + 1)).reverse)
      let n := l.length
      let big := 2 ^ 62
      let two := fun (p : Option String × List String) (back : Bool) =>
        s!"{opt p.1}/{opt (if back then p.2.getLast? else p.2.head?)}"
      let rest := fun (p : Option String × List String) => s!"{opt p.1}/{showList id p.2}"
      pure (w, s!"ok n1={opt l[1]?} nb1={opt l.reverse[1]?} ss={showList id everyOther} tr={showList id (l.take 2).reverse} rs={showList id (l.reverse.drop 1)} last={opt l.getLast?} count={l.length}"
        ++ s!" nl={two (nth l n) false} nx={two (nth l (n - 1)) false} nh={two (nth l big) false} nbl={two (nthBack l n) true} nbh={two (nthBack l big) false} nr={rest (nth l 1)} nbr={rest (nthBack l 1)}")
  | ["nth", r, kind, n, ipat] => do
    -- iter_nth_row / iter_nth_col and their _mut forms (same adaptor chain)
    let r ← r.toNat?; let n ← n.toNat?
    let m ← w.get r
    let pat := if ipat = "-" then [] else ipat.toList
    let res := if kind = "row" ∨ kind = "row_mut" then m.iterNthRow n else m.iterNthCol n
    match res with
    | .error e => pure (w, faultStr e)
    | .ok (.error e) => pure (w, "err " ++ e.name)
    | .ok (.ok l) => pure (w, "ok " ++ showList (fun (p : Nat × String) => s!"{p.1}:{p.2}") (consumeList pat l))
  | ["iter", r, variant, pattern] => do
    -- element iterators; variants containing "wi" report indices; "into*" consume the matrix
    let r ← r.toNat?
    let m ← w.get r
    let w' := if variant.startsWith "into" then w.set r none else w
    let pat := if pattern = "-" then [] else pattern.toList
    if (variant.splitOn "wi").length > 1 then
      match m.iterWithIndex with
      | .error e => pure (w', faultStr e)
      | .ok items =>
        let c := consumeList pat items
        pure (w', "ok " ++ showList (fun (p : Nat × (Index × String)) => s!"{p.1}:{p.2.1.row}.{p.2.1.col}={p.2.2}") c)
    else
      let c := consumeList pat m.iterElements
      pure (w', "ok " ++ showList (fun (p : Nat × String) => s!"{p.1}:{p.2}") c)
  | "oracle" :: _ => do
    -- a scenario checked by the harness's own oracle only (no model counterpart): the line is echoed as ok
    pure (w, "ok")
  | ["iteradapt", r, variant, adaptor] => do
    -- element iterators consumed through ONE iterator adaptor (an iterator type may override
    -- nth / nth_back / fold-based methods); "into*" variants consume the matrix
    let r ← r.toNat?
    let m ← w.get r
    let w' := if variant.startsWith "into" then w.set r none else w
    let items : M (List String) :=
      if (variant.splitOn "wi").length > 1 then
        m.iterWithIndex.map fun l => l.map fun (p : Index × String) => s!"{p.1.row}.{p.1.col}={p.2}"
      else .ok m.iterElements
    match items with
    | .error e => pure (w', faultStr e)
    | .ok l =>
      let opt := fun (o : Option String) => o.getD "-"
      let everyOther := (l.drop 1).zipIdx.filterMap fun p => if p.2 % 2 = 0 then some p.1 else none
      let tailOf := fun (k : Nat) => String.ofList (adaptor.toList.drop k)
      let two := fun (k : Nat) => ((tailOf k).splitOn "x").map String.toNat?
      let res :=
        if adaptor = "n1" then opt l[1]?
        else if adaptor = "nb1" then opt l.reverse[1]?
        else if adaptor = "ss" then showList id everyOther
        else if adaptor.startsWith "nb" then
          match (tailOf 2).toNat? with | some k => opt l.reverse[k]? | none => "bad-op"
        else if adaptor.startsWith "nn" then
          -- nth(a), then nth(b) on the same iterator
          match two 2 with
          | [some a, some b] => opt l[a]? ++ ";" ++ opt (l.drop (a + 1))[b]?
          | _ => "bad-op"
        else if adaptor.startsWith "n" then
          match (tailOf 1).toNat? with | some k => opt l[k]? | none => "bad-op"
        else if adaptor.startsWith "ss" then
          -- skip(a).step_by(b)
          match two 2 with
          | [some a, some b] =>
            showList id ((l.drop a).zipIdx.filterMap fun p => if b ≠ 0 ∧ p.2 % b = 0 then some p.1 else none)
          | _ => "bad-op"
        else if adaptor = "tr" then showList id (l.take 2).reverse
        else if adaptor = "rs" then showList id (l.reverse.drop 1)
        else if adaptor = "last" then opt l.getLast?
        else if adaptor = "count" then toString l.length
        else showList id l   -- fold: every item, in order
      pure (w', "ok " ++ res)
  | ["mulz", side, oa, n, k, ob, m] => do
    -- product with ONE operand of zero-sized elements (each acts as a multiplicative unit): numeric
    -- operand values 1, 2, …; the zero-sized operand takes the zero-sized paths of the model
    let oa ← parseOrder oa; let ob ← parseOrder ob; let n ← n.toNat?; let k ← k.toNat?; let m ← m.toNat?
    let nums := fun (o : Order) (r c : Nat) => (⟨o, (Shape.mk r c).toAxis o, ((List.range (r * c)).map (· + 1)).toArray⟩ : Matrix Nat)
    let units := fun (o : Order) (r c : Nat) => (⟨o, (Shape.mk r c).toAxis o, Array.replicate (r * c) ()⟩ : Matrix Unit)
    let render := fun (res : M (Except Error (Matrix Nat))) =>
      match res with
      | .error e => faultStr e
      | .ok (.error e) => "err " ++ e.name
      | .ok (.ok c) => s!"ok {ordStr c.order} {c.nrows}x{c.ncols} " ++ showList toString c.data.toList
    if side = "RZ" then
      pure (w, render ((nums oa n k).multiply false true 8 (units ob k m) (fun x _ => x) (· + ·) 0))
    else
      pure (w, render ((units oa n k).multiply true false 8 (nums ob k m) (fun _ y => y) (· + ·) 0))
  | ["mul", dst, a, b, kind] => do
    -- kind: multiply | like | op_oo | op_ob | op_bo | op_bb (operator *, owned/borrowed self and rhs)
    let dst ← dst.toNat?; let a ← a.toNat?; let b ← b.toNat?
    let ma ← w.get a
    let mb ← w.get b
    let selfOwned := kind = "multiply" ∨ kind = "like" ∨ kind = "op_oo" ∨ kind = "op_ob"
    let rhsOwned := kind = "multiply" ∨ kind = "like" ∨ kind = "op_oo" ∨ kind = "op_bo"
    -- a borrowed operand is cloned as a whole first (`self.clone() * rhs.clone()`)
    let cloneM := fun (m : Matrix String) => { m with data := m.data.map w.cloneFn }
    let xa := if selfOwned then ma else cloneM ma
    let xb := if rhsOwned then mb else cloneM mb
    let mulF := fun (x y : String) => "(" ++ w.cloneFn x ++ "*" ++ w.cloneFn y ++ ")"
    let addF := fun (x y : String) => "(" ++ x ++ "+" ++ y ++ ")"
    let likeF := fun (ls rs : List String) => "<" ++ ";".intercalate ls ++ "|" ++ ";".intercalate rs ++ ">"
    let res := if kind = "like" then xa.multiplicationLike w.zst w.zst w.es xb likeF w.dfltStr
      else xa.multiply w.zst w.zst w.es xb mulF addF w.dfltStr
    let w1 := if selfOwned then w.set a none else w
    let w2 := if rhsOwned then w1.set b none else w1
    let isOp := kind.startsWith "op_"
    match res with
    | .error e => pure (w2, faultStr e)
    | .ok (.error e) =>
      pure (w2, (if isOp then "panic" else "err " ++ e.name) ++ " | " ++ w2.regStr dst ++ " | " ++ w2.regStr a ++ " | " ++ w2.regStr b)
    | .ok (.ok c) =>
      let w3 := w2.set dst (some c)
      pure (w3, "ok | " ++ w3.regStr dst ++ " | " ++ w3.regStr a ++ " | " ++ w3.regStr b)
  | ["scgen", dst, a, variant] => do
    -- generic scalar_operation family with a recording closure `[element|scalar]`, scalar "S"
    let dst ← dst.toNat?; let a ← a.toNat?
    let ma ← w.get a
    let f := fun (e s : String) => "[" ++ e ++ "|" ++ s ++ "]"
    if variant = "assign" then
      let m' := ma.scalarAssign "S" f
      let w' := w.set a (some m')
      pure (w', "ok | " ++ w'.regStr dst ++ " | " ++ w'.regStr a)
    else
      let w1 := if variant = "consume" then w.set a none else w
      match ma.scalarOperation w.es "S" f with
      | .error e => pure (w1, faultStr e)
      | .ok (.error e) => pure (w1, "err " ++ e.name ++ " | " ++ w1.regStr dst ++ " | " ++ w1.regStr a)
      | .ok (.ok m') =>
        let w' := w1.set dst (some m')
        pure (w', "ok | " ++ w'.regStr dst ++ " | " ++ w'.regStr a)
  | ["ew", dst, a, b, variant, opname] => do
    let dst ← dst.toNat?; let a ← a.toNat?; let b ← b.toNat?
    stepEw w dst a b variant opname false false
  | ["ewop", dst, a, b, sym, form] => do
    -- operators: form = two letters, o(wned)/b(orrowed) for self and rhs
    let dst ← dst.toNat?; let a ← a.toNat?; let b ← b.toNat?
    let opname := if sym = "+" then "add" else "sub"
    let variant := if form.startsWith "o" then "consume" else "ref"
    stepEw w dst a b variant opname true (form.endsWith "o")
  | ["ewopassign", a, b, sym, form] => do
    let a ← a.toNat?; let b ← b.toNat?
    let opname := if sym = "+" then "add" else "sub"
    stepEw w a a b "assign" opname true (form = "o")
  | ["zswap", name, o, nr, nc, a, b] => do
    let o ← parseOrder o; let nr ← nr.toNat?; let nc ← nc.toNat?; let a ← a.toNat?; let b ← b.toNat?
    -- zero-sized elements: only the outcome is observable; bounds decide it (the data path for
    -- extents this large is covered by the theorem, not by running the model)
    let extent := if name = "swap_rows" then nr else nc
    let _ := o
    pure (w, if a < extent ∧ b < extent then "ok" else "err IndexOutOfBounds")
  | ["swap_rows", r, a, b] => do
    let r ← r.toNat?; let a ← a.toNat?; let b ← b.toNat?
    pure (inplaceRes w r (·.swapRows w.es a b))
  | ["swap_cols", r, a, b] => do
    let r ← r.toNat?; let a ← a.toNat?; let b ← b.toNat?
    pure (inplaceRes w r (·.swapCols w.es a b))
  | ["swap", r, k1, i1, j1, k2, i2, j2] => do
    let r ← r.toNat?
    let i1 ← parseInt i1; let j1 ← parseInt j1; let i2 ← parseInt i2; let j2 ← parseInt j2
    let res := fun (m : Matrix String) (k : String) (i j : Int) =>
      if k = "w" then (WrappingIndex.mk i j).resolve m else m.getIdx i.toNat j.toNat
    pure (inplaceRes w r (fun m => m.swapElems (res m k1 i1 j1) (res m k2 i2 j2)))
  | _ => none

end Driver
