/-
C17 — row/column iterators cross threads only when that is sound, and never race (PARTIAL: the
type checker itself and the hardware memory model are outside the model; see DESIGN.md).

Type-level half: theorems over the tables regenerated from src/iter/iter_mut.rs and src/iter.rs on
every run, through the miniature auto-trait rule of `Model/Traits.lean` (its agreement with rustc is
checked on every run by compile probes and in-process probes for all four (Send, Sync) classes).

Run-time half: the references handed out by one iterator (C03: no position twice, distinct
positions at distinct addresses) are distributed over threads in any way; whatever each thread
writes through its own references and however the threads interleave, no address is written by two
threads and the final memory is that of running the threads one after the other.
-/
import Matreex.Model.Traits
import Matreex.Model.Threads
import Matreex.Lemmas.Threads
import Matreex.Props.C03
import Matreex.Props.C16

namespace Matreex.C17
open Matreex Matreex.Gen Matreex.Traits Matreex.Threads Matreex.C03 Matreex.IterMut

/-! ### type-level half -/

/-- C17: the iterator returned by `iter_rows_mut` / `iter_cols_mut` and the row / column iterator
it yields can be moved to another thread iff the element type is `Send`, and shared iff it is
`Sync` — for all four classes of element types -/
theorem send_sync_iff : ∀ (s y : Bool), ∀ name ∈ [outerType, innerType], ∃ n, name = some n ∧
    has ⟨s, y⟩ .send n = s ∧ has ⟨s, y⟩ .sync n = y := by decide

/-- neither iterator can be duplicated (no derive, no hand-written impl of Clone / Copy) -/
theorem not_duplicable : ∀ name ∈ [outerType, innerType], ∃ n, name = some n ∧ duplicable n = false := by decide

/-- the hand-written impls never grant more than the reference they stand for: the iterators are
`Send` / `Sync` only when `&mut T` is -/
theorem impls_no_more_than_mut_ref : ∀ (s y : Bool), ∀ tr ∈ [TraitName.send, TraitName.sync], ∀ r ∈ iterStructs,
    has ⟨s, y⟩ tr r.name = true → fieldHas ⟨s, y⟩ tr .mutRef = true := by decide

/-- all four (entry point, order) arms return the one outer struct, rows of a row-major matrix and
columns of a column-major one along the major axis, the others along the minor axis (this is
`Vecs.rowsMut` / `Vecs.colsMut` of the model) -/
theorem entries_table : iterMutEntries.map (fun e => (e.1, e.2.1, e.2.2.2)) =
    [("iter_rows_mut", "RowMajor", "IterVectorsMut::over_major_axis(self)"),
     ("iter_rows_mut", "ColMajor", "IterVectorsMut::over_minor_axis(self)"),
     ("iter_cols_mut", "RowMajor", "IterVectorsMut::over_minor_axis(self)"),
     ("iter_cols_mut", "ColMajor", "IterVectorsMut::over_major_axis(self)")] := by decide

/-- both structs hold only raw pointers, integers and a `PhantomData<&'a mut T>` marker (which ties
lifetime and variance to `&'a mut T`): without the hand-written impls they would be neither `Send`
nor `Sync` for any element type, and with them they claim exactly what the marker stands for -/
theorem fields_sound : ∀ r ∈ iterStructs,
    (∀ f ∈ r.fields, f = .nonNull ∨ f = .plain ∨ f = .phantomMutRef) ∧
    .phantomMutRef ∈ r.fields ∧ .nonNull ∈ r.fields ∧
    (∀ (s y : Bool), ∀ tr ∈ [TraitName.send, TraitName.sync], r.fields.all (fieldHas ⟨s, y⟩ tr) = false) := by decide

/-- both iterators keep the matrix mutably borrowed while they live (the marker carries `'a`): a
client cannot touch the matrix, or open a second iterator, while any of them is alive -/
theorem iterators_hold_the_borrow : ∀ name ∈ [outerType, innerType], ∃ n, name = some n ∧ holdsMutBorrow n = true := by
  decide

/-! ### run-time half -/

variable {α V : Type}

/-- threads whose steps are each owned by one of the thread's own tokens (`R s p`), no token given
to two threads, and steps at one address owned by one token only: no address is written by two
threads (a thread may use a token any number of times) -/
theorem disjointThreads_of_owned {V P : Type} (R : Step V → P → Prop) :
    ∀ (prog : List (List (Step V))) (refs : List (List P)),
    prog.length = refs.length →
    (∀ j (hj : j < prog.length) (hj' : j < refs.length), ∀ s ∈ prog[j], ∃ p ∈ refs[j], R s p) →
    refs.flatten.Nodup →
    (∀ p ∈ refs.flatten, ∀ q ∈ refs.flatten, ∀ s u, R s p → R u q → s.addr = u.addr → p = q) →
    DisjointThreads prog
  | [], _, _, _, _, _ => trivial
  | t :: ts, [], hl, _, _, _ => by simp at hl
  | t :: ts, r :: rs, hl, hp, hnd, hinj => by
    simp only [List.flatten_cons] at hnd hinj
    rw [List.nodup_append] at hnd
    obtain ⟨_, hnd2, hnd3⟩ := hnd
    have hl' : ts.length = rs.length := by simpa using hl
    have hmem : ∀ u ∈ ts.flatten, ∃ q ∈ rs.flatten, R u q := by
      intro u hu
      rw [List.mem_flatten] at hu
      obtain ⟨t', ht', hut'⟩ := hu
      obtain ⟨j, hj, rfl⟩ := List.getElem_of_mem ht'
      obtain ⟨q, hq, e⟩ := hp (j+1) (by simp; omega) (by simp; omega) u (by simpa using hut')
      refine ⟨q, ?_, e⟩
      rw [List.mem_flatten]
      exact ⟨_, List.getElem_mem _, by simpa using hq⟩
    refine ⟨?_, disjointThreads_of_owned R ts rs hl' ?_ hnd2 ?_⟩
    · intro s hs u hu e
      obtain ⟨p, hp1, ep⟩ := hp 0 (by simp) (by simp) s (by simpa using hs)
      obtain ⟨q, hq1, eq⟩ := hmem u hu
      have hp1 : p ∈ r := by simpa using hp1
      have : p = q := hinj p (List.mem_append_left _ hp1) q (List.mem_append_right _ hq1) s u ep eq e
      exact hnd3 p hp1 q hq1 this
    · intro j hj hj' s hs
      have := hp (j+1) (by simp; omega) (by simp; omega) s (by simpa using hs)
      simpa using this
    · intro p hp q hq
      exact hinj p (List.mem_append_right _ hp) q (List.mem_append_right _ hq)

/-- C17: take any matrix, any axis, any finite sequence of calls on one outer iterator and the
inner iterators it yields.  `refs[j]` are the positions whose `&mut` references thread `j`
received: together they are (a permutation of) some of the references handed out — a reference is
not `Copy`, so it goes to at most one thread.  Each thread's program writes only through its own
references (any number of times, in any order).  Then no address is written by two threads, and
every interleaving of the threads ends in the memory of running them one after the other. -/
theorem threads_no_race (cfg : IterMut.Cfg) (m : Matrix α) (h : m.Coh) (hc : CfgOk cfg m)
    (hes : cfg.es ≠ 0) (rows : Bool) (calls : List Call)
    (refs : List (List (Nat × Nat)))
    (hrefs : ∃ l : List (Nat × Nat), l.Perm refs.flatten ∧
      l.Sublist (yielded (absRun (nVectors m rows) (vecLen m rows) ⟨0, 0, []⟩ calls).2))
    (prog : List (List (Step V)))
    (hlen : prog.length = refs.length)
    (hprog : ∀ j (hj : j < prog.length), ∀ s ∈ prog[j],
      ∃ p ∈ refs[j]'(hlen ▸ hj), s.addr = addrOf cfg m rows p) :
    DisjointThreads prog ∧
    ∀ l, Interleave prog l → ∀ mem : Mem V, runAll l mem = runAll prog.flatten mem := by
  obtain ⟨l0, hperm, hsub⟩ := hrefs
  have hy := yielded_nodup (nVectors m rows) (vecLen m rows) calls
  have hr := yielded_in_range (nVectors m rows) (vecLen m rows) calls
  have hnd : refs.flatten.Nodup := hperm.nodup_iff.mp (hsub.nodup hy)
  have hin : ∀ p ∈ refs.flatten, p.1 < nVectors m rows ∧ p.2 < vecLen m rows :=
    fun p hp => hr p (hsub.subset (hperm.mem_iff.mpr hp))
  have hd : DisjointThreads prog := by
    refine disjointThreads_of_owned (fun s p => s.addr = addrOf cfg m rows p) prog refs hlen ?_ hnd ?_
    · intro j hj _ s hs
      exact hprog j hj s hs
    · intro p hp q hq s u e1 e2 e
      exact addr_injective cfg m h hc hes rows p q (hin p hp) (hin q hq) (by rw [← e1, ← e2, e])
  exact ⟨hd, fun l hl mem => interleave_eq_seq hl hd mem⟩

/-- in particular: distinct vectors (rows or columns) given whole to different threads -/
theorem distinct_vectors_no_race (cfg : IterMut.Cfg) (m : Matrix α) (h : m.Coh) (hc : CfgOk cfg m)
    (hes : cfg.es ≠ 0) (rows : Bool)
    (vecs : List (List Nat))            -- vecs[j]: the vectors given to thread j
    (hnd : vecs.flatten.Nodup) (hin : ∀ k ∈ vecs.flatten, k < nVectors m rows)
    (g : Nat → Nat → V → V) :
    let prog : List (List (Step V)) := vecs.map fun ks =>
      ks.flatMap fun k => (List.range (vecLen m rows)).map fun t => (⟨addrOf cfg m rows (k, t), g k t⟩ : Step V)
    DisjointThreads prog ∧
    ∀ l, Interleave prog l → ∀ mem : Mem V, runAll l mem = runAll prog.flatten mem := by
  intro prog
  have hd : DisjointThreads prog := by
    refine disjointThreads_of_owned
      (fun s k => ∃ t, t < vecLen m rows ∧ s.addr = addrOf cfg m rows (k, t)) prog vecs (by simp [prog]) ?_ hnd ?_
    · intro j hj hj' s hs
      simp only [prog, List.getElem_map, List.mem_flatMap, List.mem_map, List.mem_range] at hs
      obtain ⟨k, hk, t, ht, rfl⟩ := hs
      exact ⟨k, hk, t, ht, rfl⟩
    · intro p hp q hq s u ⟨t1, ht1, e1⟩ ⟨t2, ht2, e2⟩ e
      have := addr_injective cfg m h hc hes rows (p, t1) (q, t2) ⟨hin p hp, ht1⟩ ⟨hin q hq, ht2⟩
        (by rw [← e1, ← e2, e])
      exact congrArg Prod.fst this
  exact ⟨hd, fun l hl mem => interleave_eq_seq hl hd mem⟩

/-! ### non-vacuity -/

example : has ⟨true, false⟩ .send "IterVectorsMut" = true ∧ has ⟨true, false⟩ .sync "IterVectorsMut" = false := by decide
example : has ⟨false, true⟩ .send "IterNthVectorMut" = false ∧ has ⟨false, true⟩ .sync "IterNthVectorMut" = true := by decide
/-- without the hand-written impls the raw pointers would forbid both -/
example : (iterStructs.find? (·.name == "IterVectorsMut")).map (fun s => s.fields.all (fieldHas ⟨true, true⟩ .send)) = some false := by decide

end Matreex.C17
