/-
C01, contents clause — refinement of the concrete machine (`Model/History.lean`: order tag, axis
shape, flat element vector, the source's algorithms) to the plain LOGICAL reference model the
property speaks about: a matrix is its order tag, its two extents and a partial function from
coordinates to elements; every operation is a few lines on that view (the textbook meaning of the
API).  `run_refines`: for every history of well-formed operations the concrete world, viewed
logically, IS the reference world produced by the same operations.  Together with `C01.run_inv`
(coherence) and `C01Ledger.run_inv` (exactly-once ownership) this is C01 at full strength for the
operation language of `History.Op`.
-/
import Matreex.Props.C01

namespace Matreex.Spec
open Matreex Matreex.History
variable {α : Type}

/-- the logical matrix: what the public API shows -/
structure LMat (α : Type) where
  order : Order
  nrows : Nat
  ncols : Nat
  /-- `some` exactly inside `nrows × ncols` -/
  el : Nat → Nat → Option α

/-- the logical view of a concrete matrix -/
def abs (m : Matrix α) : LMat α := ⟨m.order, m.nrows, m.ncols, m.at?⟩

def LMat.size (l : LMat α) : Nat := l.nrows * l.ncols

/-- the memory-order sequence of a logical matrix: row by row when row-major, column by column
when column-major -/
def LMat.mem (l : LMat α) : List (Option α) :=
  match l.order with
  | .rowMajor => (List.range l.nrows).flatMap fun r => (List.range l.ncols).map fun c => l.el r c
  | .colMajor => (List.range l.ncols).flatMap fun c => (List.range l.nrows).map fun r => l.el r c

/-- the logical matrix of the given order and shape whose memory-order sequence is `xs` -/
def ofMem (o : Order) (nr nc : Nat) (xs : List (Option α)) : LMat α :=
  ⟨o, nr, nc, fun r c =>
    if r < nr ∧ c < nc then
      (xs[match o with | .rowMajor => r * nc + c | .colMajor => c * nr + r]?).join
    else none⟩

/-- elements inside the shape, `none` outside -/
def fill (o : Order) (nr nc : Nat) (f : Nat → Nat → Option α) : LMat α :=
  ⟨o, nr, nc, fun r c => if r < nr ∧ c < nc then f r c else none⟩

/-! ### the operations, logically (`none` = the call returns `Err` and changes nothing) -/

def transpose (l : LMat α) : LMat α := ⟨l.order, l.ncols, l.nrows, fun r c => l.el c r⟩
def switchOrder (l : LMat α) : LMat α := { l with order := l.order.switch }
def switchOrderWR (l : LMat α) : LMat α := ⟨l.order.switch, l.ncols, l.nrows, fun r c => l.el c r⟩
def setOrder (l : LMat α) (o : Order) : LMat α := { l with order := o }
def setOrderWR (l : LMat α) (o : Order) : LMat α := if o = l.order then l else switchOrderWR l

def reshape (l : LMat α) (nr nc : Nat) : Option (LMat α) :=
  if nr * nc = l.size then some (ofMem l.order nr nc l.mem) else none

def resize (es : Nat) (l : LMat α) (nr nc : Nat) (dflt : α) : Option (LMat α) :=
  if nr * nc ≤ usizeMax ∧ es * (nr * nc) ≤ isizeMax then
    some (ofMem l.order nr nc (l.mem.take (nr * nc) ++ List.replicate (nr * nc - l.size) (some dflt)))
  else none

def swapRows (l : LMat α) (a b : Nat) : Option (LMat α) :=
  if a < l.nrows ∧ b < l.nrows then some { l with el := fun r c => l.el (C10.sw a b r) c } else none

def swapCols (l : LMat α) (a b : Nat) : Option (LMat α) :=
  if a < l.ncols ∧ b < l.ncols then some { l with el := fun r c => l.el r (C10.sw a b c) } else none

def swapElems (l : LMat α) (i1 j1 i2 j2 : Nat) : Option (LMat α) :=
  if i1 < l.nrows ∧ j1 < l.ncols ∧ i2 < l.nrows ∧ j2 < l.ncols then
    some { l with el := fun r c =>
      if r = i1 ∧ c = j1 then l.el i2 j2 else if r = i2 ∧ c = j2 then l.el i1 j1 else l.el r c }
  else none

/-- `*m.get_mut((i, j))? = v`: the partial function updated at `(i, j)` when in range -/
def setAt (l : LMat α) (i j : Nat) (v : α) : Option (LMat α) :=
  if i < l.nrows ∧ j < l.ncols then
    some { l with el := fun r c => if r = i ∧ c = j then some v else l.el r c }
  else none

/-- `*e = f(*e)` at `(i, j)` when in range -/
def updAt (l : LMat α) (i j : Nat) (f : α → α) : Option (LMat α) :=
  if i < l.nrows ∧ j < l.ncols then
    some { l with el := fun r c => if r = i ∧ c = j then (l.el i j).map f else l.el r c }
  else none

def overwrite (dst src : LMat α) (clone : α → α) : LMat α :=
  { dst with el := fun r c =>
      if r < min dst.nrows src.nrows ∧ c < min dst.ncols src.ncols then (src.el r c).map clone
      else dst.el r c }

def map (es : Nat) (l : LMat α) (f : α → α) : Option (LMat α) :=
  if es * l.size ≤ isizeMax then some { l with el := fun r c => (l.el r c).map f } else none

def elementwise (es : Nat) (a b : LMat α) (op : α → α → α) : Option (LMat α) :=
  if a.nrows = b.nrows ∧ a.ncols = b.ncols ∧ es * a.size ≤ isizeMax then
    some { a with el := fun r c => C12.comb op (a.el r c) (b.el r c) }
  else none

def elementwiseAssign (a b : LMat α) (op : α → α → α) : Option (LMat α) :=
  if a.nrows = b.nrows ∧ a.ncols = b.ncols then
    some { a with el := fun r c => C12.comb op (a.el r c) (b.el r c) }
  else none

/-- the textbook product, in lhs's order; a zero inner dimension gives `dflt` everywhere -/
def multiply (es : Nat) (a b : LMat α) (mul add : α → α → α) (dflt : α) : Option (LMat α) :=
  if a.ncols = b.nrows ∧ a.nrows * b.ncols ≤ usizeMax ∧ es * (a.nrows * b.ncols) ≤ isizeMax then
    some (fill a.order a.nrows b.ncols fun i j =>
      if a.ncols = 0 then some dflt else C11.entry mul add a.el b.el a.ncols i j)
  else none

def withValue (es r c : Nat) (v : α) : Option (LMat α) :=
  if r * c ≤ usizeMax ∧ es * (r * c) ≤ isizeMax then some (fill .rowMajor r c fun _ _ => some v) else none

def withInitializer (es r c : Nat) (f : Index → α) : Option (LMat α) :=
  if r * c ≤ usizeMax ∧ es * (r * c) ≤ isizeMax then some (fill .rowMajor r c fun i j => some (f ⟨i, j⟩)) else none

/-- rows given as lists: accepted iff uniform (and representable), then exactly those rows -/
def fromRows (es : Nat) (rows : List (List α)) : Option (LMat α) :=
  if rows.length * C19.firstLen rows ≤ usizeMax ∧ es * (rows.length * C19.firstLen rows) ≤ isizeMax ∧
      (∀ r ∈ rows, r.length = C19.firstLen rows) then
    some (fill .rowMajor rows.length (C19.firstLen rows) fun i j => (rows[i]?).bind (·[j]?))
  else none

def fromIter (rows : List (List α)) : LMat α :=
  fill .rowMajor rows.length (C19.firstLen rows) fun i j => (rows[i]?).bind (·[j]?)

def clear (l : LMat α) : LMat α := ⟨l.order, 0, 0, fun _ _ => none⟩

/-! ### worlds -/

abbrev LWorld (α : Type) := List (Option (LMat α))

def getReg (w : LWorld α) (r : Nat) : Option (LMat α) := (w[r]?).join
def setReg (w : LWorld α) (r : Nat) (m : Option (LMat α)) : LWorld α :=
  List.set (w ++ List.replicate (r + 1 - w.length) none) r m

/-- update register `r` in place with a total operation (absent register: nothing happens) -/
def upd (w : LWorld α) (r : Nat) (f : LMat α → LMat α) : LWorld α :=
  match getReg w r with
  | none => w
  | some l => setReg w r (some (f l))

/-- update register `r` in place with a fallible operation (`none` = `Err`: nothing happens) -/
def upd? (w : LWorld α) (r : Nat) (f : LMat α → Option (LMat α)) : LWorld α :=
  match getReg w r with
  | none => w
  | some l => match f l with
    | none => w
    | some l' => setReg w r (some l')

/-- store a freshly built matrix (`none` = `Err`: nothing is stored) -/
def put (w : LWorld α) (dst : Nat) (res : Option (LMat α)) : LWorld α :=
  match res with
  | none => w
  | some l => setReg w dst (some l)

/-- one operation of the reference model -/
def step (es : Nat) (w : LWorld α) : Op α → LWorld α
  | .withValue dst r c v => put w dst (withValue es r c v)
  | .withInitializer dst r c f => put w dst (withInitializer es r c f)
  | .fromRows dst rows => put w dst (fromRows es rows)
  | .fromIter dst rows => setReg w dst (some (fromIter rows))
  | .transpose r => upd w r transpose
  | .switchOrder r => upd w r switchOrder
  | .switchOrderWR r => upd w r switchOrderWR
  | .setOrder r o => upd w r (setOrder · o)
  | .setOrderWR r o => upd w r (setOrderWR · o)
  | .reshape r nr nc => upd? w r (reshape · nr nc)
  | .resize r nr nc dflt => upd? w r (resize es · nr nc dflt)
  | .swapRows r a b => upd? w r (swapRows · a b)
  | .swapCols r a b => upd? w r (swapCols · a b)
  | .swapElems r i1 j1 i2 j2 => upd? w r (swapElems · i1 j1 i2 j2)
  | .overwrite dst src clone =>
    match getReg w src with
    | none => w
    | some s => upd w dst (overwrite · s clone)
  | .map dst src f =>
    match getReg w src with
    | none => w
    | some s => put w dst (map es s f)
  | .elementwise dst a b op =>
    match getReg w a, getReg w b with
    | some la, some lb => put w dst (elementwise es la lb op)
    | _, _ => w
  | .elementwiseAssign a b op =>
    match getReg w b with
    | none => w
    | some lb => upd? w a (elementwiseAssign · lb op)
  | .multiply dst a b mul add dflt =>
    match getReg w a, getReg w b with
    | some la, some lb => put w dst (multiply es la lb mul add dflt)
    | _, _ => w
  | .clear r => upd w r clear
  | .drop r => setReg w r none
  | .setAt r i j v => upd? w r (setAt · i j v)
  | .updAt r i j f => upd? w r (updAt · i j f)

def run (es : Nat) : LWorld α → List (Op α) → LWorld α
  | w, [] => w
  | w, op :: ops => run es (step es w op) ops

/-- the logical view of a concrete world -/
def absW (w : World α) : LWorld α := w.regs.map (Option.map abs)

/-- rows of a logical matrix, for display and examples -/
def LMat.rows (l : LMat α) : List (List (Option α)) :=
  (List.range l.nrows).map fun r => (List.range l.ncols).map fun c => l.el r c

end Matreex.Spec

namespace Matreex.C01
open Matreex Matreex.History Matreex.Spec
variable {α : Type}

/-! ### worlds -/

theorem getReg_absW (w : World α) (r : Nat) : getReg (absW w) r = (w.get r).map abs := by
  simp only [getReg, absW, World.get, List.getElem?_map]
  cases w.regs[r]? with
  | none => rfl
  | some x => cases x <;> rfl

theorem absW_set (w : World α) (r : Nat) (m : Option (Matrix α)) :
    absW (w.set r m) = setReg (absW w) r (m.map abs) := by
  simp [absW, World.set, setReg, List.map_set, List.map_append, List.map_replicate]

theorem setReg_self (w : LWorld α) (r : Nat) (l : LMat α) (h : getReg w r = some l) :
    setReg w r (some l) = w := by
  unfold getReg at h
  unfold setReg
  have hr : r < w.length := by
    cases hr : w[r]? with
    | none => simp [hr] at h
    | some x => exact (List.getElem?_eq_some_iff.mp hr).1
  have : r + 1 - w.length = 0 := by omega
  rw [this, List.replicate_zero, List.append_nil]
  apply List.ext_getElem?
  intro i
  rw [List.getElem?_set]
  by_cases hi : r = i
  · subst hi
    simp only [↓reduceIte, hr]
    cases hx : w[r]? with
    | none => simp [hx] at h
    | some x => simp only [hx, Option.join_some] at h; rw [h]
  · simp [hi]

theorem inPlace'_refines {w : World α} (hw : Inv w) (r : Nat) (f : Matrix α → M (Matrix α))
    (g : LMat α → LMat α)
    (hf : ∀ m, Good m → ∃ m', f m = .ok m' ∧ abs m' = g (abs m)) :
    ∃ w', inPlace' w r f = .ok w' ∧ absW w' = upd (absW w) r g := by
  unfold inPlace' upd
  rw [getReg_absW]
  cases hg : w.get r with
  | none => exact ⟨w, rfl, rfl⟩
  | some m =>
    obtain ⟨m', h1, h2⟩ := hf m (get_inv hw hg)
    simp only [h1, Option.map_some]
    exact ⟨_, rfl, by rw [absW_set, Option.map_some, h2]⟩

theorem inPlace_refines {w : World α} (hw : Inv w) (r : Nat)
    (f : Matrix α → M (Except Error Unit × Matrix α)) (g : LMat α → Option (LMat α))
    (hf : ∀ m, Good m → ∃ e m', f m = .ok (e, m') ∧ abs m' = (g (abs m)).getD (abs m)) :
    ∃ w', inPlace w r f = .ok w' ∧ absW w' = upd? (absW w) r g := by
  unfold inPlace upd?
  rw [getReg_absW]
  cases hg : w.get r with
  | none => exact ⟨w, rfl, rfl⟩
  | some m =>
    obtain ⟨e, m', h1, h2⟩ := hf m (get_inv hw hg)
    simp only [h1, Option.map_some]
    refine ⟨_, rfl, ?_⟩
    rw [absW_set, Option.map_some, h2]
    cases hx : g (abs m) with
    | none =>
      simp only [Option.getD_none]
      exact setReg_self _ _ _ (by rw [getReg_absW, hg]; rfl)
    | some l => rfl

theorem store_refines (w : World α) (dst : Nat) (res : M (Except Error (Matrix α)))
    (g : Option (LMat α)) (x : Except Error (Matrix α))
    (h2 : (match x with | .ok m => some (abs m) | .error _ => none) = g) (h1 : res = .ok x) :
    ∃ w', store w dst res = .ok w' ∧ absW w' = put (absW w) dst g := by
  subst h1 h2
  unfold store put
  cases x with
  | error e => exact ⟨w, rfl, rfl⟩
  | ok m => exact ⟨_, rfl, by rw [absW_set]; rfl⟩

/-! ### logical matrices -/

theorem LMat.ext' {a b : LMat α} (ho : a.order = b.order) (hr : a.nrows = b.nrows)
    (hc : a.ncols = b.ncols) (he : ∀ i j, a.el i j = b.el i j) : a = b := by
  obtain ⟨o, nr, nc, f⟩ := a
  obtain ⟨o', nr', nc', f'⟩ := b
  simp only at ho hr hc he
  subst ho hr hc
  have : f = f' := funext fun i => funext fun j => he i j
  subst this
  rfl

theorem abs_eq {m : Matrix α} {l : LMat α} (ho : m.order = l.order) (hr : m.nrows = l.nrows)
    (hc : m.ncols = l.ncols) (he : ∀ i j, m.at? i j = l.el i j) : abs m = l :=
  LMat.ext' ho hr hc he

theorem at?_oob (m : Matrix α) {r c : Nat} (h : ¬ (r < m.nrows ∧ c < m.ncols)) : m.at? r c = none := by
  simp [Matrix.at?, h]

theorem at?_inb (m : Matrix α) {r c : Nat} (h : r < m.nrows ∧ c < m.ncols) :
    m.at? r c = m.data[m.idx r c]? := by
  unfold Matrix.at?; rw [if_pos h]

theorem abs_size (m : Matrix α) (h : m.Coh) : (abs m).size = m.data.size := m.nrows_mul_ncols h


/-! ### order operations -/

theorem transpose_refines (m : Matrix α) (hm : Good m) :
    ∃ m', m.transpose false = .ok m' ∧ abs m' = Spec.transpose (abs m) := by
  obtain ⟨m', h1, _, h3, h4, h5, h6⟩ := C05.transpose_spec m hm.1 hm.2
  exact ⟨m', h1, abs_eq h3 h4 h5 (fun i j => h6 j i)⟩

theorem switchOrder_refines (m : Matrix α) (hm : Good m) :
    ∃ m', m.switchOrder false = .ok m' ∧ abs m' = Spec.switchOrder (abs m) := by
  obtain ⟨m', h1, _, h3, h4, h5, h6⟩ := C05.switchOrder_spec m hm.1 hm.2
  exact ⟨m', h1, abs_eq h3 h4 h5 h6⟩

theorem switchOrderWR_refines (m : Matrix α) :
    abs m.switchOrderWithoutRearrangement = Spec.switchOrderWR (abs m) := by
  obtain ⟨_, h2, h3, h4, h5⟩ := C05.switchOrderWithoutRearrangement_spec m
  exact abs_eq h2 h3 h4 (fun i j => h5 j i)

theorem setOrder_refines (m : Matrix α) (hm : Good m) (o : Order) :
    ∃ m', m.setOrder false o = .ok m' ∧ abs m' = Spec.setOrder (abs m) o := by
  obtain ⟨m', h1, _, h3, h4, h5, h6⟩ := C05.setOrder_spec m hm.1 hm.2 o
  exact ⟨m', h1, abs_eq h3 h4 h5 h6⟩

theorem setOrderWR_refines (m : Matrix α) (o : Order) :
    abs (m.setOrderWithoutRearrangement o) = Spec.setOrderWR (abs m) o := by
  unfold Matrix.setOrderWithoutRearrangement Spec.setOrderWR
  by_cases ho : o = m.order
  · have : o = (abs m).order := ho
    rw [if_neg (fun h => h ho), if_pos this]
  · have : ¬ o = (abs m).order := ho
    rw [if_pos ho, if_neg this]
    exact switchOrderWR_refines m

theorem clear_refines (m : Matrix α) :
    abs { m with shape := ⟨0, 0⟩, data := #[] } = Spec.clear (abs m) := by
  apply abs_eq
  · rfl
  · cases m.order <;> simp [Matrix.nrows, AxisShape.nrows, Spec.clear]
  · cases m.order <;> simp [Matrix.ncols, AxisShape.ncols, Spec.clear]
  · intro i j
    simp [Matrix.at?, Spec.clear]


@[simp] theorem abs_order (m : Matrix α) : (abs m).order = m.order := rfl
@[simp] theorem abs_nrows (m : Matrix α) : (abs m).nrows = m.nrows := rfl
@[simp] theorem abs_ncols (m : Matrix α) : (abs m).ncols = m.ncols := rfl
@[simp] theorem abs_el (m : Matrix α) : (abs m).el = m.at? := rfl

theorem nrows_of_shape {m m' : Matrix α} (ho : m'.order = m.order) (hs : m'.shape = m.shape) :
    m'.nrows = m.nrows := by simp only [Matrix.nrows, ho, hs]
theorem ncols_of_shape {m m' : Matrix α} (ho : m'.order = m.order) (hs : m'.shape = m.shape) :
    m'.ncols = m.ncols := by simp only [Matrix.ncols, ho, hs]

/-! ### swaps -/

theorem swapRows_refines (es : Nat) (m : Matrix α) (hm : Good m) (a b : Nat) (ha : a ≤ usizeMax)
    (hb : b ≤ usizeMax) :
    ∃ e m', m.swapRows es a b = .ok (e, m') ∧ abs m' = (Spec.swapRows (abs m) a b).getD (abs m) := by
  obtain ⟨hin, hout⟩ := C10.swapRows_spec es m hm.1 hm.2 a b ha hb
  by_cases h : a < m.nrows ∧ b < m.nrows
  · obtain ⟨m', h1, h2, h3, _, h5⟩ := hin h
    refine ⟨_, _, h1, ?_⟩
    simp only [Spec.swapRows, abs_nrows, h, and_self, ↓reduceIte, Option.getD_some]
    exact abs_eq h2 (nrows_of_shape h2 h3) (ncols_of_shape h2 h3) h5
  · refine ⟨_, _, hout h, ?_⟩
    simp only [Spec.swapRows, abs_nrows, h, ↓reduceIte, Option.getD_none]

theorem swapCols_refines (es : Nat) (m : Matrix α) (hm : Good m) (a b : Nat) (ha : a ≤ usizeMax)
    (hb : b ≤ usizeMax) :
    ∃ e m', m.swapCols es a b = .ok (e, m') ∧ abs m' = (Spec.swapCols (abs m) a b).getD (abs m) := by
  obtain ⟨hin, hout⟩ := C10.swapCols_spec es m hm.1 hm.2 a b ha hb
  by_cases h : a < m.ncols ∧ b < m.ncols
  · obtain ⟨m', h1, h2, h3, _, h5⟩ := hin h
    refine ⟨_, _, h1, ?_⟩
    simp only [Spec.swapCols, abs_ncols, h, and_self, ↓reduceIte, Option.getD_some]
    exact abs_eq h2 (nrows_of_shape h2 h3) (ncols_of_shape h2 h3) h5
  · refine ⟨_, _, hout h, ?_⟩
    simp only [Spec.swapCols, abs_ncols, h, ↓reduceIte, Option.getD_none]

theorem swapElems_refines (m : Matrix α) (hm : Good m) (i1 j1 i2 j2 : Nat) :
    ∃ e m', m.swapElems (m.getIdx i1 j1) (m.getIdx i2 j2) = .ok (e, m') ∧
      abs m' = (Spec.swapElems (abs m) i1 j1 i2 j2).getD (abs m) := by
  rw [C04.get_exact m hm.1 hm.2 i1 j1, C04.get_exact m hm.1 hm.2 i2 j2]
  by_cases h1 : i1 < m.nrows ∧ j1 < m.ncols
  · rw [if_pos h1]
    by_cases h2 : i2 < m.nrows ∧ j2 < m.ncols
    · rw [if_pos h2]
      obtain ⟨d', hd, hsz, hx, hy, hk, _⟩ := C10.swapElems_spec m (m.idx i1 j1) (m.idx i2 j2)
        (m.idx_lt hm.1 h1.1 h1.2) (m.idx_lt hm.1 h2.1 h2.2)
      refine ⟨_, _, hd, ?_⟩
      have hc : i1 < m.nrows ∧ j1 < m.ncols ∧ i2 < m.nrows ∧ j2 < m.ncols := ⟨h1.1, h1.2, h2.1, h2.2⟩
      simp only [Spec.swapElems, abs_nrows, abs_ncols, h1, h2, and_self, ↓reduceIte, Option.getD_some]
      apply abs_eq rfl rfl rfl
      intro r c
      simp only [abs_el]
      by_cases hb : r < m.nrows ∧ c < m.ncols
      · have e0 : (Matrix.mk m.order m.shape d').at? r c = d'[m.idx r c]? :=
          at?_inb (Matrix.mk m.order m.shape d') hb
        rw [e0, at?_inb m hb, at?_inb m h1, at?_inb m h2]
        by_cases c1 : r = i1 ∧ c = j1
        · rw [if_pos c1, c1.1, c1.2]; exact hx
        · rw [if_neg c1]
          by_cases c2 : r = i2 ∧ c = j2
          · rw [if_pos c2, c2.1, c2.2]; exact hy
          · rw [if_neg c2]
            apply hk
            · intro he; exact c1 (m.idx_inj hb.1 hb.2 h1.1 h1.2 he)
            · intro he; exact c2 (m.idx_inj hb.1 hb.2 h2.1 h2.2 he)
      · have c1 : ¬ (r = i1 ∧ c = j1) := fun h => hb ⟨h.1 ▸ h1.1, h.2 ▸ h1.2⟩
        have c2 : ¬ (r = i2 ∧ c = j2) := fun h => hb ⟨h.1 ▸ h2.1, h.2 ▸ h2.2⟩
        rw [if_neg c1, if_neg c2, at?_oob m hb]
        exact at?_oob _ hb
    · rw [if_neg h2]
      refine ⟨_, _, C10.swapElems_err_second m _ _, ?_⟩
      have hc : ¬ (i1 < m.nrows ∧ j1 < m.ncols ∧ i2 < m.nrows ∧ j2 < m.ncols) :=
        fun h => h2 ⟨h.2.2.1, h.2.2.2⟩
      simp only [Spec.swapElems, abs_nrows, abs_ncols, hc, ↓reduceIte, Option.getD_none]
  · rw [if_neg h1]
    refine ⟨_, _, C10.swapElems_err_first m _ _, ?_⟩
    have hc : ¬ (i1 < m.nrows ∧ j1 < m.ncols ∧ i2 < m.nrows ∧ j2 < m.ncols) :=
      fun h => h1 ⟨h.1, h.2.1⟩
    simp only [Spec.swapElems, abs_nrows, abs_ncols, hc, ↓reduceIte, Option.getD_none]


/-! ### element writes -/

/-- the logical view after replacing the element at the offset of the in-range coordinate `(i, j)`:
only that coordinate changes (offsets of distinct in-range coordinates are distinct) -/
theorem at?_write (m : Matrix α) (hc : m.Coh) {i j : Nat} (h : i < m.nrows ∧ j < m.ncols)
    (d' : Array α) (x : Option α) (hx : d'[m.idx i j]? = x)
    (hk : ∀ k, k ≠ m.idx i j → d'[k]? = m.data[k]?) (r c : Nat) :
    (Matrix.mk m.order m.shape d').at? r c = if r = i ∧ c = j then x else m.at? r c := by
  by_cases hb : r < m.nrows ∧ c < m.ncols
  · have e0 : (Matrix.mk m.order m.shape d').at? r c = d'[m.idx r c]? :=
      at?_inb (Matrix.mk m.order m.shape d') hb
    rw [e0]
    by_cases c1 : r = i ∧ c = j
    · rw [if_pos c1, c1.1, c1.2]; exact hx
    · rw [if_neg c1, at?_inb m hb]
      exact hk _ (fun he => c1 (m.idx_inj hb.1 hb.2 h.1 h.2 he))
  · have c1 : ¬ (r = i ∧ c = j) := fun e => hb ⟨e.1 ▸ h.1, e.2 ▸ h.2⟩
    rw [if_neg c1, at?_oob m hb]
    exact at?_oob _ hb

theorem setAt_refines (m : Matrix α) (hm : Good m) (i j : Nat) (v : α) :
    ∃ e m', m.setAt i j v = .ok (e, m') ∧ abs m' = (Spec.setAt (abs m) i j v).getD (abs m) := by
  unfold Matrix.setAt
  rw [C04.get_exact m hm.1 hm.2 i j]
  by_cases h : i < m.nrows ∧ j < m.ncols
  · rw [if_pos h]
    refine ⟨_, _, rfl, ?_⟩
    simp only [Spec.setAt, abs_nrows, abs_ncols, h, and_self, ↓reduceIte, Option.getD_some]
    apply abs_eq rfl rfl rfl
    intro r c
    simp only [abs_el]
    have hlt := m.idx_lt hm.1 h.1 h.2
    exact at?_write m hm.1 h _ _ (by rw [Array.getElem?_setIfInBounds, if_pos rfl, if_pos hlt])
      (fun k hk => by rw [Array.getElem?_setIfInBounds, if_neg (fun e => hk e.symm)]) r c
  · rw [if_neg h]
    refine ⟨_, _, rfl, ?_⟩
    simp only [Spec.setAt, abs_nrows, abs_ncols, h, ↓reduceIte, Option.getD_none]

theorem updAt_refines (m : Matrix α) (hm : Good m) (i j : Nat) (f : α → α) :
    ∃ e m', m.updAt i j f = .ok (e, m') ∧ abs m' = (Spec.updAt (abs m) i j f).getD (abs m) := by
  unfold Matrix.updAt
  rw [C04.get_exact m hm.1 hm.2 i j]
  by_cases h : i < m.nrows ∧ j < m.ncols
  · rw [if_pos h]
    refine ⟨_, _, rfl, ?_⟩
    simp only [Spec.updAt, abs_nrows, abs_ncols, h, and_self, ↓reduceIte, Option.getD_some]
    apply abs_eq rfl rfl rfl
    intro r c
    simp only [abs_el]
    exact at?_write m hm.1 h _ _ (by rw [Array.getElem?_modify, if_pos rfl, at?_inb m h])
      (fun k hk => by rw [Array.getElem?_modify, if_neg (fun e => hk e.symm)]) r c
  · rw [if_neg h]
    refine ⟨_, _, rfl, ?_⟩
    simp only [Spec.updAt, abs_nrows, abs_ncols, h, ↓reduceIte, Option.getD_none]

/-! ### overwrite, map, elementwise, product -/

theorem overwrite_refines (clone : α → α) (d s : Matrix α) (hd : Good d) (hs : Good s) :
    ∃ m', d.overwrite clone s = .ok m' ∧ abs m' = Spec.overwrite (abs d) (abs s) clone := by
  obtain ⟨m', h1, h2, h3, _, h5⟩ := C14.overwrite_spec clone d s hd.1 hs.1
  exact ⟨m', h1, abs_eq h2 (nrows_of_shape h2 h3) (ncols_of_shape h2 h3) h5⟩

theorem map_refines (es : Nat) (s : Matrix α) (hs : Good s) (f : α → α) :
    ∃ x, s.map es f = .ok x ∧
      (match x with | .ok m => some (abs m) | .error _ => none) = Spec.map es (abs s) f := by
  refine ⟨_, C08.map_decision es s f, ?_⟩
  have hsz : (abs s).size = s.data.size := abs_size s hs.1
  by_cases h : es * s.data.size > isizeMax
  · have h' : ¬ es * s.data.size ≤ isizeMax := by omega
    simp only [h, ↓reduceIte, Spec.map, hsz, h']
  · have h' : es * s.data.size ≤ isizeMax := by omega
    simp only [h, ↓reduceIte, Spec.map, hsz, h', Option.some.injEq]
    apply abs_eq rfl rfl rfl
    intro i j
    simp only [abs_el]
    by_cases hb : i < s.nrows ∧ j < s.ncols
    · rw [at?_inb s hb]
      have := at?_inb (Matrix.mk s.order s.shape (s.data.map f)) hb
      rw [this]
      exact Array.getElem?_map ..
    · rw [at?_oob s hb]
      exact at?_oob _ hb

theorem elementwise_refines (es : Nat) (a b : Matrix α) (ha : Good a) (hb : Good b) (op : α → α → α) :
    ∃ x, a.elementwiseOperation es b op = .ok x ∧
      (match x with | .ok m => some (abs m) | .error _ => none) =
        Spec.elementwise es (abs a) (abs b) op := by
  have hsz : (abs a).size = a.data.size := abs_size a ha.1
  by_cases hc : a.nrows = b.nrows ∧ a.ncols = b.ncols
  · by_cases hcap : es * a.data.size > isizeMax
    · refine ⟨_, C12.elementwise_capacity es a b op hc.1 hc.2 hcap, ?_⟩
      have h' : ¬ es * a.data.size ≤ isizeMax := by omega
      simp only [Spec.elementwise, abs_nrows, abs_ncols, hsz, h', and_false, ↓reduceIte]
    · obtain ⟨m, h1, h2, h3, _, h5⟩ := C12.elementwise_spec es a b op ha.1 hb.1 ha.2 hb.2 hc.1 hc.2
        (by omega)
      refine ⟨_, h1, ?_⟩
      have h' : es * a.data.size ≤ isizeMax := by omega
      simp only [Spec.elementwise, abs_nrows, abs_ncols, hsz, h', hc, and_self, ↓reduceIte,
        Option.some.injEq]
      exact abs_eq h2 ((nrows_of_shape h2 h3).trans hc.1) ((ncols_of_shape h2 h3).trans hc.2) h5
  · refine ⟨_, C12.elementwise_not_conformable es a b op hc, ?_⟩
    have h' : ¬ (a.nrows = b.nrows ∧ a.ncols = b.ncols ∧ es * a.data.size ≤ isizeMax) :=
      fun h => hc ⟨h.1, h.2.1⟩
    simp only [Spec.elementwise, abs_nrows, abs_ncols, hsz, h', ↓reduceIte]

theorem elementwiseAssign_refines (a b : Matrix α) (ha : Good a) (hb : Good b) (op : α → α → α) :
    ∃ e m', a.elementwiseAssign b op = .ok (e, m') ∧
      abs m' = (Spec.elementwiseAssign (abs a) (abs b) op).getD (abs a) := by
  by_cases hc : a.nrows = b.nrows ∧ a.ncols = b.ncols
  · obtain ⟨m, h1, h2, h3, _, h5⟩ := C12.elementwiseAssign_spec a b op ha.1 hb.1 ha.2 hb.2 hc.1 hc.2
    refine ⟨_, _, h1, ?_⟩
    simp only [Spec.elementwiseAssign, abs_nrows, abs_ncols, hc, and_self, ↓reduceIte,
      Option.getD_some]
    exact abs_eq h2 ((nrows_of_shape h2 h3).trans hc.1) ((ncols_of_shape h2 h3).trans hc.2) h5
  · refine ⟨_, _, C12.elementwiseAssign_not_conformable a b op hc, ?_⟩
    simp only [Spec.elementwiseAssign, abs_nrows, abs_ncols, hc, ↓reduceIte, Option.getD_none]

theorem multiply_refines (es : Nat) (a b : Matrix α) (ha : Good a) (hb : Good b)
    (mul add : α → α → α) (dflt : α) :
    ∃ x, a.multiply false false es b mul add dflt = .ok x ∧
      (match x with | .ok m => some (abs m) | .error _ => none) =
        Spec.multiply es (abs a) (abs b) mul add dflt := by
  have e1 : a.hdr.ncols = a.ncols := rfl
  have e2 : a.hdr.nrows = a.nrows := rfl
  have e3 : b.hdr.ncols = b.ncols := rfl
  have e4 : b.hdr.nrows = b.nrows := rfl
  by_cases hc : a.ncols = b.nrows
  · by_cases h1 : a.nrows * b.ncols > usizeMax
    · refine ⟨.error .sizeOverflow, ?_, ?_⟩
      · simp only [Matrix.multiply, mulLike, C08.mulDecision_spec, e1, e2, e3, e4, bind, Except.bind]
        simp [hc, h1, bindErr]
      · have h' : ¬ a.nrows * b.ncols ≤ usizeMax := by omega
        simp only [Spec.multiply, abs_nrows, abs_ncols, h', false_and, and_false, ↓reduceIte]
    · by_cases h2 : es * (a.nrows * b.ncols) > isizeMax
      · refine ⟨.error .capacityOverflow, ?_, ?_⟩
        · simp only [Matrix.multiply, mulLike, C08.mulDecision_spec, e1, e2, e3, e4, bind, Except.bind]
          simp [hc, h1, h2, bindErr]
        · have h' : ¬ es * (a.nrows * b.ncols) ≤ isizeMax := by omega
          simp only [Spec.multiply, abs_nrows, abs_ncols, h', and_false, ↓reduceIte]
      · obtain ⟨c, h3, h4, h5, h6, _, h8⟩ := C11.multiply_spec es a b mul add dflt ha.1 hb.1 ha.2 hb.2 hc
          (by omega) (by omega)
        refine ⟨_, h3, ?_⟩
        have h1' : a.nrows * b.ncols ≤ usizeMax := by omega
        have h2' : es * (a.nrows * b.ncols) ≤ isizeMax := by omega
        simp only [Spec.multiply, abs_nrows, abs_ncols, hc, h1', h2', and_self, ↓reduceIte,
          Option.some.injEq]
        apply abs_eq h4 h5 h6
        intro i j
        simp only [Spec.fill, abs_el]
        by_cases hb' : i < a.nrows ∧ j < b.ncols
        · rw [if_pos hb', h8 i j hb'.1 hb'.2, hc]
        · rw [if_neg hb']
          exact at?_oob c (by rw [h5, h6]; exact hb')
  · refine ⟨_, C11.multiply_not_conformable false false es a b mul add dflt hc, ?_⟩
    simp only [Spec.multiply, abs_nrows, abs_ncols, hc, false_and, ↓reduceIte]


/-! ### constructors -/

theorem abs_fill {m : Matrix α} {o : Order} {nr nc : Nat} {f : Nat → Nat → Option α}
    (ho : m.order = o) (hr : m.nrows = nr) (hc : m.ncols = nc)
    (he : ∀ i j, i < nr → j < nc → m.at? i j = f i j) : abs m = fill o nr nc f := by
  apply abs_eq ho hr hc
  intro i j
  simp only [fill]
  by_cases hb : i < nr ∧ j < nc
  · rw [if_pos hb]; exact he i j hb.1 hb.2
  · rw [if_neg hb]; exact at?_oob m (by rw [hr, hc]; exact hb)

theorem withValue_refines (es r c : Nat) (v : α) :
    ∃ x, Matrix.withValue es ⟨r, c⟩ v = .ok x ∧
      (match x with | .ok m => some (abs m) | .error _ => none) = Spec.withValue es r c v := by
  by_cases h1 : r * c > usizeMax
  · refine ⟨_, C08.withValue_spec es r c v, ?_⟩
    have h' : ¬ r * c ≤ usizeMax := by omega
    simp only [h1, ↓reduceIte, Spec.withValue, h', false_and]
  · by_cases h2 : es * (r * c) > isizeMax
    · refine ⟨_, C08.withValue_spec es r c v, ?_⟩
      have h' : ¬ es * (r * c) ≤ isizeMax := by omega
      simp only [h1, h2, ↓reduceIte, Spec.withValue, h', and_false]
    · have h1' : r * c ≤ usizeMax := by omega
      have h2' : es * (r * c) ≤ isizeMax := by omega
      obtain ⟨m, hm, hr, hc, hat⟩ := C19.withValue_fill es r c v h1' h2'
      refine ⟨_, hm, ?_⟩
      have ho : m.order = .rowMajor := by
        rw [C08.withValue_spec] at hm
        simp only [h1, h2, ↓reduceIte, Except.ok.injEq] at hm
        rw [← hm]
      simp only [Spec.withValue, h1', h2', and_self, ↓reduceIte, Option.some.injEq]
      exact abs_fill ho hr hc hat

theorem withInitializer_refines (es r c : Nat) (f : Index → α) :
    ∃ x, Matrix.withInitializer es ⟨r, c⟩ f = .ok x ∧
      (match x with | .ok m => some (abs m) | .error _ => none) = Spec.withInitializer es r c f := by
  by_cases h1 : r * c > usizeMax
  · obtain ⟨d, hd, _⟩ := C08.withInitializer_decision es r c f
    refine ⟨_, hd, ?_⟩
    have h' : ¬ r * c ≤ usizeMax := by omega
    simp only [h1, ↓reduceIte, Spec.withInitializer, h', false_and]
  · by_cases h2 : es * (r * c) > isizeMax
    · obtain ⟨d, hd, _⟩ := C08.withInitializer_decision es r c f
      refine ⟨_, hd, ?_⟩
      have h' : ¬ es * (r * c) ≤ isizeMax := by omega
      simp only [h1, h2, ↓reduceIte, Spec.withInitializer, h', and_false]
    · have h1' : r * c ≤ usizeMax := by omega
      have h2' : es * (r * c) ≤ isizeMax := by omega
      obtain ⟨m, hm, ho, hr, hc, _, hat⟩ := C19.withInitializer_spec es r c f h1' h2'
      refine ⟨_, hm, ?_⟩
      simp only [Spec.withInitializer, h1', h2', and_self, ↓reduceIte, Option.some.injEq]
      exact abs_fill ho hr hc hat

theorem fromRows_refines (es : Nat) (rows : List (List α)) :
    ∃ x, Matrix.tryFromRows es rows = .ok x ∧
      (match x with | .ok m => some (abs m) | .error _ => none) = Spec.fromRows es rows := by
  by_cases h1 : rows.length * C19.firstLen rows > usizeMax
  · refine ⟨.error .sizeOverflow, ?_, ?_⟩
    · unfold C19.firstLen at h1
      simp [Matrix.tryFromRows, C08.sizeDecision_spec, bind, Except.bind, h1, bindErr]
    · have h' : ¬ rows.length * C19.firstLen rows ≤ usizeMax := by omega
      simp only [Spec.fromRows, h', false_and, ↓reduceIte]
  · by_cases h2 : es * (rows.length * C19.firstLen rows) > isizeMax
    · refine ⟨.error .capacityOverflow, ?_, ?_⟩
      · unfold C19.firstLen at h1 h2
        simp [Matrix.tryFromRows, C08.sizeDecision_spec, bind, Except.bind, h1, h2, bindErr]
      · have h' : ¬ es * (rows.length * C19.firstLen rows) ≤ isizeMax := by omega
        simp only [Spec.fromRows, h', false_and, and_false, ↓reduceIte]
    · have h1' : rows.length * C19.firstLen rows ≤ usizeMax := by omega
      have h2' : es * (rows.length * C19.firstLen rows) ≤ isizeMax := by omega
      have hs := C19.tryFromRows_spec es rows h1' h2'
      split at hs
      · rename_i hu
        refine ⟨_, hs, ?_⟩
        obtain ⟨_, k2, k3, k4⟩ := C19.rows_of_flatten rows _ hu
        have hcond : rows.length * C19.firstLen rows ≤ usizeMax ∧
            es * (rows.length * C19.firstLen rows) ≤ isizeMax ∧
            (∀ r ∈ rows, r.length = C19.firstLen rows) := ⟨h1', h2', hu⟩
        simp only [Spec.fromRows]
        rw [if_pos hcond]
        exact congrArg some (abs_fill rfl k2 k3 k4)
      · rename_i hu
        refine ⟨_, hs, ?_⟩
        have hcond : ¬ (rows.length * C19.firstLen rows ≤ usizeMax ∧
            es * (rows.length * C19.firstLen rows) ≤ isizeMax ∧
            (∀ r ∈ rows, r.length = C19.firstLen rows)) := fun h => hu h.2.2
        simp only [Spec.fromRows]
        rw [if_neg hcond]

theorem fromIter_refines (rows : List (List α)) (h1 : rows.length ≤ usizeMax)
    (h2 : ∀ row ∈ rows, row.length = (rows.head?.map List.length).getD 0) :
    ∃ m, Matrix.fromIter rows = .ok m ∧ abs m = Spec.fromIter rows := by
  cases rows with
  | nil =>
    refine ⟨_, C19.fromIter_empty, ?_⟩
    exact abs_fill rfl rfl rfl (fun i j hi _ => absurd hi (Nat.not_lt_zero _))
  | cons first rest =>
    have hu' : ∀ r ∈ first :: rest, r.length = C19.firstLen (first :: rest) := h2
    simp only [List.head?_cons, Option.map_some, Option.getD_some] at h2
    have hs := C19.fromIter_spec first rest (by simp at h1; omega)
    have hu : ∀ r ∈ rest, r.length = first.length := fun r hr => h2 r (by simp [hr])
    rw [if_pos hu] at hs
    refine ⟨_, hs, ?_⟩
    obtain ⟨_, k2, k3, k4⟩ := C19.rows_of_flatten (first :: rest) _ hu'
    have e : 1 + rest.length = (first :: rest).length := by simp [Nat.add_comm]
    rw [e]
    exact abs_fill rfl k2 k3 k4


/-! ### the memory-order sequence: reshape, resize -/

theorem flatMap_range_eq {β : Type} (C : Nat) (g : Nat → Nat → β) (f : Nat → β) :
    ∀ (R : Nat), (∀ r c, r < R → c < C → g r c = f (r * C + c)) →
    (List.range R).flatMap (fun r => (List.range C).map (g r)) = (List.range (R * C)).map f := by
  intro R
  induction R with
  | zero => intro _; simp
  | succ R ih =>
    intro h
    rw [List.range_succ, List.flatMap_append, ih (fun r c hr hc => h r c (by omega) hc),
      Nat.succ_mul, List.range_add, List.map_append, List.map_map]
    congr 1
    simp only [List.flatMap_cons, List.flatMap_nil, List.append_nil]
    apply List.map_congr_left
    intro c hc
    exact h R c (by omega) (List.mem_range.mp hc)

theorem range_map_getElem? {β : Type} (l : List β) :
    (List.range l.length).map (fun k => l[k]?) = l.map some := by
  apply List.ext_getElem?
  intro i
  simp only [List.getElem?_map]
  by_cases hi : i < l.length
  · rw [List.getElem?_range hi, Option.map_some, List.getElem?_eq_getElem hi]; rfl
  · rw [List.getElem?_eq_none (by simpa using hi), List.getElem?_eq_none (by omega)]; rfl

theorem join_map_some {β : Type} (l : List β) (k : Nat) : ((l.map some)[k]?).join = l[k]? := by
  rw [List.getElem?_map]; cases l[k]? <;> rfl

/-- for a coherent matrix the memory-order sequence of the logical view is the element vector -/
theorem mem_abs (m : Matrix α) (h : m.Coh) : (abs m).mem = m.data.toList.map some := by
  have hsz := h.size_eq
  rw [← range_map_getElem?, Array.length_toList, ← hsz]
  obtain ⟨o, sh, d⟩ := m
  cases o
  · apply flatMap_range_eq
    intro r c hr hc
    have hb : r < (Matrix.mk .rowMajor sh d).nrows ∧ c < (Matrix.mk .rowMajor sh d).ncols := ⟨hr, hc⟩
    show (Matrix.mk .rowMajor sh d).at? r c = _
    rw [at?_inb _ hb, Array.getElem?_toList]
    rfl
  · apply flatMap_range_eq
    intro c r hc hr
    have hb : r < (Matrix.mk .colMajor sh d).nrows ∧ c < (Matrix.mk .colMajor sh d).ncols := ⟨hr, hc⟩
    show (Matrix.mk .colMajor sh d).at? r c = _
    rw [at?_inb _ hb, Array.getElem?_toList]
    rfl

/-- a matrix of order `o`, logical shape `nr × nc` and element vector `d`, viewed logically -/
theorem abs_eq_ofMem (o : Order) (nr nc : Nat) (d : Array α) :
    abs ⟨o, (Shape.mk nr nc).toAxis o, d⟩ = ofMem o nr nc (d.toList.map some) := by
  cases o
  · apply abs_eq rfl rfl rfl
    intro i j
    simp only [ofMem, join_map_some, Array.getElem?_toList]
    rfl
  · apply abs_eq rfl rfl rfl
    intro i j
    simp only [ofMem, join_map_some, Array.getElem?_toList]
    rfl

theorem reshape_refines (m : Matrix α) (hm : Good m) (nr nc : Nat) :
    ∃ e m', m.reshape ⟨nr, nc⟩ = .ok (e, m') ∧ abs m' = (Spec.reshape (abs m) nr nc).getD (abs m) := by
  rw [C08.reshape_decision m hm.2]
  have hsz : (abs m).size = m.data.size := abs_size m hm.1
  by_cases h : nr * nc = m.data.size
  · rw [if_pos h]
    refine ⟨_, _, rfl, ?_⟩
    simp only [Spec.reshape, hsz, h, ↓reduceIte, Option.getD_some, mem_abs m hm.1, abs_order]
    exact abs_eq_ofMem m.order nr nc m.data
  · rw [if_neg h]
    refine ⟨_, _, rfl, ?_⟩
    simp only [Spec.reshape, hsz, h, ↓reduceIte, Option.getD_none]

theorem resize_refines (es : Nat) (m : Matrix α) (hm : Good m) (nr nc : Nat) (dflt : α) :
    ∃ e m', m.resize es ⟨nr, nc⟩ dflt = .ok (e, m') ∧
      abs m' = (Spec.resize es (abs m) nr nc dflt).getD (abs m) := by
  rw [C08.resize_decision]
  have hsz : (abs m).size = m.data.size := abs_size m hm.1
  by_cases h1 : nr * nc > usizeMax
  · rw [if_pos h1]
    refine ⟨_, _, rfl, ?_⟩
    have h' : ¬ nr * nc ≤ usizeMax := by omega
    simp only [Spec.resize, h', false_and, ↓reduceIte, Option.getD_none]
  · rw [if_neg h1]
    by_cases h2 : es * (nr * nc) > isizeMax
    · rw [if_pos h2]
      refine ⟨_, _, rfl, ?_⟩
      have h' : ¬ es * (nr * nc) ≤ isizeMax := by omega
      simp only [Spec.resize, h', and_false, ↓reduceIte, Option.getD_none]
    · rw [if_neg h2]
      refine ⟨_, _, rfl, ?_⟩
      have h1' : nr * nc ≤ usizeMax := by omega
      have h2' : es * (nr * nc) ≤ isizeMax := by omega
      simp only [Spec.resize, h1', h2', and_self, ↓reduceIte, Option.getD_some, hsz,
        mem_abs m hm.1, abs_order]
      rw [abs_eq_ofMem, C09.resizeData_toList, List.map_append, List.map_take, List.map_replicate]


/-! ### the refinement theorems -/

/-- one step: on a world satisfying the invariant, a well-formed operation runs without fault and
the logical view of the resulting world is the reference model's step on the logical view -/
theorem step_refines (es : Nat) (w : World α) (op : Op α) (hw : Inv w) (hop : op.WF) :
    ∃ w', History.step es w op = .ok w' ∧ absW w' = Spec.step es (absW w) op := by
  cases op with
  | withValue dst r c v =>
    obtain ⟨x, h1, h2⟩ := withValue_refines es r c v
    exact store_refines w dst _ _ x h2 h1
  | withInitializer dst r c f =>
    obtain ⟨x, h1, h2⟩ := withInitializer_refines es r c f
    exact store_refines w dst _ _ x h2 h1
  | fromRows dst rows =>
    obtain ⟨x, h1, h2⟩ := fromRows_refines es rows
    exact store_refines w dst _ _ x h2 h1
  | fromIter dst rows =>
    obtain ⟨m, h1, h2⟩ := fromIter_refines rows hop.1 hop.2.1
    simp only [History.step, h1, Spec.step]
    exact ⟨_, rfl, by rw [absW_set, Option.map_some, h2]⟩
  | transpose r =>
    exact inPlace'_refines hw r _ _ (fun m hm => transpose_refines m hm)
  | switchOrder r =>
    exact inPlace'_refines hw r _ _ (fun m hm => switchOrder_refines m hm)
  | switchOrderWR r =>
    exact inPlace'_refines hw r _ _ (fun m _ => ⟨_, rfl, switchOrderWR_refines m⟩)
  | setOrder r o =>
    exact inPlace'_refines hw r _ (Spec.setOrder · o) (fun m hm => setOrder_refines m hm o)
  | setOrderWR r o =>
    exact inPlace'_refines hw r _ (Spec.setOrderWR · o) (fun m _ => ⟨_, rfl, setOrderWR_refines m o⟩)
  | reshape r nr nc =>
    exact inPlace_refines hw r _ (Spec.reshape · nr nc) (fun m hm => reshape_refines m hm nr nc)
  | resize r nr nc dflt =>
    exact inPlace_refines hw r _ (Spec.resize es · nr nc dflt)
      (fun m hm => resize_refines es m hm nr nc dflt)
  | swapRows r a b =>
    exact inPlace_refines hw r _ (Spec.swapRows · a b)
      (fun m hm => swapRows_refines es m hm a b hop.1 hop.2)
  | swapCols r a b =>
    exact inPlace_refines hw r _ (Spec.swapCols · a b)
      (fun m hm => swapCols_refines es m hm a b hop.1 hop.2)
  | swapElems r i1 j1 i2 j2 =>
    exact inPlace_refines hw r _ (Spec.swapElems · i1 j1 i2 j2)
      (fun m hm => swapElems_refines m hm i1 j1 i2 j2)
  | overwrite dst src clone =>
    simp only [History.step, Spec.step, getReg_absW]
    cases hs : w.get src with
    | none => exact ⟨w, rfl, rfl⟩
    | some s =>
      exact inPlace'_refines hw dst _ (Spec.overwrite · (abs s) clone)
        (fun d hd => overwrite_refines clone d s hd (get_inv hw hs))
  | map dst src f =>
    simp only [History.step, Spec.step, getReg_absW]
    cases hs : w.get src with
    | none => exact ⟨w, rfl, rfl⟩
    | some s =>
      obtain ⟨x, h1, h2⟩ := map_refines es s (get_inv hw hs) f
      exact store_refines w dst _ _ x h2 h1
  | elementwise dst a b op =>
    simp only [History.step, Spec.step, getReg_absW]
    cases ha : w.get a with
    | none => exact ⟨w, rfl, rfl⟩
    | some ma =>
      cases hb : w.get b with
      | none => exact ⟨w, rfl, rfl⟩
      | some mb =>
        obtain ⟨x, h1, h2⟩ := elementwise_refines es ma mb (get_inv hw ha) (get_inv hw hb) op
        exact store_refines w dst _ _ x h2 h1
  | elementwiseAssign a b op =>
    simp only [History.step, Spec.step, getReg_absW]
    cases hb : w.get b with
    | none => exact ⟨w, rfl, rfl⟩
    | some mb =>
      exact inPlace_refines hw a _ (Spec.elementwiseAssign · (abs mb) op)
        (fun ma hma => elementwiseAssign_refines ma mb hma (get_inv hw hb) op)
  | multiply dst a b mul add dflt =>
    simp only [History.step, Spec.step, getReg_absW]
    cases ha : w.get a with
    | none => exact ⟨w, rfl, rfl⟩
    | some ma =>
      cases hb : w.get b with
      | none => exact ⟨w, rfl, rfl⟩
      | some mb =>
        obtain ⟨x, h1, h2⟩ := multiply_refines es ma mb (get_inv hw ha) (get_inv hw hb) mul add dflt
        exact store_refines w dst _ _ x h2 h1
  | clear r =>
    exact inPlace'_refines hw r _ _ (fun m _ => ⟨_, rfl, clear_refines m⟩)
  | drop r =>
    exact ⟨_, rfl, by rw [absW_set]; rfl⟩
  | setAt r i j v =>
    exact inPlace_refines hw r _ (Spec.setAt · i j v) (fun m hm => setAt_refines m hm i j v)
  | updAt r i j f =>
    exact inPlace_refines hw r _ (Spec.updAt · i j f) (fun m hm => updAt_refines m hm i j f)

/-- C01, contents clause: for every finite history of well-formed operations, from any world
satisfying the invariant (in particular the empty one), the concrete machine never faults and its
logical view equals the reference model run on the same operations -/
theorem run_refines (es : Nat) (ops : List (Op α)) : ∀ (w : World α), Inv w → (∀ op ∈ ops, op.WF) →
    ∃ w', History.run es w ops = .ok w' ∧ absW w' = Spec.run es (absW w) ops := by
  induction ops with
  | nil => intro w _ _; exact ⟨w, rfl, rfl⟩
  | cons op ops ih =>
    intro w hw hops
    have hwf : op.WF := hops op (by simp)
    obtain ⟨w1, h1, h2⟩ := step_refines es w op hw hwf
    obtain ⟨w1', h1', hinv⟩ := step_inv es w op hw hwf
    have : w1' = w1 := by rw [h1] at h1'; cases h1'; rfl
    subst this
    obtain ⟨w2, h3, h4⟩ := ih w1' hinv (fun o ho => hops o (by simp [ho]))
    exact ⟨w2, by simp only [History.run, h1, h3], by rw [h4, h2]; rfl⟩

theorem run_refines_init (es : Nat) (ops : List (Op α)) (hops : ∀ op ∈ ops, op.WF) :
    ∃ w', History.run es ⟨[]⟩ ops = .ok w' ∧ absW w' = Spec.run es [] ops :=
  run_refines es ops ⟨[]⟩ Inv_nil hops

/-! ### non-vacuity of the element writes on the reference model: the logical view of the 2×3
column-major `C04.ex23`, an in-range and an out-of-range write / update -/

example : ((Spec.setAt (abs C04.ex23) 1 2 9).map LMat.rows) =
    some [[some 1, some 2, some 3], [some 4, some 5, some 9]] := by decide
example : ((Spec.setAt (abs C04.ex23) 2 0 9).map LMat.rows) = none := by decide
example : ((Spec.updAt (abs C04.ex23) 0 1 (· * 10)).map LMat.rows) =
    some [[some 1, some 20, some 3], [some 4, some 5, some 6]] := by decide
example : ((Spec.updAt (abs C04.ex23) 0 3 (· * 10)).map LMat.rows) = none := by decide

/-- the reference model and the concrete machine on one history (as `run_refines` says) -/
example : (Spec.run 8 (absW ⟨[some C04.ex23]⟩)
      [.setAt 0 1 2 9, .setAt 0 2 0 7, .updAt 0 0 1 (· * 10), .updAt 0 0 3 (· * 10)]).map
        (Option.map LMat.rows) =
    [some [[some 1, some 20, some 3], [some 4, some 5, some 9]]] := by decide

end Matreex.C01
