/-
C19 — constructors, conversions and macros build exactly the described matrix or fail.
-/
import Matreex.Model.Convert
import Matreex.Props.C08
import Matreex.Props.C15
import Matreex.Lemmas.Except
import Matreex.Gen.Macros

namespace Matreex.C19
open Matreex
variable {α : Type}

/-- logical element `(r, c)` of a row-major matrix built from rows of equal length `n` -/
theorem flatten_get (rows : List (List α)) (n : Nat) (hu : ∀ r ∈ rows, r.length = n) (r c : Nat)
    (hr : r < rows.length) (hc : c < n) :
    rows.flatten[r * n + c]? = (rows[r]?).bind (·[c]?) := by
  induction rows generalizing r with
  | nil => simp at hr
  | cons x xs ih =>
    have hx : x.length = n := hu x (by simp)
    cases r with
    | zero =>
      simp only [Nat.zero_mul, Nat.zero_add, List.flatten_cons, List.getElem?_cons_zero, Option.bind_some]
      rw [List.getElem?_append_left (by omega)]
    | succ r =>
      simp only [List.flatten_cons, List.getElem?_cons_succ]
      rw [List.getElem?_append_right (by rw [hx, Nat.add_mul]; omega)]
      have : (r + 1) * n + c - x.length = r * n + c := by rw [hx, Nat.add_mul]; omega
      rw [this]
      exact ih (fun y hy => hu y (by simp [hy])) r (by simpa using hr)

theorem flatten_length (rows : List (List α)) (n : Nat) (hu : ∀ r ∈ rows, r.length = n) :
    rows.flatten.length = rows.length * n := by
  induction rows with
  | nil => simp
  | cons x xs ih =>
    simp only [List.flatten_cons, List.length_append, List.length_cons, hu x (by simp), Nat.add_mul]
    rw [ih (fun y hy => hu y (by simp [hy]))]; omega

/-- a row-major matrix whose data is the concatenation of uniform rows has exactly those rows as
logical rows -/
theorem rows_of_flatten (rows : List (List α)) (n : Nat) (hu : ∀ r ∈ rows, r.length = n) :
    let m : Matrix α := ⟨.rowMajor, ⟨rows.length, n⟩, rows.flatten.toArray⟩
    m.Coh ∧ m.nrows = rows.length ∧ m.ncols = n ∧
      ∀ r c, r < rows.length → c < n → m.at? r c = (rows[r]?).bind (·[c]?) := by
  refine ⟨⟨by simp [flatten_length rows n hu]⟩, rfl, rfl, ?_⟩
  intro r c hr hc
  simp only [Matrix.at?, Matrix.nrows, Matrix.ncols, AxisShape.nrows, AxisShape.ncols, hr, hc, and_self,
    ↓reduceIte, Matrix.idx, Index.flat, AxisIndex.flat, AxisIndex.ofIndex]
  simp only [List.getElem?_toArray]
  exact flatten_get rows n hu r c hr hc

theorem extendRows_ok (ncols : Nat) : ∀ (rows : List (List α)) (acc : List α),
    (∀ r ∈ rows, r.length = ncols) → extendRows ncols rows acc = .ok (acc ++ rows.flatten) := by
  intro rows
  induction rows with
  | nil => intro acc _; simp [extendRows]
  | cons r rs ih =>
    intro acc h
    have hr : r.length = ncols := h r (by simp)
    simp only [extendRows, hr, ne_eq, not_true_eq_false, ↓reduceIte, List.flatten_cons]
    rw [ih _ (fun x hx => h x (by simp [hx]))]; simp

theorem extendRows_err (ncols : Nat) : ∀ (rows : List (List α)) (acc : List α),
    (∃ r ∈ rows, r.length ≠ ncols) → extendRows ncols rows acc = .error .lengthInconsistent := by
  intro rows
  induction rows with
  | nil => intro acc h; obtain ⟨r, hr, _⟩ := h; simp at hr
  | cons r rs ih =>
    intro acc h
    simp only [extendRows]
    by_cases hr : r.length = ncols
    · simp only [hr, ne_eq, not_true_eq_false, ↓reduceIte]
      apply ih
      obtain ⟨x, hx, hne⟩ := h
      rcases List.mem_cons.mp hx with rfl | hx
      · exact absurd hr hne
      · exact ⟨x, hx, hne⟩
    · simp [hr]

/-- first row length, or 0 for zero rows -/
def firstLen (rows : List (List α)) : Nat := (rows.head?.map List.length).getD 0

/-- C19, the three `TryFrom` conversions: once the size checks pass (C08), the conversion
succeeds exactly on uniform input and then yields the row-major matrix whose logical rows are
the given rows in order; any deviating row — at any position, shorter or longer, even when the
total length happens to match — is rejected with `LengthInconsistent`. Zero rows and zero-length
rows are uniform. -/
theorem tryFromRows_spec (es : Nat) (rows : List (List α))
    (hsz : rows.length * firstLen rows ≤ usizeMax)
    (hcap : es * (rows.length * firstLen rows) ≤ isizeMax) :
    if ∀ r ∈ rows, r.length = firstLen rows
    then Matrix.tryFromRows es rows = .ok (.ok ⟨.rowMajor, ⟨rows.length, firstLen rows⟩, rows.flatten.toArray⟩)
    else Matrix.tryFromRows es rows = .ok (.error .lengthInconsistent) := by
  have h1 : ¬ rows.length * firstLen rows > usizeMax := by omega
  have h2 : ¬ es * (rows.length * firstLen rows) > isizeMax := by omega
  have hd := C08.sizeDecision_spec es rows.length (firstLen rows) .rowMajor
  simp only [h1, h2, ↓reduceIte] at hd
  split
  · rename_i hu
    simp only [Matrix.tryFromRows, bind, Except.bind]
    unfold firstLen at hd hu
    simp only [hd, bindErr, Vec.reserveExact, h2, ↓reduceIte, extendRows_ok _ rows [] hu, List.nil_append,
      pure, Except.pure, Shape.toAxis]
    unfold firstLen at h2
    simp [h2, firstLen]
  · rename_i hu
    have : ∃ r ∈ rows, r.length ≠ firstLen rows := by
      apply Classical.byContradiction
      intro hc; apply hu; intro r hr
      apply Classical.byContradiction
      intro hne; exact hc ⟨r, hr, hne⟩
    simp only [Matrix.tryFromRows, bind, Except.bind]
    unfold firstLen at hd this h2
    simp only [hd, bindErr, Vec.reserveExact, extendRows_err _ rows [] this, pure, Except.pure]
    simp [h2]

/-- …and the matrix it yields has the given rows as logical rows -/
theorem tryFromRows_rows (rows : List (List α)) (hu : ∀ r ∈ rows, r.length = firstLen rows) :
    let m : Matrix α := ⟨.rowMajor, ⟨rows.length, firstLen rows⟩, rows.flatten.toArray⟩
    m.Coh ∧ m.nrows = rows.length ∧ m.ncols = firstLen rows ∧
      ∀ r c, r < rows.length → c < firstLen rows → m.at? r c = (rows[r]?).bind (·[c]?) :=
  rows_of_flatten rows (firstLen rows) hu

/-- `From` for nested arrays: rows in order, `R × C` -/
theorem fromArrays_spec (c : Nat) (rows : List (List α)) (hu : ∀ r ∈ rows, r.length = c) :
    (Matrix.fromArrays c rows).Coh ∧ (Matrix.fromArrays c rows).order = .rowMajor ∧
    (Matrix.fromArrays c rows).nrows = rows.length ∧ (Matrix.fromArrays c rows).ncols = c ∧
      ∀ r k, r < rows.length → k < c → (Matrix.fromArrays c rows).at? r k = (rows[r]?).bind (·[k]?) := by
  have := rows_of_flatten rows c hu
  exact ⟨this.1, rfl, this.2.1, this.2.2.1, this.2.2.2⟩

/-- `from_row` / `from_col`: a `1 × n` / `n × 1` row-major matrix holding the elements in order -/
theorem fromRow_spec (row : List α) :
    (Matrix.fromRow row).Coh ∧ (Matrix.fromRow row).nrows = 1 ∧ (Matrix.fromRow row).ncols = row.length ∧
      ∀ c, c < row.length → (Matrix.fromRow row).at? 0 c = row[c]? := by
  refine ⟨⟨by simp [Matrix.fromRow, Shape.toAxis]⟩, rfl, rfl, ?_⟩
  intro c hc
  simp [Matrix.fromRow, Matrix.at?, Matrix.nrows, Matrix.ncols, AxisShape.nrows, AxisShape.ncols, Shape.toAxis,
    hc, Matrix.idx, Index.flat, AxisIndex.flat, AxisIndex.ofIndex]

theorem fromCol_spec (col : List α) :
    (Matrix.fromCol col).Coh ∧ (Matrix.fromCol col).nrows = col.length ∧ (Matrix.fromCol col).ncols = 1 ∧
      ∀ r, r < col.length → (Matrix.fromCol col).at? r 0 = col[r]? := by
  refine ⟨⟨by simp [Matrix.fromCol, Shape.toAxis]⟩, rfl, rfl, ?_⟩
  intro r hr
  simp [Matrix.fromCol, Matrix.at?, Matrix.nrows, Matrix.ncols, AxisShape.nrows, AxisShape.ncols, Shape.toAxis,
    hr, Matrix.idx, Index.flat, AxisIndex.flat, AxisIndex.ofIndex]

/-- the `FromIterator` loop on uniform rows: no panic, rows appended in order, one count per row -/
theorem iterRowsLoop_ok (ncols : Nat) : ∀ (rest : List (List α)) (data : List α) (nrows : Nat),
    (∀ r ∈ rest, r.length = ncols) → nrows + rest.length ≤ usizeMax →
    iterRowsLoop ncols rest data nrows data.length = .ok (data ++ rest.flatten, nrows + rest.length) := by
  intro rest
  induction rest with
  | nil => intro data nrows _ _; simp [iterRowsLoop]
  | cons r rs ih =>
    intro data nrows hu hn
    have hr : r.length = ncols := hu r (by simp)
    have e : data.length + r.length - data.length = ncols := by omega
    have hs : usub (data.length + r.length) data.length = .ok (data.length + r.length - data.length) :=
      usub_ok (by omega)
    have ha : uadd nrows 1 = .ok (nrows + 1) := uadd_ok (by simp at hn; omega)
    have := ih (data ++ r) (nrows + 1) (fun x hx => hu x (by simp [hx])) (by simp at hn ⊢; omega)
    simp only [List.length_append] at this
    simp only [iterRowsLoop, List.length_append, bind, Except.bind, hs, e, ne_eq, not_true_eq_false,
      ↓reduceIte, ha, this]
    simp [Nat.add_assoc, Nat.add_comm 1]

/-- a row of a different length — anywhere — makes `from_iter` panic (never an `Ok` matrix) -/
theorem iterRowsLoop_ragged (ncols : Nat) : ∀ (rest : List (List α)) (data : List α) (nrows : Nat),
    (∃ r ∈ rest, r.length ≠ ncols) → nrows + rest.length ≤ usizeMax →
    iterRowsLoop ncols rest data nrows data.length = .error (.panic Error.lengthInconsistent.name) := by
  intro rest
  induction rest with
  | nil => intro data nrows h; obtain ⟨r, hr, _⟩ := h; simp at hr
  | cons r rs ih =>
    intro data nrows h hn
    have e : data.length + r.length - data.length = r.length := by omega
    have hs : usub (data.length + r.length) data.length = .ok (data.length + r.length - data.length) :=
      usub_ok (by omega)
    have ha : uadd nrows 1 = .ok (nrows + 1) := uadd_ok (by simp at hn; omega)
    by_cases hr : r.length = ncols
    · obtain ⟨x, hx, hne⟩ := h
      have hx' : x ∈ rs := by
        rcases List.mem_cons.mp hx with rfl | hx'
        · exact absurd hr hne
        · exact hx'
      have := ih (data ++ r) (nrows + 1) ⟨x, hx', hne⟩ (by simp at hn ⊢; omega)
      simp only [List.length_append] at this
      rw [hr] at hs e this
      simp only [iterRowsLoop, List.length_append, bind, Except.bind, hr, hs, e, ne_eq, not_true_eq_false,
        ↓reduceIte, ha, this]
    · simp only [iterRowsLoop, List.length_append, bind, Except.bind, hs, e, ne_eq, hr, not_false_eq_true,
        ↓reduceIte]

/-- C19, `FromIterator`: uniform rows ⇒ the row-major matrix with those rows (zero rows ⇒ the empty
matrix); ragged input ⇒ panic. -/
theorem fromIter_spec (first : List α) (rest : List (List α)) (hn : 1 + rest.length ≤ usizeMax) :
    if ∀ r ∈ rest, r.length = first.length
    then Matrix.fromIter (first :: rest) =
      .ok ⟨.rowMajor, ⟨1 + rest.length, first.length⟩, (first :: rest).flatten.toArray⟩
    else Matrix.fromIter (first :: rest) = .error (.panic Error.lengthInconsistent.name) := by
  split
  · rename_i hu
    simp only [Matrix.fromIter, bind, Except.bind, iterRowsLoop_ok first.length rest first 1 hu hn, pure,
      Except.pure, Shape.toAxis, List.flatten_cons]
  · rename_i hu
    have : ∃ r ∈ rest, r.length ≠ first.length := by
      apply Classical.byContradiction
      intro hc; apply hu; intro r hr
      apply Classical.byContradiction
      intro hne; exact hc ⟨r, hr, hne⟩
    simp only [Matrix.fromIter, bind, Except.bind, iterRowsLoop_ragged first.length rest first 1 this hn]

theorem fromIter_empty : Matrix.fromIter ([] : List (List α)) = .ok ⟨.rowMajor, ⟨0, 0⟩, #[]⟩ := rfl

/-- `with_initializer`: the closure is applied once per position, in row-major order, with the
index of that position, and its value is stored there: `m[r][c] = f (r, c)` -/
theorem withInitializer_spec (es r c : Nat) (f : Index → α)
    (h1 : r * c ≤ usizeMax) (h2 : es * (r * c) ≤ isizeMax) :
    ∃ m, Matrix.withInitializer es ⟨r, c⟩ f = .ok (.ok m) ∧ m.order = .rowMajor ∧ m.nrows = r ∧ m.ncols = c ∧
      m.data.toList = (List.range (r * c)).map (fun k => f (Index.ofFlat k .rowMajor ⟨r, c⟩)) ∧
      ∀ i j, i < r → j < c → m.at? i j = some (f ⟨i, j⟩) := by
  have n1 : ¬ r * c > usizeMax := by omega
  have n2 : ¬ es * (r * c) > isizeMax := by omega
  have hg : ∀ k ∈ List.range (r * c),
      (do let i ← Gen.Index.from_flattened k .rowMajor ((Shape.mk r c).toAxis .rowMajor)
          pure (f i) : M α) = .ok (f (Index.ofFlat k .rowMajor ⟨r, c⟩)) := by
    intro k hk
    have hc : c ≠ 0 := by
      have := List.mem_range.mp hk
      intro h0; subst h0; simp at this
    have hb := Bridge.index_from_flattened k .rowMajor ⟨r, c⟩ hc
    simp only [Shape.toAxis]
    simp [hb, bind, Except.bind, pure, Except.pure]
  have hm := mapM_ok _ _ _ hg
  simp only [bind, Except.bind, pure, Except.pure, Shape.toAxis] at hm
  refine ⟨⟨.rowMajor, ⟨r, c⟩, ((List.range (r * c)).map fun k => f (Index.ofFlat k .rowMajor ⟨r, c⟩)).toArray⟩,
    ?_, rfl, rfl, rfl, by simp, ?_⟩
  · simp only [Matrix.withInitializer, C08.sizeDecision_spec, bind, Except.bind, n1, n2, ↓reduceIte, bindErr,
      Vec.reserveExact, hm, Shape.toAxis, pure, Except.pure]
  · intro i j hi hj
    have hlt := flat_lt hi hj
    simp only [Matrix.at?, Matrix.nrows, Matrix.ncols, AxisShape.nrows, AxisShape.ncols, hi, hj, and_self,
      ↓reduceIte, Matrix.idx, Index.flat, AxisIndex.flat, AxisIndex.ofIndex, List.getElem?_toArray,
      List.getElem?_map, List.getElem?_range hlt, Option.map_some]
    simp [Index.ofFlat, AxisIndex.ofFlat, AxisIndex.toIndex, flat_div hj, flat_mod hj]

/-- `with_value` / `with_default` fill the requested shape (C08.withValue_spec) -/
theorem withValue_fill (es r c : Nat) (v : α) (h1 : r * c ≤ usizeMax) (h2 : es * (r * c) ≤ isizeMax) :
    ∃ m, Matrix.withValue es ⟨r, c⟩ v = .ok (.ok m) ∧ m.nrows = r ∧ m.ncols = c ∧
      ∀ i j, i < r → j < c → m.at? i j = some v := by
  refine ⟨⟨.rowMajor, ⟨r, c⟩, Array.replicate (r * c) v⟩, ?_, rfl, rfl, ?_⟩
  · rw [C08.withValue_spec]
    have n1 : ¬ r * c > usizeMax := by omega
    have n2 : ¬ es * (r * c) > isizeMax := by omega
    simp [n1, n2]
  · intro i j hi hj
    have := flat_lt hi hj
    simp [Matrix.at?, Matrix.nrows, Matrix.ncols, AxisShape.nrows, AxisShape.ncols, hi, hj, Matrix.idx,
      Index.flat, AxisIndex.flat, AxisIndex.ofIndex, Array.getElem?_replicate, this]

/- The table theorem `macros_correct` (T1) was retired in the fourth session: `C19.macros_are_the_source` (T19, `Lemmas/BridgeT19.lean`)
proves every arm of `matrix!` / `row_vec!` / `col_vec!`, regenerated from the text with its pattern and first-match position, equal to the
model's meaning of that macro form, argument order, clones and panics included; the table was sensitive to the order of the (pairwise
disjoint) arms and to spelling. -/

/-! ### non-vacuity -/
example : Matrix.tryFromRows 4 [[1, 2, 3], [4]] = .ok (.error .lengthInconsistent) := by rfl
example : Matrix.tryFromRows 4 [[1], [2, 3, 4]] = .ok (.error .lengthInconsistent) := by rfl
example : (Matrix.tryFromRows 4 ([] : List (List Nat))).map (·.map fun m => (m.nrows, m.ncols)) = .ok (.ok (0, 0)) := by rfl
example : (Matrix.tryFromRows 4 ([[], [], []] : List (List Nat))).map (·.map fun m => (m.nrows, m.ncols)) = .ok (.ok (3, 0)) := by rfl
example : Matrix.fromIter [[1, 2, 3], [4, 5], [6, 7, 8, 9]] = .error (.panic "LengthInconsistent") := by rfl
example : (Matrix.fromIter [[1, 2], [3, 4], [5, 6]]).map (fun m => (m.nrows, m.ncols, m.data.toList)) =
    .ok (3, 2, [1, 2, 3, 4, 5, 6]) := by rfl

end Matreex.C19
