/-
C09 — reshape/resize act on the memory-order sequence; failed operations change nothing.

In-place operations of the model return the post-state in *both* outcomes, so "a failed call
changes nothing" is a statement about a model that is able to mutate before failing.
-/
import Matreex.Props.C08
import Matreex.Props.C10
import Matreex.Model.Elementwise
import Matreex.Gen.ElementwiseForms

namespace Matreex.C09
open Matreex
variable {α β : Type}

/-- `reshape` succeeds exactly when the new shape has the same size, and then only the shape
changes: order and memory-order element sequence are untouched. -/
theorem reshape_ok (m : Matrix α) (hfit : m.data.size ≤ usizeMax) (r c : Nat) (h : r * c = m.data.size) :
    ∃ m', m.reshape ⟨r, c⟩ = .ok (.ok (), m') ∧ m'.data = m.data ∧ m'.order = m.order ∧
      m'.nrows = r ∧ m'.ncols = c := by
  refine ⟨{ m with shape := (Shape.mk r c).toAxis m.order }, ?_, rfl, rfl, ?_, ?_⟩
  · rw [C08.reshape_decision m hfit]; simp [h]
  · cases ho : m.order <;> simp [Matrix.nrows, Shape.toAxis, AxisShape.nrows, ho]
  · cases ho : m.order <;> simp [Matrix.ncols, Shape.toAxis, AxisShape.ncols, ho]

theorem reshape_iff (m : Matrix α) (hfit : m.data.size ≤ usizeMax) (r c : Nat) :
    (∃ m', m.reshape ⟨r, c⟩ = .ok (.ok (), m')) ↔ r * c = m.data.size := by
  rw [C08.reshape_decision m hfit]
  by_cases h : r * c = m.data.size <;> simp [h]

/-- reshaping to the current shape is the identity, and a reshape can always be undone: going to
`(r, c)` and back to the old shape returns exactly the matrix one started from (shape, order and
memory-order sequence). -/
theorem reshape_round_trip (m : Matrix α) (h : m.Coh) (hfit : m.data.size ≤ usizeMax) (r c : Nat)
    (hrc : r * c = m.data.size) :
    ∃ m', m.reshape ⟨r, c⟩ = .ok (.ok (), m') ∧ m'.reshape ⟨m.nrows, m.ncols⟩ = .ok (.ok (), m) := by
  refine ⟨{ m with shape := (Shape.mk r c).toAxis m.order }, ?_, ?_⟩
  · rw [C08.reshape_decision m hfit]; simp [hrc]
  · rw [C08.reshape_decision _ (by exact hfit)]
    have hsz := h.size_eq
    obtain ⟨o, sh, d⟩ := m
    cases o <;>
      simp only [Matrix.nrows, Matrix.ncols, AxisShape.nrows, AxisShape.ncols, Shape.toAxis] at hsz ⊢
    · simp [hsz]
    · have hsz' : sh.minor * sh.major = d.size := by rw [Nat.mul_comm]; exact hsz
      simp [hsz']

theorem reshape_same (m : Matrix α) (h : m.Coh) (hfit : m.data.size ≤ usizeMax) :
    m.reshape ⟨m.nrows, m.ncols⟩ = .ok (.ok (), m) := by
  rw [C08.reshape_decision m hfit]
  have hsz := h.size_eq
  obtain ⟨o, sh, d⟩ := m
  cases o <;>
    simp only [Matrix.nrows, Matrix.ncols, AxisShape.nrows, AxisShape.ncols, Shape.toAxis] at hsz ⊢
  · simp [hsz]
  · have hsz' : sh.minor * sh.major = d.size := by rw [Nat.mul_comm]; exact hsz
    simp [hsz']

/-- two successful reshapes in a row are the same as the last one alone -/
theorem reshape_reshape (m : Matrix α) (hfit : m.data.size ≤ usizeMax) (r c r' c' : Nat)
    (h1 : r * c = m.data.size) (h2 : r' * c' = m.data.size) :
    ∃ m', m.reshape ⟨r, c⟩ = .ok (.ok (), m') ∧ m'.reshape ⟨r', c'⟩ = m.reshape ⟨r', c'⟩ := by
  refine ⟨{ m with shape := (Shape.mk r c).toAxis m.order }, ?_, ?_⟩
  · rw [C08.reshape_decision m hfit]; simp [h1]
  · rw [C08.reshape_decision _ (by exact hfit), C08.reshape_decision m hfit]
    simp [h2]

/-- the memory-order sequence after `Vec::resize_with`: the first `min(old, new)` elements are
kept, the rest is dropped (shrinking) or `T::default()` values are appended (growing) -/
theorem resizeData_toList (d : Array α) (n : Nat) (dflt : α) :
    (resizeData d n dflt).toList = d.toList.take n ++ List.replicate (n - d.size) dflt := by
  unfold resizeData
  by_cases h : n ≤ d.size
  · have : n - d.size = 0 := by omega
    simp [h, this, Array.toList_extract]
  · have : d.toList.take n = d.toList := List.take_of_length_le (by simp; omega)
    simp [h, this]

/-- `resize` sets the requested shape, keeps the order, and acts on the memory-order sequence
as `resizeData` (no element other than the dropped tail / appended defaults is touched). -/
theorem resize_ok (es : Nat) (m : Matrix α) (r c : Nat) (dflt : α)
    (h1 : r * c ≤ usizeMax) (h2 : es * (r * c) ≤ isizeMax) :
    ∃ m', m.resize es ⟨r, c⟩ dflt = .ok (.ok (), m') ∧ m'.order = m.order ∧ m'.nrows = r ∧ m'.ncols = c ∧
      m'.data.toList = m.data.toList.take (r * c) ++ List.replicate (r * c - m.data.size) dflt ∧ m'.Coh := by
  have hd := C08.resize_decision es m r c dflt
  have n1 : ¬ r * c > usizeMax := by omega
  have n2 : ¬ es * (r * c) > isizeMax := by omega
  simp only [n1, n2, ↓reduceIte] at hd
  obtain ⟨hc, hr, hcc, ho⟩ := C08.resize_ok_coh es m _ r c dflt hd
  exact ⟨_, hd, ho, hr, hcc, resizeData_toList _ _ _, hc⟩

/-- resizing to the shape the matrix already has changes nothing at all (no element is dropped,
no default is appended, order and shape stay) -/
theorem resize_same (es : Nat) (m : Matrix α) (h : m.Coh) (dflt : α)
    (h1 : m.data.size ≤ usizeMax) (h2 : es * m.data.size ≤ isizeMax) :
    m.resize es ⟨m.nrows, m.ncols⟩ dflt = .ok (.ok (), m) := by
  have hsz : m.nrows * m.ncols = m.data.size := by
    have := h.size_eq
    obtain ⟨o, sh, d⟩ := m
    cases o <;> simp only [Matrix.nrows, Matrix.ncols, AxisShape.nrows, AxisShape.ncols] at this ⊢
    · exact this
    · rw [Nat.mul_comm]; exact this
  obtain ⟨m', hm', ho, hr, hc, hd, _⟩ :=
    resize_ok es m m.nrows m.ncols dflt (by rw [hsz]; exact h1) (by rw [hsz]; exact h2)
  rw [hm']
  have hdata : m'.data = m.data := by
    apply Array.ext'
    rw [hd, hsz]; simp
    exact List.take_of_length_le (by simp)
  obtain ⟨o, sh, d⟩ := m
  obtain ⟨o', sh', d'⟩ := m'
  simp only at ho hdata
  subst ho hdata
  obtain ⟨a, b⟩ := sh
  obtain ⟨a', b'⟩ := sh'
  cases o' <;> simp only [Matrix.nrows, Matrix.ncols, AxisShape.nrows, AxisShape.ncols] at hr hc <;>
    subst hr hc <;> rfl

/-! ### a failed fallible in-place operation leaves the matrix exactly as it was -/

theorem reshape_failed_unchanged (m m' : Matrix α) (s : Shape) (e : Error)
    (h : m.reshape s = .ok (.error e, m')) : m' = m := by
  unfold Matrix.reshape at h
  simp only [bind, Except.bind, pure, Except.pure] at h
  cases hs : Gen.Shape.try_to_axis_shape s m.order with
  | error f => simp [hs] at h
  | ok sh =>
    simp only [hs] at h
    cases sh with
    | error e' => simp only [Except.ok.injEq, Prod.mk.injEq] at h; exact h.2.symm
    | ok sh =>
      simp only at h
      cases hn : Gen.AxisShape.size sh with
      | error f => simp [hn] at h
      | ok n =>
        simp only [hn] at h
        split at h
        · simp only [Except.ok.injEq, Prod.mk.injEq] at h; exact h.2.symm
        · simp at h

theorem resize_failed_unchanged (es : Nat) (m m' : Matrix α) (s : Shape) (dflt : α) (e : Error)
    (h : m.resize es s dflt = .ok (.error e, m')) : m' = m := by
  unfold Matrix.resize at h
  simp only [bind, Except.bind, pure, Except.pure] at h
  cases hd : sizeDecision es s m.order with
  | error f => simp [hd] at h
  | ok d =>
    simp only [hd] at h
    cases d with
    | error e' => simp only [Except.ok.injEq, Prod.mk.injEq] at h; exact h.2.symm
    | ok p =>
      obtain ⟨sh, size⟩ := p
      simp only at h
      split at h
      · cases hv : Vec.reserveExact es size with
        | error f => simp [hv] at h
        | ok u => simp [hv] at h
      · simp at h

theorem swapMajor_failed_unchanged (es : Nat) (m m' : Matrix α) (a b : Nat) (e : Error)
    (h : m.swapMajor es a b = .ok (.error e, m')) : m' = m := by
  unfold Matrix.swapMajor at h
  split at h
  · simp only [Except.ok.injEq, Prod.mk.injEq] at h; exact h.2.symm
  · split at h
    · simp at h
    · simp only [bind, Except.bind, pure, Except.pure] at h
      cases h1 : umul a m.shape.minor with
      | error f => simp [h1] at h
      | ok i =>
        cases h2 : umul b m.shape.minor with
        | error f => simp [h1, h2] at h
        | ok j =>
          cases h3 : swapNonoverlapping es m.data i j m.shape.minor with
          | error f => simp [h1, h2, h3] at h
          | ok d => simp [h1, h2, h3] at h

theorem swapMinor_failed_unchanged (m m' : Matrix α) (a b : Nat) (e : Error)
    (h : m.swapMinor a b = .ok (.error e, m')) : m' = m := by
  unfold Matrix.swapMinor at h
  split at h
  · simp only [Except.ok.injEq, Prod.mk.injEq] at h; exact h.2.symm
  · simp only [bind, Except.bind, pure, Except.pure] at h
    cases h1 : umul a 1 with
    | error f => simp [h1] at h
    | ok i =>
      cases h2 : umul b 1 with
      | error f => simp [h1, h2] at h
      | ok j =>
        cases h3 : swapMinorLoop m.shape i j m.shape.major m.data with
        | error f => simp [h1, h2, h3] at h
        | ok d => simp [h1, h2, h3] at h

theorem swapRows_failed_unchanged (es : Nat) (m m' : Matrix α) (a b : Nat) (e : Error)
    (h : m.swapRows es a b = .ok (.error e, m')) : m' = m := by
  unfold Matrix.swapRows at h
  cases ho : m.order <;> simp only [ho] at h
  · exact swapMajor_failed_unchanged es m m' a b e h
  · exact swapMinor_failed_unchanged m m' a b e h

theorem swapCols_failed_unchanged (es : Nat) (m m' : Matrix α) (a b : Nat) (e : Error)
    (h : m.swapCols es a b = .ok (.error e, m')) : m' = m := by
  unfold Matrix.swapCols at h
  cases ho : m.order <;> simp only [ho] at h
  · exact swapMinor_failed_unchanged m m' a b e h
  · exact swapMajor_failed_unchanged es m m' a b e h

theorem swapElems_failed_unchanged (m m' : Matrix α) (ri rj : M (Except Error Nat)) (e : Error)
    (h : m.swapElems ri rj = .ok (.error e, m')) : m' = m := by
  unfold Matrix.swapElems at h
  simp only [bind, Except.bind, pure, Except.pure] at h
  cases h1 : ri with
  | error f => simp [h1] at h
  | ok x =>
    simp only [h1] at h
    cases x with
    | error e' => simp only [Except.ok.injEq, Prod.mk.injEq] at h; exact h.2.symm
    | ok x =>
      simp only at h
      cases h2 : rj with
      | error f => simp [h2] at h
      | ok y =>
        simp only [h2] at h
        cases y with
        | error e' => simp only [Except.ok.injEq, Prod.mk.injEq] at h; exact h.2.symm
        | ok y =>
          simp only at h
          cases h3 : ptrSwap m.data x y with
          | error f => simp [h3] at h
          | ok d => simp [h3] at h

theorem elementwiseAssign_failed_unchanged (a a' : Matrix α) (b : Matrix β) (op : α → β → α) (e : Error)
    (h : a.elementwiseAssign b op = .ok (.error e, a')) : a' = a := by
  unfold Matrix.elementwiseAssign at h
  simp only [bind, Except.bind, pure, Except.pure] at h
  cases h1 : Gen.Matrix.is_elementwise_operation_conformable a.hdr b.hdr with
  | error f => simp [h1] at h
  | ok ok =>
    simp only [h1] at h
    cases ok
    · simp only [Bool.not_false, ↓reduceIte, Except.ok.injEq, Prod.mk.injEq] at h; exact h.2.symm
    · simp only [Bool.not_true, Bool.false_eq_true, ↓reduceIte] at h
      cases h2 : ewData a b op with
      | error f => simp [h2] at h
      | ok d => simp [h2] at h

/-- The compound-assignment operators `+=` / `-=` (T1 table, re-extracted on every run): each
either forwards to the form with a borrowed right operand or calls `elementwise_<op>_assign` and
panics exactly on `Err` — so on non-conformable shapes they panic with the matrix unchanged
(`elementwiseAssign_failed_unchanged`). -/
theorem compound_assign_delegates :
    ∀ o ∈ Gen.matrixOperators, (o.trait = "AddAssign" ∨ o.trait = "SubAssign") →
      (o.rhsOwned = true → o.kind = .forwardToBorrowedRhs) ∧
      (o.rhsOwned = false → o.kind = .callPanicOnErr ∧ o.method = "elementwise_" ++ o.module ++ "_assign") := by
  decide

/-! ### non-vacuity -/

def ex23 : Matrix Nat := ⟨.colMajor, ⟨3, 2⟩, #[1, 4, 2, 5, 3, 6]⟩
example : (ex23.reshape ⟨3, 2⟩).map (fun p => (p.1, p.2.data.toList, p.2.nrows, p.2.ncols)) =
    .ok (.ok (), [1, 4, 2, 5, 3, 6], 3, 2) := by rfl
example : (ex23.reshape ⟨4, 2⟩).map (fun p => (p.1, p.2 == ex23)) = .ok (.error .sizeMismatch, true) := by rfl
example : (ex23.resize 8 ⟨2, 2⟩ 0).map (fun p => p.2.data.toList) = .ok [1, 4, 2, 5] := by rfl
example : (ex23.resize 8 ⟨2, 4⟩ 0).map (fun p => p.2.data.toList) = .ok [1, 4, 2, 5, 3, 6, 0, 0] := by rfl
example : (ex23.resize 8 ⟨2 ^ 40, 2 ^ 40⟩ 0).map (fun p => (p.1, p.2 == ex23)) = .ok (.error .sizeOverflow, true) := by
  rw [C08.resize_decision]; simp [usizeMax]; rfl
example : ex23.Coh ∧ ex23.data.size ≤ usizeMax ∧ 8 * ex23.data.size ≤ isizeMax ∧ 6 * 1 = ex23.data.size :=
  ⟨⟨rfl⟩, by simp [ex23, usizeMax], by simp [ex23, isizeMax], rfl⟩   -- premises of the round-trip laws
example : (ex23.resize 8 ⟨2, 3⟩ 0).map (fun p => (p.1, p.2 == ex23)) = .ok (.ok (), true) := by rfl
example : ((ex23.reshape ⟨6, 1⟩).bind fun p => p.2.reshape ⟨2, 3⟩).map (fun p => (p.1, p.2 == ex23)) =
    .ok (.ok (), true) := by rfl

end Matreex.C09
