/-
C15 — element iteration order and reported indices match the storage order.
-/
import Matreex.Model.Iter
import Matreex.Model.Index
import Matreex.Lemmas.Bridge
import Matreex.Lemmas.Matrix
import Matreex.Lemmas.Except
import Matreex.Lemmas.Elementwise
import Matreex.Props.C04

namespace Matreex.C15
open Matreex
variable {α : Type}

/-- the logical coordinate reported for memory position `k` -/
def rc (m : Matrix α) (k : Nat) : Nat × Nat :=
  ((Index.ofFlat k m.order m.shape).row, (Index.ofFlat k m.order m.shape).col)

/-- For every memory position `k` of a coherent matrix: no division by zero (`k < size` forces
`minor > 0`), the reported index is in bounds, flattens back to `k`, and the logical element at
that coordinate is the very element at memory position `k`. -/
theorem rc_spec (m : Matrix α) (h : m.Coh) (k : Nat) (hk : k < m.data.size) :
    0 < m.shape.minor ∧ (rc m k).1 < m.nrows ∧ (rc m k).2 < m.ncols ∧
      m.idx (rc m k).1 (rc m k).2 = k ∧ m.at? (rc m k).1 (rc m k).2 = m.data[k]? := by
  rw [← h.size_eq] at hk
  obtain ⟨h1, h2⟩ := unflat_lt hk
  have hfu := flat_unflat m.shape.minor k
  have hpos : 0 < m.shape.minor := by omega
  obtain ⟨o, sh, d⟩ := m
  cases o <;>
    simp only [rc, Index.ofFlat, AxisIndex.ofFlat, AxisIndex.toIndex, Matrix.nrows, Matrix.ncols,
      AxisShape.nrows, AxisShape.ncols, Matrix.idx, Index.flat, AxisIndex.flat, AxisIndex.ofIndex,
      Matrix.at?] at *
  · exact ⟨hpos, h1, h2, hfu, by simp [h1, h2, hfu]⟩
  · exact ⟨hpos, h2, h1, hfu, by simp [h1, h2, hfu]⟩

/-- every in-bounds coordinate is reported for exactly one memory position: `k ↦ (row, col)` is a
bijection between memory positions and in-bounds coordinates -/
theorem rc_idx (m : Matrix α) {r c : Nat} (hr : r < m.nrows) (hc : c < m.ncols) :
    rc m (m.idx r c) = (r, c) := by
  obtain ⟨o, sh, d⟩ := m
  cases o <;>
    simp only [rc, Index.ofFlat, AxisIndex.ofFlat, AxisIndex.toIndex, Matrix.nrows, Matrix.ncols,
      AxisShape.nrows, AxisShape.ncols, Matrix.idx, Index.flat, AxisIndex.flat, AxisIndex.ofIndex] at *
  · rw [flat_div hc, flat_mod hc]
  · rw [flat_div hr, flat_mod hr]

/-- C15, `*_with_index`: the iterator never faults; it yields `size` items; the `k`-th item (from
the front; `size-1-k`-th from the back) pairs the element at memory position `k` with the index
`Index::from_flattened(k)`, for which checked indexing (`get`, C04) resolves to position `k`
itself — "the unique (row, col) for which get returns that very element". -/
theorem with_index_spec (m : Matrix α) (h : m.Coh) (hfit : m.data.size ≤ usizeMax) :
    ∃ items, m.iterWithIndex = .ok items ∧ items.length = m.data.size ∧
      ∀ k (hk : k < m.data.size),
        items[k]? = some (Index.ofFlat k m.order m.shape, m.data[k]) ∧
        m.getIdx (rc m k).1 (rc m k).2 = .ok (.ok k) := by
  obtain ⟨items, h1, h2, h3⟩ := mapM_range_ok_aux m.data.size
    (fun k => (do
      let i ← Gen.Index.from_flattened k m.order m.shape
      match m.data[k]? with
      | some x => pure (i, x)
      | none => (.error (.ub "enumerate yielded a position outside the vector") : M (Index × α))))
    (fun k => (m.data[k]?).map fun x => (Index.ofFlat k m.order m.shape, x))
    (by
      intro k hk
      have hpos := (rc_spec m h k hk).1
      have hb := Bridge.index_from_flattened k m.order m.shape (by omega)
      refine ⟨(Index.ofFlat k m.order m.shape, m.data[k]), ?_, ?_⟩
      · simp [hb, Array.getElem?_eq_getElem hk, bind, Except.bind, pure, Except.pure]
      · simp [Array.getElem?_eq_getElem hk])
  refine ⟨items, h1, h2, ?_⟩
  intro k hk
  refine ⟨by rw [h3 k hk, Array.getElem?_eq_getElem hk]; rfl, ?_⟩
  obtain ⟨_, hr, hc, hidx, _⟩ := rc_spec m h k hk
  rw [C04.get_exact m h hfit]
  simp [hr, hc, hidx]

/-- C15, memory order: `iter_elements` (and the `_mut` / consuming forms) visit the elements in
memory order, which is row by row for a row-major and column by column for a column-major
matrix: the `k`-th item is the logical element at `rc k`, and `rc` enumerates `(0,0), (0,1), …`
resp. `(0,0), (1,0), …`. -/
theorem iter_elements_order (m : Matrix α) (h : m.Coh) :
    m.iterElements.length = m.data.size ∧
    ∀ k, k < m.data.size → m.iterElements[k]? = m.at? (rc m k).1 (rc m k).2 ∧
      (match m.order with
       | .rowMajor => rc m k = (k / m.ncols, k % m.ncols)
       | .colMajor => rc m k = (k % m.nrows, k / m.nrows)) := by
  refine ⟨by simp [Matrix.iterElements], ?_⟩
  intro k hk
  have hs := rc_spec m h k hk
  refine ⟨by rw [hs.2.2.2.2]; simp [Matrix.iterElements], ?_⟩
  obtain ⟨o, sh, d⟩ := m
  cases o <;> simp [rc, Index.ofFlat, AxisIndex.ofFlat, AxisIndex.toIndex, Matrix.ncols, Matrix.nrows,
    AxisShape.ncols, AxisShape.nrows]

/-- consuming from the back yields the reverse sequence; consuming from both ends yields each
element exactly once (the items of a list, taken from either end) -/
theorem both_ends_once (l : List α) (f b : Nat) (hfb : f + b ≤ l.length) :
    (l.take f ++ (l.drop f).take (l.length - f - b) ++ (l.drop (l.length - b))).Perm l := by
  have : l.take f ++ (l.drop f).take (l.length - f - b) ++ l.drop (l.length - b) = l := by
    have e : l.drop (l.length - b) = (l.drop f).drop (l.length - f - b) := by
      rw [List.drop_drop]; congr 1; omega
    rw [e, List.append_assoc, List.take_append_drop, List.take_append_drop]
  rw [this]

/-! ### non-vacuity -/
def ex23 : Matrix Nat := ⟨.colMajor, ⟨3, 2⟩, #[1, 4, 2, 5, 3, 6]⟩   -- logical 2×3
example : ex23.Coh := ⟨rfl⟩
example : ex23.iterWithIndex.map (·.map fun p => (p.1.row, p.1.col, p.2)) =
    .ok [(0, 0, 1), (1, 0, 4), (0, 1, 2), (1, 1, 5), (0, 2, 3), (1, 2, 6)] := by rfl

end Matreex.C15
