/-
C18 — scalar operators apply the primitive op elementwise with correct operand order.

The ~1,260 macro-generated impls are a table (`Gen/ScalarForms.lean`, re-extracted from
`src/arithmetic/{add,sub,mul,div,rem}.rs` on every run: macro bodies, their invocation lists, the
closure of every arm normalised to `<role> op <role>`); the theorems quantify over all rows.
The generic `scalar_operation` family is modelled in `Model/Elementwise.lean`.
-/
import Matreex.Model.Elementwise
import Matreex.Lemmas.Bridge
import Matreex.Gen.ScalarForms
import Matreex.Gen.NegForms

namespace Matreex.C18
open Matreex
variable {α γ σ : Type}

/-- `scalar_operation` / `scalar_operation_consume_self`: `CapacityOverflow` exactly when the
output does not fit; otherwise order and shape are copied and every element `x` becomes
`op x scalar` — the scalar is the *second* argument. -/
theorem scalar_generic (esOut : Nat) (m : Matrix α) (s : σ) (op : α → σ → γ) :
    m.scalarOperation esOut s op = .ok (
      if esOut * m.data.size > isizeMax then .error .capacityOverflow
      else .ok ⟨m.order, m.shape, m.data.map (fun x => op x s)⟩) := by
  simp only [Matrix.scalarOperation, Bridge.check_size, checkSize, bind, Except.bind]
  by_cases h : esOut * m.data.size > isizeMax
  · simp [h, bindErr]
  · simp [h, bindErr, Vec.reserveExact, pure, Except.pure]

/-- with `op := Prod.mk` the result is the call log: one call per element, in memory order, with
`(element, scalar)` as arguments -/
theorem scalar_call_log (m : Matrix α) (s : σ) :
    (m.scalarAssign s (fun x _ => x)).data = m.data ∧
    ∀ k : Nat, ((m.data.map (fun x => (x, s)))[k]?) = (m.data[k]?).map (fun x => (x, s)) := by
  refine ⟨by simp [Matrix.scalarAssign], fun k => by simp⟩

/-- `scalar_operation_assign`: in place, same shape and order, every element updated once -/
theorem scalar_assign_spec (m : Matrix α) (s : σ) (op : α → σ → α) :
    (m.scalarAssign s op).order = m.order ∧ (m.scalarAssign s op).shape = m.shape ∧
    (m.scalarAssign s op).data.size = m.data.size ∧
    ∀ k : Nat, (m.scalarAssign s op).data[k]? = (m.data[k]?).map (fun x => op x s) := by
  refine ⟨rfl, rfl, by simp [Matrix.scalarAssign], fun k => by simp [Matrix.scalarAssign]⟩

/-- the same, by logical position and independent of the storage order: the element at `(r, c)`
of the result is `op (element at (r, c)) scalar`, the result has the operand's shape, and it is
coherent when the operand is. -/
theorem scalar_at (m : Matrix α) (s : σ) (op : α → σ → γ) (r c : Nat) :
    let out : Matrix γ := ⟨m.order, m.shape, m.data.map (fun x => op x s)⟩
    out.at? r c = (m.at? r c).map (fun x => op x s) ∧ out.nrows = m.nrows ∧ out.ncols = m.ncols ∧
      (m.Coh → out.Coh) := by
  refine ⟨?_, rfl, rfl, fun h => ⟨by simpa using h.size_eq⟩⟩
  simp only [Matrix.at?, Matrix.nrows, Matrix.ncols, Matrix.idx]
  by_cases hb : r < m.shape.nrows m.order ∧ c < m.shape.ncols m.order <;> simp [hb]

/-- `scalar_operation_assign` by logical position -/
theorem scalar_assign_at (m : Matrix α) (s : σ) (op : α → σ → α) (r c : Nat) :
    (m.scalarAssign s op).at? r c = (m.at? r c).map (fun x => op x s) ∧
      (m.scalarAssign s op).nrows = m.nrows ∧ (m.scalarAssign s op).ncols = m.ncols ∧
      (m.Coh → (m.scalarAssign s op).Coh) := by
  have h := scalar_at m s op r c
  simpa [Matrix.scalarAssign] using h

/-- what the property demands of one macro arm -/
def formOk (f : Gen.ScalarForm) : Bool :=
  -- operand order: matrix on the left ⇒ element op scalar; matrix on the right ⇒ scalar op element
  (if f.matrixOnLeft then f.lhs == .element && f.rhs == .scalar else f.lhs == .scalar && f.rhs == .element)
  -- the matrix is the receiver, the scalar is the other operand, passed by reference
  && (f.receiver == (if f.matrixOnLeft then "self" else "rhs"))
  && (f.scalarArg == (if f.matrixOnLeft then "&rhs" else "&self"))
  -- owned matrix ⇒ consuming variant, borrowed ⇒ by-reference variant, assign ⇒ assign variant
  && (f.method == (if f.assign then "scalar_operation_assign"
                   else if f.matrixOwned then "scalar_operation_consume_self" else "scalar_operation"))
  -- the operator symbol belongs to the module's trait
  && ((f.module, f.op) ∈ [("add", "+"), ("sub", "-"), ("mul", "*"), ("div", "/"), ("rem", "%")])
  -- the non-assign forms turn `Err` into a panic (the assign forms cannot fail)
  && (f.assign || f.panicsOnErr)

/- The table theorems `forms_correct`, `forms_complete` and `neg_forms_correct` (T1: the macro arms read by regular expressions) were
retired in the fourth session: `C18.scalar_operators_are_the_source` (T18, `Lemmas/BridgeT18.lean`) proves every impl inside the macro arms,
regenerated with the metavariables symbolic, equal to the model's scalar operation with the operand order the property states, and
`scalar_instantiations_are_the_source` that each operator is instantiated for exactly the 14 primitive types in all four (element, scalar)
reference combinations plus the two assign forms — strictly more than the tables said, and independent of spelling (the tables alarmed on
renamed binders, `panic!("{}", e)`, `-element`, a renamed macro). -/

def the14 : List String :=
  ["u8", "u16", "u32", "u64", "u128", "usize", "i8", "i16", "i32", "i64", "i128", "isize", "f32", "f64"]

theorem neg_spec (esOut : Nat) (m : Matrix α) (neg : α → γ) (h : esOut * m.data.size ≤ isizeMax) :
    m.map esOut neg = .ok (.ok ⟨m.order, m.shape, m.data.map neg⟩) := by
  simp only [Matrix.map, mapDecision, Bridge.check_size, checkSize, bind, Except.bind]
  have : ¬ esOut * m.data.size > isizeMax := by omega
  simp [this, bindErr, Vec.reserveExact, pure, Except.pure]

/-! ### non-vacuity -/
example : ((⟨.colMajor, ⟨3, 2⟩, #[7, 3, 12, 5, 9, 20]⟩ : Matrix Int).scalarOperation 8 (100 : Int)
    (fun e s => s - e)).map (·.map (·.data.toList)) = .ok (.ok [93, 97, 88, 95, 91, 80]) := by
  rw [scalar_generic]; simp [isizeMax]; rfl

end Matreex.C18
