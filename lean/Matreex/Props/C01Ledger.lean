/-
C01, part 2 — the ownership ledger: "every element ever placed in a matrix is dropped exactly once
(when it is removed, overwritten, consumed, or when its matrix is dropped) and never duplicated".

Over the ownership-flow model of `Model/Ledger.lean` the single invariant

    live ids ++ dropped ids ++ moved-out ids   is a permutation of   [0, nextId)

(together with shape/store coherence of every register) is preserved by every operation
(`step_inv`), hence holds after every finite history (`run_inv`).  Consequences: no id occurs twice
in the ledger (`inv_nodup`: never duplicated, never dropped twice), and once every matrix is gone
each token ever created has been dropped or handed to the caller exactly once (`all_accounted`).
`step_delta` states what each operation adds to the ledger as a closed formula.

All ledger reasoning goes through `List.perm_iff_count`, `List.count_append` and `omega`.
-/
import Matreex.Model.Ledger

namespace Matreex.C01Ledger
open Matreex.Ledger

/-! ### basic facts about the building blocks -/

theorem fresh_ids (n k : Nat) (val : Nat → Int) : (fresh n k val).map (·.id) = List.range' n k := by
  simp [fresh, List.map_map, Function.comp_def]

theorem fresh_length (n k : Nat) (val : Nat → Int) : (fresh n k val).length = k := by simp [fresh]

/-! ### counting lemmas: all ledger reasoning goes through `count` + `omega` -/

theorem count_liveIds_set (regs : List Mat) (r : Nat) (m m' : Mat) (h : regs[r]? = some m) (a : Nat) :
    (liveIds (regs.set r m')).count a + m.ids.count a = (liveIds regs).count a + m'.ids.count a := by
  induction regs generalizing r with
  | nil => simp at h
  | cons x xs ih =>
    cases r with
    | zero =>
      simp at h; subst h
      simp [liveIds, List.count_append]; omega
    | succ r =>
      simp at h
      have := ih r h
      simp only [liveIds, List.set_cons_succ, List.map_cons, List.flatten_cons, List.count_append] at this ⊢
      omega

theorem count_liveIds_push (regs : List Mat) (m : Mat) (a : Nat) :
    (liveIds (regs ++ [m])).count a = (liveIds regs).count a + m.ids.count a := by
  simp [liveIds, List.count_append]

theorem count_range_add (n k a : Nat) :
    (List.range (n + k)).count a = (List.range n).count a + (List.range' n k).count a := by
  rw [List.range_eq_range', List.range_eq_range']
  have : List.range' 0 (n + k) = List.range' 0 n ++ List.range' (0 + n) k := by
    rw [List.range'_append_1]
  rw [this, List.count_append]; simp

theorem zip_map_ids (l : List Tok) (n : Nat) (g : Tok → Nat → Tok) (hg : ∀ t i, (g t i).id = i) :
    ((l.zip (List.range' n l.length)).map fun (t, i) => g t i).map (·.id) = List.range' n l.length := by
  induction l generalizing n with
  | nil => simp
  | cons x xs ih =>
    simp only [List.length_cons, List.range'_succ, List.zip_cons_cons, List.map_cons, hg]
    rw [ih]

theorem cloneToks_ids (l : List Tok) (n k : Nat) (f : Int → Int) (hk : l.length = k) :
    (cloneToks l n k f).map (·.id) = List.range' n k := by
  subst hk
  exact zip_map_ids l n (fun t i => ⟨i, f t.val⟩) (fun _ _ => rfl)

theorem cloneToks_length (l : List Tok) (n k : Nat) (f : Int → Int) (hk : l.length = k) :
    (cloneToks l n k f).length = k := by
  simp [cloneToks, hk]

theorem swapList_perm (l : List Tok) (i j : Nat) : (swapList l i j).Perm l := by
  unfold swapList
  split
  · rename_i h
    have := Array.swap_perm (xs := l.toArray) (i := i) (j := j) (by simpa using h.1) (by simpa using h.2)
    simpa [Array.perm_iff_toList_perm] using this
  · exact .refl _

theorem swapList_length (l : List Tok) (i j : Nat) : (swapList l i j).length = l.length :=
  (swapList_perm l i j).length_eq

theorem mem_set_cases {β : Type} {l : List β} {r : Nat} {x y : β} (h : y ∈ l.set r x) : y ∈ l ∨ y = x := by
  rcases List.mem_or_eq_of_mem_set h with h | h
  · exact .inl h
  · exact .inr h

theorem take_drop_count (l : List Tok) (n a : Nat) :
    ((l.take n).map (·.id)).count a + ((l.drop n).map (·.id)).count a = (l.map (·.id)).count a := by
  rw [← List.count_append, ← List.map_append, List.take_append_drop]

/-- replacing the token at position `k`: its id leaves the list, the new token's id enters -/
theorem count_set_ids (l : List Tok) (k : Nat) (t x : Tok) (h : l[k]? = some t) (a : Nat) :
    ((l.set k x).map (·.id)).count a + [t.id].count a = (l.map (·.id)).count a + [x.id].count a := by
  induction l generalizing k with
  | nil => simp at h
  | cons y ys ih =>
    cases k with
    | zero =>
      simp at h; subst h
      show ([x.id] ++ ys.map (·.id)).count a + _ = ([y.id] ++ ys.map (·.id)).count a + _
      simp only [List.count_append]; omega
    | succ k =>
      simp at h
      have := ih k h
      show ([y.id] ++ (ys.set k x).map (·.id)).count a + _ = ([y.id] ++ ys.map (·.id)).count a + _
      simp only [List.count_append]; omega

/-- an in-place update of values keeps every identity -/
theorem revalue_ids (l : List Tok) (f : Int → Int) :
    (l.map fun t => (⟨t.id, f t.val⟩ : Tok)).map (·.id) = l.map (·.id) := by
  simp [List.map_map, Function.comp_def]

/-- coherence of the register file after replacing one register by a coherent matrix -/
theorem coh_set {regs : List Mat} (h : ∀ m ∈ regs, m.Coh) (r : Nat) (m' : Mat) (hm' : m'.Coh) :
    ∀ m ∈ regs.set r m', m.Coh := by
  intro m hm
  rcases mem_set_cases hm with h1 | h1
  · exact h _ h1
  · subst h1; exact hm'

/-- coherence of the register file after pushing a coherent matrix -/
theorem coh_push {regs : List Mat} (h : ∀ m ∈ regs, m.Coh) (m' : Mat) (hm' : m'.Coh) :
    ∀ m ∈ regs ++ [m'], m.Coh := by
  intro m hm
  rcases List.mem_append.mp hm with h1 | h1
  · exact h _ h1
  · simp at h1; subst h1; exact hm'

theorem coh_empty : ({ major := 0, minor := 0, data := [] } : Mat).Coh := by simp [Mat.Coh]

/-! ### the invariant is inductive -/

/-- every operation preserves coherence and the ledger permutation -/
theorem step_inv (w : World) (op : Op) (h : Inv w) : Inv (step w op) := by
  have hled := fun a => (List.perm_iff_count.mp h.led) a
  cases op with
  | resize r R C =>
    simp only [step]
    split
    · exact h
    · rename_i m hm
      split
      · rename_i hle
        constructor
        · apply coh_set h.coh
          simp only [Mat.Coh, List.length_take]; omega
        · rw [List.perm_iff_count]; intro a
          have hc := count_liveIds_set w.regs r m { major := R, minor := C, data := m.data.take (R * C) } hm a
          have ht := take_drop_count m.data (R * C) a
          have hl := hled a
          simp only [World.ledger, List.count_append, Mat.ids] at hc hl ⊢
          omega
      · rename_i hgt
        constructor
        · apply coh_set h.coh
          simp only [Mat.Coh, List.length_append, fresh_length]; omega
        · rw [List.perm_iff_count]; intro a
          have hc := count_liveIds_set w.regs r m
            { major := R, minor := C, data := m.data ++ fresh w.nextId (R * C - m.data.length) (fun _ => 0) } hm a
          have hl := hled a
          have hr := count_range_add w.nextId (R * C - m.data.length) a
          simp only [World.ledger, List.count_append, Mat.ids, List.map_append, fresh_ids] at hc hl ⊢
          omega
  | clear r =>
    simp only [step]
    split
    · exact h
    · rename_i m hm
      constructor
      · exact coh_set h.coh _ _ coh_empty
      · rw [List.perm_iff_count]; intro a
        have hc := count_liveIds_set w.regs r m { major := 0, minor := 0, data := [] } hm a
        have hl := hled a
        simp only [World.ledger, List.count_append, Mat.ids, List.map_nil, List.count_nil] at hc hl ⊢
        omega
  | clone r =>
    simp only [step]
    split
    · exact h
    · rename_i m hm
      have hmem : m ∈ w.regs := List.mem_of_getElem? hm
      constructor
      · apply coh_push h.coh
        have := h.coh m hmem
        simp only [Mat.Coh, List.length_map, List.length_zip, List.length_range'] at this ⊢
        omega
      · rw [List.perm_iff_count]; intro a
        have hl := hled a
        have hr := count_range_add w.nextId m.data.length a
        have hz := zip_map_ids m.data w.nextId (fun t i => ⟨i, t.val⟩) (fun _ _ => rfl)
        simp only [World.ledger, List.count_append, liveIds, List.map_append, List.flatten_append,
          List.map_cons, List.map_nil, List.flatten_cons, List.flatten_nil, List.append_nil, Mat.ids, hz] at hl ⊢
        omega
  | mapFresh r =>
    simp only [step]
    split
    · exact h
    · rename_i m hm
      have hmem : m ∈ w.regs := List.mem_of_getElem? hm
      constructor
      · apply coh_set h.coh
        have := h.coh m hmem
        simp only [Mat.Coh, List.length_map, List.length_zip, List.length_range'] at this ⊢
        omega
      · rw [List.perm_iff_count]; intro a
        have hc := count_liveIds_set w.regs r m
          { m with data := (m.data.zip (List.range' w.nextId m.data.length)).map fun (t, i) => ⟨i, t.val + 1⟩ } hm a
        have hl := hled a
        have hr := count_range_add w.nextId m.data.length a
        have hz := zip_map_ids m.data w.nextId (fun t i => ⟨i, t.val + 1⟩) (fun _ _ => rfl)
        simp only [World.ledger, List.count_append, Mat.ids, hz] at hc hl ⊢
        omega
  | swapElems r i j =>
    simp only [step]
    split
    · exact h
    · rename_i m hm
      have hmem : m ∈ w.regs := List.mem_of_getElem? hm
      constructor
      · apply coh_set h.coh
        have := h.coh m hmem
        simp only [Mat.Coh, swapList_length] at this ⊢
        exact this
      · rw [List.perm_iff_count]; intro a
        have hc := count_liveIds_set w.regs r m { m with data := swapList m.data i j } hm a
        have hp : ((swapList m.data i j).map (·.id)).count a = (m.data.map (·.id)).count a :=
          ((swapList_perm m.data i j).map _).count_eq a
        have hl := hled a
        simp only [World.ledger, List.count_append, Mat.ids] at hc hl ⊢
        omega
  | intoIter r =>
    simp only [step]
    split
    · exact h
    · rename_i m hm
      constructor
      · exact coh_set h.coh _ _ coh_empty
      · rw [List.perm_iff_count]; intro a
        have hc := count_liveIds_set w.regs r m { major := 0, minor := 0, data := [] } hm a
        have hl := hled a
        simp only [World.ledger, List.count_append, Mat.ids, List.map_nil, List.count_nil] at hc hl ⊢
        omega
  | dropReg r =>
    simp only [step]
    split
    · exact h
    · rename_i m hm
      constructor
      · exact coh_set h.coh _ _ coh_empty
      · rw [List.perm_iff_count]; intro a
        have hc := count_liveIds_set w.regs r m { major := 0, minor := 0, data := [] } hm a
        have hl := hled a
        simp only [World.ledger, List.count_append, Mat.ids, List.map_nil, List.count_nil] at hc hl ⊢
        omega
  | permute r p R C =>
    simp only [step]
    split
    · exact h
    · rename_i m hm
      split
      · rename_i hg
        obtain ⟨hperm, hshape⟩ := hg
        constructor
        · apply coh_set h.coh
          simp only [Mat.Coh, hperm.length_eq]; exact hshape
        · rw [List.perm_iff_count]; intro a
          have hc := count_liveIds_set w.regs r m { major := R, minor := C, data := permuteList m.data p } hm a
          have hp : ((permuteList m.data p).map (·.id)).count a = (m.data.map (·.id)).count a :=
            (hperm.map _).count_eq a
          have hl := hled a
          simp only [World.ledger, List.count_append, Mat.ids] at hc hl ⊢
          omega
      · exact h
  | overwriteBlock dst src k =>
    simp only [step]
    split
    · rename_i d s hd hs
      split
      · rename_i hg
        obtain ⟨hkd, hks⟩ := hg
        have hlen : (s.data.take k).length = k := by simp only [List.length_take]; omega
        have hmem : d ∈ w.regs := List.mem_of_getElem? hd
        constructor
        · apply coh_set h.coh
          have := h.coh d hmem
          simp only [Mat.Coh, List.length_append, cloneToks_length _ _ _ _ hlen, List.length_drop] at this ⊢
          omega
        · rw [List.perm_iff_count]; intro a
          have hc := count_liveIds_set w.regs dst d
            { d with data := cloneToks (s.data.take k) w.nextId k id ++ d.data.drop k } hd a
          have ht := take_drop_count d.data k a
          have hl := hled a
          have hr := count_range_add w.nextId k a
          simp only [World.ledger, List.count_append, Mat.ids, List.map_append,
            cloneToks_ids _ _ _ _ hlen] at hc hl ⊢
          omega
      · exact h
    · exact h
  | binaryFresh x y n c =>
    simp only [step]
    split
    · constructor
      · apply coh_push h.coh
        simp only [Mat.Coh, fresh_length]; omega
      · rw [List.perm_iff_count]; intro a
        have hc := count_liveIds_push w.regs
          { major := 1, minor := n, data := fresh w.nextId n (fun _ => 0) } a
        have hl := hled a
        have hr := count_range_add w.nextId n a
        have hr' := count_range_add (w.nextId + n) c a
        simp only [World.ledger, List.count_append, Mat.ids, fresh_ids] at hc hl ⊢
        omega
    · exact h
  | consumeBinaryFresh x y n c =>
    simp only [step]
    split
    · rename_i ma mb hx hy
      constructor
      · apply coh_push (coh_set h.coh _ _ coh_empty)
        simp only [Mat.Coh, fresh_length]; omega
      · rw [List.perm_iff_count]; intro a
        have hc := count_liveIds_push (w.regs.set x { major := 0, minor := 0, data := [] })
          { major := 1, minor := n, data := fresh w.nextId n (fun _ => 0) } a
        have hs := count_liveIds_set w.regs x ma { major := 0, minor := 0, data := [] } hx a
        have hl := hled a
        have hr := count_range_add w.nextId n a
        have hr' := count_range_add (w.nextId + n) c a
        simp only [World.ledger, List.count_append, Mat.ids, fresh_ids, List.map_nil,
          List.count_nil] at hc hs hl ⊢
        omega
    · exact h
  | assignInPlace x c =>
    simp only [step]
    split
    · exact h
    · rename_i m hm
      have hmem : m ∈ w.regs := List.mem_of_getElem? hm
      constructor
      · apply coh_set h.coh
        have := h.coh m hmem
        simp only [Mat.Coh, List.length_map] at this ⊢
        exact this
      · rw [List.perm_iff_count]; intro a
        have hc := count_liveIds_set w.regs x m
          { m with data := m.data.map fun t => ⟨t.id, t.val + 1⟩ } hm a
        have hv := revalue_ids m.data (· + 1)
        have hl := hled a
        have hr := count_range_add w.nextId c a
        simp only [World.ledger, List.count_append, Mat.ids, hv] at hc hl ⊢
        omega
  | newMatrix R C =>
    simp only [step]
    constructor
    · apply coh_push h.coh
      simp only [Mat.Coh, fresh_length]
    · rw [List.perm_iff_count]; intro a
      have hc := count_liveIds_push w.regs
        { major := R, minor := C, data := fresh w.nextId (R * C) (fun _ => 0) } a
      have hl := hled a
      have hr := count_range_add w.nextId (R * C) a
      simp only [World.ledger, List.count_append, Mat.ids, fresh_ids] at hc hl ⊢
      omega
  | setElem r k =>
    simp only [step]
    split
    · exact h
    · rename_i m hm
      split
      · exact h
      · rename_i t ht
        have hmem : m ∈ w.regs := List.mem_of_getElem? hm
        constructor
        · apply coh_set h.coh
          have := h.coh m hmem
          simp only [Mat.Coh, List.length_set] at this ⊢
          exact this
        · rw [List.perm_iff_count]; intro a
          have hc := count_liveIds_set w.regs r m { m with data := m.data.set k ⟨w.nextId, 0⟩ } hm a
          have hs := count_set_ids m.data k t ⟨w.nextId, 0⟩ ht a
          have hl := hled a
          have hr := count_range_add w.nextId 1 a
          simp only [World.ledger, List.count_append, Mat.ids, List.range'_one] at hc hs hl hr ⊢
          omega
  | updElem r k =>
    simp only [step]
    split
    · exact h
    · rename_i m hm
      split
      · exact h
      · rename_i t ht
        have hmem : m ∈ w.regs := List.mem_of_getElem? hm
        constructor
        · apply coh_set h.coh
          have := h.coh m hmem
          simp only [Mat.Coh, List.length_set] at this ⊢
          exact this
        · rw [List.perm_iff_count]; intro a
          have hc := count_liveIds_set w.regs r m { m with data := m.data.set k ⟨w.nextId, t.val + 1⟩ } hm a
          have hs := count_set_ids m.data k t ⟨w.nextId, t.val + 1⟩ ht a
          have hl := hled a
          have hr := count_range_add w.nextId 1 a
          simp only [World.ledger, List.count_append, Mat.ids, List.range'_one] at hc hs hl hr ⊢
          omega

/-- the invariant survives every finite history from any state that satisfies it -/
theorem run_inv_from (w : World) (ops : List Op) (h : Inv w) : Inv (run w ops) := by
  induction ops generalizing w with
  | nil => exact h
  | cons op ops ih => exact ih _ (step_inv w op h)

theorem init_inv : Inv ⟨[], 0, [], []⟩ :=
  ⟨by simp, by simp [World.ledger, liveIds]⟩

/-- C01 (ledger part): after every finite history from the empty world, every register is
coherent and `live ++ dropped ++ moved-out` is a permutation of the ids ever created. -/
theorem run_inv (ops : List Op) : Inv (run ⟨[], 0, [], []⟩ ops) :=
  run_inv_from _ ops init_inv

/-! ### consequences -/

/-- no id occurs twice among live ∪ dropped ∪ moved-out: a token is never duplicated, never
dropped twice, never both dropped and handed out, never dropped while still live -/
theorem inv_nodup {w : World} (h : Inv w) : w.ledger.Nodup :=
  h.led.nodup_iff.mpr List.nodup_range

/-- once every matrix is gone, every token ever created has been dropped or handed to the caller
exactly once -/
theorem all_accounted {w : World} (h : Inv w) (hempty : liveIds w.regs = []) :
    (w.dropped ++ w.out).Perm (List.range w.nextId) := by
  have := h.led; simpa [World.ledger, hempty] using this

/-! ### what one operation adds to the ledger -/

theorem step_delta (w : World) (op : Op) :
    (step w op).nextId = w.nextId + (delta w op).1 ∧
    (step w op).dropped.length = w.dropped.length + (delta w op).2.1 ∧
    (step w op).out.length = w.out.length + (delta w op).2.2 := by
  cases op with
  | resize r R C =>
    simp only [step, delta]
    split
    · simp
    · split
      · refine ⟨?_, ?_, ?_⟩ <;> simp only [List.length_append, List.length_map, List.length_drop] <;> omega
      · refine ⟨?_, ?_, ?_⟩ <;> simp only <;> omega
  | clear r => simp only [step, delta]; split <;> simp [Mat.ids]
  | clone r => simp only [step, delta]; split <;> simp
  | mapFresh r => simp only [step, delta]; split <;> simp [Mat.ids]
  | swapElems r i j => simp only [step, delta]; split <;> simp
  | intoIter r => simp only [step, delta]; split <;> simp [Mat.ids]
  | dropReg r => simp only [step, delta]; split <;> simp [Mat.ids]
  | permute r p R C =>
    simp only [step, delta]
    split
    · simp
    · split <;> simp
  | overwriteBlock dst src k =>
    simp only [step, delta]
    split
    · split
      · refine ⟨?_, ?_, ?_⟩ <;> simp only [List.length_append, List.length_map, List.length_take] <;> omega
      · simp
    · simp
  | binaryFresh x y n c =>
    simp only [step, delta]
    split
    · refine ⟨?_, ?_, ?_⟩ <;> simp only [List.length_append, List.length_range'] <;> omega
    · simp
  | consumeBinaryFresh x y n c =>
    simp only [step, delta]
    split
    · refine ⟨?_, ?_, ?_⟩ <;> simp only [List.length_append, List.length_map, List.length_range', Mat.ids] <;> omega
    · simp
  | assignInPlace x c => simp only [step, delta]; split <;> simp
  | newMatrix R C => simp [step, delta]
  | setElem r k =>
    simp only [step, delta]
    split
    · simp
    · rename_i m hm
      split
      · rename_i hn
        have : ¬ k < m.data.length := by
          intro hlt; rw [List.getElem?_eq_getElem hlt] at hn; cases hn
        rw [if_neg this]; simp
      · rename_i t ht
        have : k < m.data.length := (List.getElem?_eq_some_iff.mp ht).1
        rw [if_pos this]; simp
  | updElem r k =>
    simp only [step, delta]
    split
    · simp
    · rename_i m hm
      split
      · rename_i hn
        have : ¬ k < m.data.length := by
          intro hlt; rw [List.getElem?_eq_getElem hlt] at hn; cases hn
        rw [if_neg this]; simp
      · rename_i t ht
        have : k < m.data.length := (List.getElem?_eq_some_iff.mp ht).1
        rw [if_pos this]; simp

/-! ### non-vacuity: a concrete history -/

/-- the history: construct two matrices, transpose one (a pure rearrangement with a shape change),
clone-overwrite a block, form a by-reference sum (with two internal temporaries), a consuming
product, an in-place `*_assign`, a consuming map, a shrinking resize, and a consuming iteration -/
def demo : List Op :=
  [.newMatrix 2 3, .newMatrix 2 2, .permute 0 [0, 3, 1, 4, 2, 5] 3 2, .swapElems 1 0 3,
   .overwriteBlock 0 1 2, .binaryFresh 0 1 2 2, .consumeBinaryFresh 1 0 3 1, .assignInPlace 2 1,
   .mapFresh 3, .resize 0 2 2, .intoIter 0]

example :
    run ⟨[], 0, [], []⟩ demo
    = { regs := [{ major := 0, minor := 0, data := [] },
                 { major := 0, minor := 0, data := [] },
                 { major := 1, minor := 2, data := [⟨12, 1⟩, ⟨13, 1⟩] },
                 { major := 1, minor := 3, data := [⟨21, 1⟩, ⟨22, 1⟩, ⟨23, 1⟩] }],
        nextId := 24,
        dropped := [0, 3, 14, 15, 9, 7, 8, 6, 19, 20, 16, 17, 18, 2, 5],
        out := [10, 11, 1, 4] } := by
  decide

/-- element writes on a 2×3 matrix: an in-range `*m.get_mut(..)? = v` (token 4 dropped, token 6
created in its place), an out-of-range one (`IndexOutOfBounds`: the ledger is untouched), an
in-place update (token 0 consumed by the closure, token 7 created in its place) -/
example :
    run ⟨[], 0, [], []⟩ [.newMatrix 2 3, .setElem 0 4, .setElem 0 6, .updElem 0 0]
    = { regs := [{ major := 2, minor := 3, data := [⟨7, 1⟩, ⟨1, 0⟩, ⟨2, 0⟩, ⟨3, 0⟩, ⟨6, 0⟩, ⟨5, 0⟩] }],
        nextId := 8, dropped := [4, 0], out := [] } := by
  decide

example : delta (run ⟨[], 0, [], []⟩ [.newMatrix 2 3]) (.setElem 0 4) = (1, 1, 0) ∧
    delta (run ⟨[], 0, [], []⟩ [.newMatrix 2 3]) (.setElem 0 6) = (0, 0, 0) ∧
    delta (run ⟨[], 0, [], []⟩ [.newMatrix 2 3]) (.updElem 0 5) = (1, 1, 0) := by
  decide

/-- after dropping everything no token is live … -/
example : liveIds (run ⟨[], 0, [], []⟩ (demo ++ [.dropReg 2, .dropReg 3])).regs = [] := by
  decide

/-- … and, by `all_accounted`, all 24 tokens ever created were dropped or moved out exactly once -/
example :
    let w := run ⟨[], 0, [], []⟩ (demo ++ [.dropReg 2, .dropReg 3])
    (w.dropped ++ w.out).Perm (List.range w.nextId) :=
  all_accounted (run_inv _) (by decide)

end Matreex.C01Ledger
