/-
C01 — shape and element store stay coherent over every operation history.

Part 1 (this file, namespace `C01`): coherence is an inductive invariant of every finite history
over the operation language of `Model/History.lean`, no operation faults (no UB, no panic) on a
reachable state, and in a coherent matrix every in-bounds coordinate resolves to its own, distinct,
existing element.  The *contents* clause ("equal to a row-of-rows reference that applied the same
operations") is the per-operation specification theorems of C05, C08, C09, C10, C11, C12, C14,
C19 (each expresses the result's logical view through the operands' logical views) — the
correspondence run replays random histories against an independent row-of-rows reference.
Part 2 (`Props/C01Ledger.lean`): the ownership ledger — every token is in exactly one place.
-/
import Matreex.Model.History
import Matreex.Props.C05
import Matreex.Props.C08
import Matreex.Props.C09
import Matreex.Props.C10
import Matreex.Props.C11
import Matreex.Props.C12
import Matreex.Props.C14
import Matreex.Props.C19
import Matreex.Lemmas.History

namespace Matreex.C01
open Matreex Matreex.History
variable {α : Type}

/-- coherence means: extents multiply to the element count, exactly (no overflow: the count is a
`usize`), and every in-bounds coordinate has its own distinct element -/
theorem coh_meaning (m : Matrix α) (h : m.Coh) :
    m.nrows * m.ncols = m.data.size ∧
    (∀ r c, r < m.nrows → c < m.ncols → ∃ x, m.at? r c = some x ∧ m.idx r c < m.data.size) ∧
    (∀ r c r' c', r < m.nrows → c < m.ncols → r' < m.nrows → c' < m.ncols →
      m.idx r c = m.idx r' c' → r = r' ∧ c = c') := by
  refine ⟨m.nrows_mul_ncols h, ?_, ?_⟩
  · intro r c hr hc
    exact ⟨_, m.at?_eq_some h hr hc, m.idx_lt h hr hc⟩
  · intro r c r' c' hr hc hr' hc' he
    exact m.idx_inj hr hc hr' hc' he

/-! ### per-operation lemmas: no fault, and the resulting matrix is good -/

theorem good_of_shape {m m' : Matrix α} (hm : Good m) (hc : m'.Coh) (hs : m'.shape = m.shape) :
    Good m' := by
  refine ⟨hc, ?_⟩
  rw [← hc.size_eq, hs, hm.1.size_eq]
  exact hm.2

theorem toAxis_size (r c : Nat) (o : Order) :
    ((Shape.mk r c).toAxis o).major * ((Shape.mk r c).toAxis o).minor = r * c := by
  cases o <;> simp [Shape.toAxis, Nat.mul_comm]

theorem orderOp_good (m : Matrix α) (hm : Good m) (op : C05.OrderOp) :
    ∃ m', C05.applyOp m op = .ok m' ∧ Good m' := by
  obtain ⟨m', _, hr, hc, hp, _⟩ := C05.runOps_spec [op] m hm.1 hm.2
  simp only [C05.runOps] at hr
  cases ha : C05.applyOp m op with
  | error e => simp [ha] at hr
  | ok m1 =>
    simp only [ha, Except.ok.injEq] at hr
    subst hr
    exact ⟨m1, rfl, hc, by rw [hp.size_eq]; exact hm.2⟩

theorem withValue_good (es r c : Nat) (v : α) :
    ∃ x, Matrix.withValue es ⟨r, c⟩ v = .ok x ∧ ∀ m, x = .ok m → Good m := by
  refine ⟨_, C08.withValue_spec es r c v, ?_⟩
  intro m hm
  by_cases h1 : r * c > usizeMax
  · simp [h1] at hm
  · by_cases h2 : es * (r * c) > isizeMax
    · simp [h1, h2] at hm
    · simp only [h1, h2, ↓reduceIte, Except.ok.injEq] at hm
      subst hm
      exact ⟨⟨by simp⟩, by simp; omega⟩

theorem withInitializer_good (es r c : Nat) (f : Index → α) :
    ∃ x, Matrix.withInitializer es ⟨r, c⟩ f = .ok x ∧ ∀ m, x = .ok m → Good m := by
  obtain ⟨d, hd, hsz⟩ := C08.withInitializer_decision es r c f
  refine ⟨_, hd, ?_⟩
  intro m hm
  by_cases h1 : r * c > usizeMax
  · simp [h1] at hm
  · by_cases h2 : es * (r * c) > isizeMax
    · simp [h1, h2] at hm
    · simp only [h1, h2, ↓reduceIte, Except.ok.injEq] at hm
      subst hm
      have := hsz (by omega) (by omega)
      exact ⟨⟨by simp [this]⟩, by simp only [this]; omega⟩

theorem tryFromRows_good (es : Nat) (rows : List (List α)) :
    ∃ x, Matrix.tryFromRows es rows = .ok x ∧ ∀ m, x = .ok m → Good m := by
  by_cases h1 : rows.length * C19.firstLen rows > usizeMax
  · refine ⟨.error .sizeOverflow, ?_, fun m hm => by cases hm⟩
    unfold C19.firstLen at h1
    simp [Matrix.tryFromRows, C08.sizeDecision_spec, bind, Except.bind, h1, bindErr]
  · by_cases h2 : es * (rows.length * C19.firstLen rows) > isizeMax
    · refine ⟨.error .capacityOverflow, ?_, fun m hm => by cases hm⟩
      unfold C19.firstLen at h1 h2
      simp [Matrix.tryFromRows, C08.sizeDecision_spec, bind, Except.bind, h1, h2, bindErr]
    · have hs := C19.tryFromRows_spec es rows (by omega) (by omega)
      split at hs
      · rename_i hu
        refine ⟨_, hs, ?_⟩
        intro m hm
        cases hm
        refine ⟨(C19.rows_of_flatten rows _ hu).1, ?_⟩
        simp only [List.size_toArray, C19.flatten_length rows _ hu]
        omega
      · exact ⟨_, hs, fun m hm => by cases hm⟩

theorem fromIter_good (rows : List (List α)) (h1 : rows.length ≤ usizeMax)
    (h2 : ∀ row ∈ rows, row.length = (rows.head?.map List.length).getD 0)
    (h3 : rows.flatten.length ≤ usizeMax) :
    ∃ m, Matrix.fromIter rows = .ok m ∧ Good m := by
  cases rows with
  | nil => exact ⟨_, C19.fromIter_empty, ⟨rfl⟩, by simp⟩
  | cons first rest =>
    simp only [List.head?_cons, Option.map_some, Option.getD_some] at h2
    have hs := C19.fromIter_spec first rest (by simp at h1; omega)
    have hu : ∀ r ∈ rest, r.length = first.length := fun r hr => h2 r (by simp [hr])
    rw [if_pos hu] at hs
    refine ⟨_, hs, ⟨?_⟩, ?_⟩
    · simp only [List.size_toArray, C19.flatten_length (first :: rest) first.length h2,
        List.length_cons]
      rw [Nat.add_comm]
    · simpa using h3

theorem reshape_good (m : Matrix α) (hm : Good m) (nr nc : Nat) :
    ∃ e m', m.reshape ⟨nr, nc⟩ = .ok (e, m') ∧ Good m' := by
  rw [C08.reshape_decision m hm.2]
  by_cases h : nr * nc = m.data.size
  · rw [if_pos h]
    exact ⟨_, _, rfl, ⟨by simp only [toAxis_size]; exact h⟩, hm.2⟩
  · rw [if_neg h]
    exact ⟨_, _, rfl, hm⟩

theorem resize_good (es : Nat) (m : Matrix α) (hm : Good m) (nr nc : Nat) (dflt : α) :
    ∃ e m', m.resize es ⟨nr, nc⟩ dflt = .ok (e, m') ∧ Good m' := by
  rw [C08.resize_decision]
  by_cases h1 : nr * nc > usizeMax
  · rw [if_pos h1]; exact ⟨_, _, rfl, hm⟩
  · rw [if_neg h1]
    by_cases h2 : es * (nr * nc) > isizeMax
    · rw [if_pos h2]; exact ⟨_, _, rfl, hm⟩
    · rw [if_neg h2]
      refine ⟨_, _, rfl, ⟨?_⟩, ?_⟩
      · simp only [toAxis_size, C08.resizeData_size]
      · simp only [C08.resizeData_size]; omega

theorem swapRows_good (es : Nat) (m : Matrix α) (hm : Good m) (a b : Nat) (ha : a ≤ usizeMax)
    (hb : b ≤ usizeMax) : ∃ e m', m.swapRows es a b = .ok (e, m') ∧ Good m' := by
  obtain ⟨hin, hout⟩ := C10.swapRows_spec es m hm.1 hm.2 a b ha hb
  by_cases h : a < m.nrows ∧ b < m.nrows
  · obtain ⟨m', h1, _, h3, h4, _⟩ := hin h
    exact ⟨_, _, h1, ⟨by rw [h3, h4]; exact hm.1.size_eq⟩, by rw [h4]; exact hm.2⟩
  · exact ⟨_, _, hout h, hm⟩

theorem swapCols_good (es : Nat) (m : Matrix α) (hm : Good m) (a b : Nat) (ha : a ≤ usizeMax)
    (hb : b ≤ usizeMax) : ∃ e m', m.swapCols es a b = .ok (e, m') ∧ Good m' := by
  obtain ⟨hin, hout⟩ := C10.swapCols_spec es m hm.1 hm.2 a b ha hb
  by_cases h : a < m.ncols ∧ b < m.ncols
  · obtain ⟨m', h1, _, h3, h4, _⟩ := hin h
    exact ⟨_, _, h1, ⟨by rw [h3, h4]; exact hm.1.size_eq⟩, by rw [h4]; exact hm.2⟩
  · exact ⟨_, _, hout h, hm⟩

theorem swapElems_good (m : Matrix α) (hm : Good m) (i1 j1 i2 j2 : Nat) :
    ∃ e m', m.swapElems (m.getIdx i1 j1) (m.getIdx i2 j2) = .ok (e, m') ∧ Good m' := by
  rw [C04.get_exact m hm.1 hm.2 i1 j1, C04.get_exact m hm.1 hm.2 i2 j2]
  by_cases h1 : i1 < m.nrows ∧ j1 < m.ncols
  · rw [if_pos h1]
    by_cases h2 : i2 < m.nrows ∧ j2 < m.ncols
    · rw [if_pos h2]
      obtain ⟨d', hd, hsz, _⟩ := C10.swapElems_spec m (m.idx i1 j1) (m.idx i2 j2)
        (m.idx_lt hm.1 h1.1 h1.2) (m.idx_lt hm.1 h2.1 h2.2)
      exact ⟨_, _, hd, ⟨by simp only [hsz]; exact hm.1.size_eq⟩, by simp only [hsz]; exact hm.2⟩
    · rw [if_neg h2]
      exact ⟨_, _, C10.swapElems_err_second m _ _, hm⟩
  · rw [if_neg h1]
    exact ⟨_, _, C10.swapElems_err_first m _ _, hm⟩

/-- `*m.get_mut((i, j))? = v`: never a fault; the element count is unchanged in both outcomes -/
theorem setAt_good (m : Matrix α) (hm : Good m) (i j : Nat) (v : α) :
    ∃ e m', m.setAt i j v = .ok (e, m') ∧ Good m' := by
  unfold Matrix.setAt
  rw [C04.get_exact m hm.1 hm.2 i j]
  by_cases h : i < m.nrows ∧ j < m.ncols
  · rw [if_pos h]
    exact ⟨_, _, rfl, ⟨by simp only [Array.size_setIfInBounds]; exact hm.1.size_eq⟩,
      by simp only [Array.size_setIfInBounds]; exact hm.2⟩
  · rw [if_neg h]
    exact ⟨_, _, rfl, hm⟩

/-- `*e = f(*e)` through `get_mut((i, j))?`: never a fault; the element count is unchanged -/
theorem updAt_good (m : Matrix α) (hm : Good m) (i j : Nat) (f : α → α) :
    ∃ e m', m.updAt i j f = .ok (e, m') ∧ Good m' := by
  unfold Matrix.updAt
  rw [C04.get_exact m hm.1 hm.2 i j]
  by_cases h : i < m.nrows ∧ j < m.ncols
  · rw [if_pos h]
    exact ⟨_, _, rfl, ⟨by simp only [Array.size_modify]; exact hm.1.size_eq⟩,
      by simp only [Array.size_modify]; exact hm.2⟩
  · rw [if_neg h]
    exact ⟨_, _, rfl, hm⟩

theorem overwrite_good (clone : α → α) (d s : Matrix α) (hd : Good d) (hs : Good s) :
    ∃ m', d.overwrite clone s = .ok m' ∧ Good m' := by
  obtain ⟨m', h1, _, h3, h4, _⟩ := C14.overwrite_spec clone d s hd.1 hs.1
  exact ⟨m', h1, good_of_shape hd h4 h3⟩

theorem map_good (es : Nat) (s : Matrix α) (hs : Good s) (f : α → α) :
    ∃ x, s.map es f = .ok x ∧ ∀ m, x = .ok m → Good m := by
  refine ⟨_, C08.map_decision es s f, ?_⟩
  intro m hm
  by_cases h : es * s.data.size > isizeMax
  · simp [h] at hm
  · simp only [h, ↓reduceIte, Except.ok.injEq] at hm
    subst hm
    exact ⟨⟨by simp only [Array.size_map]; exact hs.1.size_eq⟩, by simp only [Array.size_map]; exact hs.2⟩

theorem elementwise_good (es : Nat) (a b : Matrix α) (ha : Good a) (hb : Good b) (op : α → α → α) :
    ∃ x, a.elementwiseOperation es b op = .ok x ∧ ∀ m, x = .ok m → Good m := by
  by_cases hc : a.nrows = b.nrows ∧ a.ncols = b.ncols
  · by_cases hcap : es * a.data.size > isizeMax
    · exact ⟨_, C12.elementwise_capacity es a b op hc.1 hc.2 hcap, fun m hm => by cases hm⟩
    · obtain ⟨m, h1, _, h3, h4, _⟩ := C12.elementwise_spec es a b op ha.1 hb.1 ha.2 hb.2 hc.1 hc.2
        (by omega)
      refine ⟨_, h1, fun m' hm' => ?_⟩
      cases hm'
      exact good_of_shape ha h4 h3
  · exact ⟨_, C12.elementwise_not_conformable es a b op hc, fun m hm => by cases hm⟩

theorem elementwiseAssign_good (a b : Matrix α) (ha : Good a) (hb : Good b) (op : α → α → α) :
    ∃ e m', a.elementwiseAssign b op = .ok (e, m') ∧ Good m' := by
  by_cases hc : a.nrows = b.nrows ∧ a.ncols = b.ncols
  · obtain ⟨m, h1, _, h3, h4, _⟩ := C12.elementwiseAssign_spec a b op ha.1 hb.1 ha.2 hb.2 hc.1 hc.2
    exact ⟨_, _, h1, good_of_shape ha h4 h3⟩
  · exact ⟨_, _, C12.elementwiseAssign_not_conformable a b op hc, ha⟩

theorem multiply_good (es : Nat) (a b : Matrix α) (ha : Good a) (hb : Good b)
    (mul add : α → α → α) (dflt : α) :
    ∃ x, a.multiply false false es b mul add dflt = .ok x ∧ ∀ m, x = .ok m → Good m := by
  have e1 : a.hdr.ncols = a.ncols := rfl
  have e2 : a.hdr.nrows = a.nrows := rfl
  have e3 : b.hdr.ncols = b.ncols := rfl
  have e4 : b.hdr.nrows = b.nrows := rfl
  by_cases hc : a.ncols = b.nrows
  · by_cases h1 : a.nrows * b.ncols > usizeMax
    · refine ⟨.error .sizeOverflow, ?_, fun m hm => by cases hm⟩
      simp only [Matrix.multiply, mulLike, C08.mulDecision_spec, e1, e2, e3, e4, bind, Except.bind]
      simp [hc, h1, bindErr]
    · by_cases h2 : es * (a.nrows * b.ncols) > isizeMax
      · refine ⟨.error .capacityOverflow, ?_, fun m hm => by cases hm⟩
        simp only [Matrix.multiply, mulLike, C08.mulDecision_spec, e1, e2, e3, e4, bind, Except.bind]
        simp [hc, h1, h2, bindErr]
      · obtain ⟨c, h3, _, h5, h6, h7, _⟩ := C11.multiply_spec es a b mul add dflt ha.1 hb.1 ha.2 hb.2 hc
          (by omega) (by omega)
        refine ⟨_, h3, fun m hm => ?_⟩
        cases hm
        refine ⟨h7, ?_⟩
        rw [← c.nrows_mul_ncols h7, h5, h6]
        omega
  · exact ⟨_, C11.multiply_not_conformable false false es a b mul add dflt hc, fun m hm => by cases hm⟩

/-- one step: on a world satisfying the invariant every well-formed operation runs without
fault and re-establishes the invariant (whether it returned `Ok` or `Err`) -/
theorem step_inv (es : Nat) (w : World α) (op : Op α) (hw : Inv w) (hop : op.WF) :
    ∃ w', step es w op = .ok w' ∧ Inv w' := by
  cases op with
  | withValue dst r c v =>
    obtain ⟨x, h1, h2⟩ := withValue_good es r c v
    exact store_inv hw dst _ x h1 h2
  | withInitializer dst r c f =>
    obtain ⟨x, h1, h2⟩ := withInitializer_good es r c f
    exact store_inv hw dst _ x h1 h2
  | fromRows dst rows =>
    obtain ⟨x, h1, h2⟩ := tryFromRows_good es rows
    exact store_inv hw dst _ x h1 h2
  | fromIter dst rows =>
    obtain ⟨m, h1, h2⟩ := fromIter_good rows hop.1 hop.2.1 hop.2.2
    simp only [step, h1]
    exact ⟨_, rfl, Inv_set_some hw dst h2⟩
  | transpose r =>
    exact inPlace'_inv hw r _ (fun m hm => orderOp_good m hm .transpose)
  | switchOrder r =>
    exact inPlace'_inv hw r _ (fun m hm => orderOp_good m hm .switchOrder)
  | switchOrderWR r =>
    exact inPlace'_inv hw r _ (fun m hm => orderOp_good m hm .switchOrderWR)
  | setOrder r o =>
    exact inPlace'_inv hw r _ (fun m hm => orderOp_good m hm (.setOrder o))
  | setOrderWR r o =>
    exact inPlace'_inv hw r _ (fun m hm => orderOp_good m hm (.setOrderWR o))
  | reshape r nr nc =>
    exact inPlace_inv hw r _ (fun m hm => reshape_good m hm nr nc)
  | resize r nr nc dflt =>
    exact inPlace_inv hw r _ (fun m hm => resize_good es m hm nr nc dflt)
  | swapRows r a b =>
    exact inPlace_inv hw r _ (fun m hm => swapRows_good es m hm a b hop.1 hop.2)
  | swapCols r a b =>
    exact inPlace_inv hw r _ (fun m hm => swapCols_good es m hm a b hop.1 hop.2)
  | swapElems r i1 j1 i2 j2 =>
    exact inPlace_inv hw r _ (fun m hm => swapElems_good m hm i1 j1 i2 j2)
  | overwrite dst src clone =>
    simp only [step]
    cases hs : w.get src with
    | none => exact ⟨w, rfl, hw⟩
    | some s =>
      exact inPlace'_inv hw dst _ (fun d hd => overwrite_good clone d s hd (get_inv hw hs))
  | map dst src f =>
    simp only [step]
    cases hs : w.get src with
    | none => exact ⟨w, rfl, hw⟩
    | some s =>
      obtain ⟨x, h1, h2⟩ := map_good es s (get_inv hw hs) f
      exact store_inv hw dst _ x h1 h2
  | elementwise dst a b op =>
    simp only [step]
    cases ha : w.get a with
    | none => exact ⟨w, rfl, hw⟩
    | some ma =>
      cases hb : w.get b with
      | none => exact ⟨w, rfl, hw⟩
      | some mb =>
        obtain ⟨x, h1, h2⟩ := elementwise_good es ma mb (get_inv hw ha) (get_inv hw hb) op
        exact store_inv hw dst _ x h1 h2
  | elementwiseAssign a b op =>
    simp only [step]
    cases hb : w.get b with
    | none => exact ⟨w, rfl, hw⟩
    | some mb =>
      exact inPlace_inv hw a _ (fun ma hma => elementwiseAssign_good ma mb hma (get_inv hw hb) op)
  | multiply dst a b mul add dflt =>
    simp only [step]
    cases ha : w.get a with
    | none => exact ⟨w, rfl, hw⟩
    | some ma =>
      cases hb : w.get b with
      | none => exact ⟨w, rfl, hw⟩
      | some mb =>
        obtain ⟨x, h1, h2⟩ := multiply_good es ma mb (get_inv hw ha) (get_inv hw hb) mul add dflt
        exact store_inv hw dst _ x h1 h2
  | clear r =>
    exact inPlace'_inv hw r _ (fun m hm => ⟨_, rfl, ⟨rfl⟩, by simp⟩)
  | drop r =>
    exact ⟨_, rfl, Inv_set_none hw r⟩
  | setAt r i j v =>
    exact inPlace_inv hw r _ (fun m hm => setAt_good m hm i j v)
  | updAt r i j f =>
    exact inPlace_inv hw r _ (fun m hm => updAt_good m hm i j f)

theorem run_inv_from_aux (es : Nat) (ops : List (Op α)) : ∀ (w : World α), Inv w →
    (∀ op ∈ ops, op.WF) → ∃ w', run es w ops = .ok w' ∧ Inv w' := by
  induction ops with
  | nil => intro w hw _; exact ⟨w, rfl, hw⟩
  | cons op ops ih =>
    intro w hw hops
    obtain ⟨w1, h1, h2⟩ := step_inv es w op hw (hops op (by simp))
    obtain ⟨w2, h3, h4⟩ := ih w1 h2 (fun o ho => hops o (by simp [ho]))
    exact ⟨w2, by simp only [run, h1, h3], h4⟩

/-- every finite history from the empty register file: no fault, invariant at the end (and, by
the same induction, after every prefix) -/
theorem run_inv (es : Nat) (ops : List (Op α)) (hops : ∀ op ∈ ops, op.WF) :
    ∃ w, run es ⟨[]⟩ ops = .ok w ∧ Inv w :=
  run_inv_from_aux es ops ⟨[]⟩ Inv_nil hops

/-- …and from any world satisfying the invariant -/
theorem run_inv_from (es : Nat) (w : World α) (hw : Inv w) (ops : List (Op α)) (hops : ∀ op ∈ ops, op.WF) :
    ∃ w', run es w ops = .ok w' ∧ Inv w' :=
  run_inv_from_aux es ops w hw hops

/-! ### non-vacuity: a history mixing construction, transposition, reshape, resize, order switch,
swap, elementwise and product operations on 2×3 / 3×0 matrices -/

def hist : List (Op Nat) := [
  .withInitializer 0 2 3 (fun i => 10 * i.row + i.col),
  .transpose 0, .reshape 0 1 6, .resize 0 2 2 7, .switchOrder 0,
  .withValue 1 3 0 0, .switchOrderWR 1, .resize 1 2 2 9,
  .swapRows 0 0 1, .elementwise 2 0 1 (· + ·), .multiply 3 0 1 (· * ·) (· + ·) 0,
  .reshape 3 5 5, .setAt 2 1 0 77, .setAt 2 2 0 78, .updAt 2 0 1 (· + 1), .updAt 2 0 (2 ^ 64 - 1) (· + 1),
  .clear 1, .drop 0]

/-- the hypotheses of `run_inv` are satisfiable by this history (its result, computed by the
compiled model: registers `[none, 0×0, 2×2 [10, 77, 21, 19], 2×2 [108, 90, 108, 90]]`, all column-major;
the second `setAt` and the second `updAt` are out of range: `Err(IndexOutOfBounds)`, nothing changes) -/
example : ∀ op ∈ hist, op.WF := by
  intro op hop
  simp only [hist, List.mem_cons, List.not_mem_nil, or_false] at hop
  rcases hop with rfl | rfl | rfl | rfl | rfl | rfl | rfl | rfl | rfl | rfl | rfl | rfl | rfl | rfl | rfl | rfl | rfl | rfl <;>
    simp [Op.WF, usizeMax]

/-! ### non-vacuity of the element writes: the 2×3 column-major matrix `C04.ex23` (rows `[1, 2, 3]`,
`[4, 5, 6]`; memory `[1, 4, 2, 5, 3, 6]`): an in-range and an out-of-range write / update -/

example : C04.ex23.setAt 1 2 9 = .ok (.ok (), ⟨.colMajor, ⟨3, 2⟩, #[1, 4, 2, 5, 3, 9]⟩) := by rfl
example : C04.ex23.setAt 2 0 9 = .ok (.error .indexOutOfBounds, C04.ex23) := by rfl
example : C04.ex23.setAt 0 3 9 = .ok (.error .indexOutOfBounds, C04.ex23) := by rfl
example : C04.ex23.updAt 0 1 (· * 10) = .ok (.ok (), ⟨.colMajor, ⟨3, 2⟩, #[1, 4, 20, 5, 3, 6]⟩) := by rfl
example : C04.ex23.updAt 0 (2 ^ 64 - 1) (· * 10) = .ok (.error .indexOutOfBounds, C04.ex23) := by rfl

/-- the same through `step` / `run`: the failed calls are not faults, the history continues -/
example : run 8 ⟨[some C04.ex23]⟩
      [.setAt 0 1 2 9, .setAt 0 2 0 7, .updAt 0 0 1 (· * 10), .updAt 0 0 3 (· * 10), .setAt 5 0 0 1] =
    .ok ⟨[some ⟨.colMajor, ⟨3, 2⟩, #[1, 4, 20, 5, 3, 9]⟩]⟩ := by rfl

example : (Op.setAt 0 1 2 9 : Op Nat).WF ∧ (Op.updAt 0 0 (2 ^ 64 - 1) (· * 10) : Op Nat).WF := by
  simp [Op.WF, usizeMax]

end Matreex.C01
